(* Proofs.FuncsPinInspect — Model/DataRead.inspect (the sniffer: inspect_loop, all_equal, drop_hyphen_subs)
   IS reader.inspect_data_section (Gen/Funcs.v: py_inspect_data_section, re-translated from /repo on every
   run), for every file, every pair of line numbers, every list of the READ_SUBS substitutions and each of
   the three splitters.  The file object is presented to the translated code as the list of the lines that
   remain (positioned at the title line, as file_obj.seek(k) leaves it); the model works on
   Sections.body_lines, so the line-number bookkeeping of the Python loop (line_no > line_nos[1],
   line_no == line_nos[1]) is part of what is proved.
   Restated as C02_inspect_current / C09_inspect_current. *)
From Coq Require Import List Arith NArith ZArith Bool Lia ZifyBool ZifyN ZifyNat String.
Import ListNotations.
Require Import PyStr Regex Regexes Funcs Sections DataRead FuncsPinsLib RegexSubFacts StripFacts.
Lemma str_eqb_sym : forall a b : list N, str_eqb a b = str_eqb b a.
Proof.
  induction a as [|x a IH]; destruct b as [|y b]; cbn [str_eqb]; try reflexivity. rewrite (N.eqb_sym x y), IH. reflexivity.
Qed.
Open Scope list_scope.
Open Scope N_scope.

(* an entry of defaults.READ_SUBS as the (compiled pattern, template) pair the Python code handles *)
Definition sub_pair (s : rsub) : re * list tpl :=
  match s with
  | SubComma => (rx_sub_comma, tpl_sub_comma)
  | SubRunonMinus => (rx_sub_runon_minus, tpl_sub_runon_minus)
  | SubRunonDot => (rx_sub_runon_dot, tpl_sub_runon_dot)
  end.
(* the returned column count: -1 = the sampled lines disagree (or there is none) *)
Definition ncols_Z (o : option nat) : Z := match o with Some n => Z.of_nat n | None => (-1)%Z end.

(* defaults.READ_SUBS, re-read from defaults.py by funcs.py, holds exactly the three substitutions of the model *)
Lemma read_subs_table :
  py_const_defaults_READ_SUBS =
  [(s2l "comma-decimal-mark", [sub_pair SubComma]); (s2l "run-on(-)", [sub_pair SubRunonMinus]);
   (s2l "run-on(.)", [sub_pair SubRunonDot])].
Proof. reflexivity. Qed.
Lemma hyphen_subs_table : py_const_defaults_HYPHEN_SUBS = [s2l "run-on(-)"].
Proof. reflexivity. Qed.

Lemma sub_eqb_pairs : forall a b, pyo_sub_eqb (sub_pair a) (sub_pair b) = rsub_eqb a b.
Proof. intros a b. destruct a, b; reflexivity. Qed.

Lemma strip_nl_inner s : strip (strip_chars [10] s) = strip s.
Proof.
  unfold strip_chars, strip_by.
  set (f := fun c : N => existsb (N.eqb c) [10]).
  assert (sub : forall w, forallb f w = true -> forallb is_space w = true).
  { intros w H. rewrite forallb_forall in *. intros c Hc. specialize (H c Hc). unfold f in H. cbn [existsb] in H.
    rewrite orb_false_r in H. apply N.eqb_eq in H. subst c. reflexivity. }
  destruct (lstrip_by_decomp f s) as (w & E & Hw & _).
  destruct (rstrip_by_decomp f (lstrip_by f s)) as (w' & E' & Hw').
  rewrite E at 2. rewrite E' at 2. symmetry. apply strip_pad; apply sub; assumption.
Qed.

Lemma apply_subs_fold : forall subs line,
  fold_left (fun (v_line : list N) (t2_ : re * list tpl) => let '(v_pattern, v_sub_str) := t2_ in
               let v_line0 : list N := re_sub v_pattern v_sub_str v_line in v_line0) (List.map sub_pair subs) line
  = apply_subs subs line.
Proof.
  unfold apply_subs. induction subs as [|s subs IH]; intros line; [reflexivity|].
  cbn [List.map fold_left]. rewrite <- IH. destruct s; reflexivity.
Qed.

Lemma filter_sub_pairs : forall subs,
  List.filter (fun v_s : re * list tpl => negb (existsb (pyo_sub_eqb v_s) [sub_pair SubRunonMinus])) (List.map sub_pair subs)
  = List.map sub_pair (drop_hyphen_subs subs).
Proof.
  unfold drop_hyphen_subs. induction subs as [|s subs IH]; [reflexivity|].
  cbn [List.map List.filter]. rewrite IH.
  replace (existsb (pyo_sub_eqb (sub_pair s)) [sub_pair SubRunonMinus]) with (rsub_eqb s SubRunonMinus)
    by (cbn [existsb]; rewrite sub_eqb_pairs, orb_false_r; reflexivity).
  destruct (rsub_eqb s SubRunonMinus); reflexivity.
Qed.

(* len(set(counts)) == 1 and counts[0]: the model's all_equal *)
Lemma filter_length_le {A} (f : A -> bool) l : (List.length (List.filter f l) <= List.length l)%nat.
Proof. induction l as [|x l IH]; cbn [List.filter List.length]; [lia|]. destruct (f x); cbn [List.length]; lia. Qed.

Lemma distinct_in : forall l x, In x (pyo_distinct l) <-> In x l.
Proof.
  induction l as [|y l IH]; intros x; [reflexivity|]. cbn [pyo_distinct In]. rewrite filter_In, IH.
  destruct (Z.eq_dec y x) as [->|Hn]; [tauto|].
  assert (negb (x =? y)%Z = true) by (destruct (x =? y)%Z eqn:E; [apply Z.eqb_eq in E; congruence|reflexivity]).
  tauto.
Qed.

Lemma distinct_one : forall (l : list nat),
  (pyo_llen (pyo_distinct (List.map Z.of_nat l)) =? 1)%Z = match all_equal l with Some _ => true | None => false end.
Proof.
  intros [|x l]; [reflexivity|]. cbn [all_equal List.map pyo_distinct]. unfold pyo_llen. cbn [List.length].
  destruct (forallb (Nat.eqb x) l) eqn:E.
  - assert (F : List.filter (fun y : Z => negb (y =? Z.of_nat x)%Z) (pyo_distinct (List.map Z.of_nat l)) = []).
    { destruct (List.filter _ _) as [|z r] eqn:Ef; [reflexivity|]. exfalso.
      assert (Hin : In z (z :: r)) by (left; reflexivity). rewrite <- Ef, filter_In, distinct_in, in_map_iff in Hin.
      destruct Hin as ((n & <- & Hn) & Hz). rewrite forallb_forall in E. specialize (E n Hn). apply Nat.eqb_eq in E. subst n.
      rewrite Z.eqb_refl in Hz. discriminate Hz. }
    rewrite F. reflexivity.
  - destruct (List.filter _ _) as [|z r] eqn:Ef.
    + exfalso. assert (Hall : forallb (Nat.eqb x) l = true); [|congruence].
      apply forallb_forall. intros n Hn. apply Nat.eqb_eq.
      destruct (Nat.eq_dec x n) as [|Hne]; [assumption|exfalso].
      assert (Hin : In (Z.of_nat n) (List.filter (fun y : Z => negb (y =? Z.of_nat x)%Z) (pyo_distinct (List.map Z.of_nat l)))).
      { rewrite filter_In, distinct_in. split; [apply in_map; exact Hn|]. destruct (Z.of_nat n =? Z.of_nat x)%Z eqn:E'; [lia|reflexivity]. }
      rewrite Ef in Hin. exact Hin.
    + cbn [List.length]. apply Z.eqb_neq. lia.
Qed.

Lemma skipn_rest {A} : forall n (l : list A), match skipn n l with [] => [] | _ :: r => r end = skipn (S n) l.
Proof. induction n as [|n IH]; intros [|x l]; try reflexivity. exact (IH l). Qed.

Lemma enumerate_from {A} : forall (l : list A) k,
  combine (List.map Z.of_nat (seq k (List.length l))) l
  = match l with [] => [] | x :: r => (Z.of_nat k, x) :: combine (List.map Z.of_nat (seq (S k) (List.length r))) r end.
Proof. intros [|x r] k; reflexivity. Qed.

Lemma range_seq n : pyo_range (Z.of_nat n) = List.map Z.of_nat (seq 0 n).
Proof. unfold pyo_range. rewrite Nat2Z.id. reflexivity. Qed.

Theorem inspect_pin : forall (d : dlm) (file : list (list N)) (first last : nat) (title : list N) (subs : list rsub),
  py_inspect_data_section (skipn first file) (Z.of_nat first, Z.of_nat last) (List.map sub_pair subs) [ch_hash]
                          (Some (split_line d))
  = let (n, subs') := inspect d (body_lines file (mkspos first last title)) subs in
    Some (ncols_Z n, List.map sub_pair subs').
Proof.
  intros d file first last title subs. unfold py_inspect_data_section, body_lines, inspect. cbn [sp_first sp_last].
  unfold pyo_readline_rest. rewrite skipn_rest. unfold pyo_enumerate, pyo_llen. rewrite range_seq.
  match goal with |- context [fold_left ?F0 _ (inr (Z.of_nat first, ?h0, ?c0))] => set (F := F0) end.
  set (proj3 := fun t : Z * list Z * list Z => (List.length (snd (fst t)), snd t)).
  (* once the loop is left, the rest of the file is ignored *)
  assert (Hinl : forall l t, fold_left F l (inl t) = inl t).
  { induction l as [|x l IH]; intros t; [reflexivity|]. exact (IH t). }
  assert (Hloop : forall l k ln hy counts,
    proj3 match fold_left F (combine (List.map Z.of_nat (seq k (List.length l))) l)
                     (inr (Z.of_nat ln, hy, List.map Z.of_nat (rev counts))) with inl t => t | inr t => t end
    = (let (h, c) := inspect_loop d (firstn (last - ln) l) k subs (List.length hy) counts in (h, List.map Z.of_nat c))).
  { induction l as [|x l IH]; intros k ln hy counts.
    - cbn [List.length seq List.map combine fold_left]. rewrite firstn_nil. reflexivity.
    - rewrite enumerate_from. cbn [fold_left]. unfold F at 2.
      replace (Z.of_nat ln + 1)%Z with (Z.of_nat (S ln)) by lia.
      destruct (Z.of_nat last <? Z.of_nat (S ln))%Z eqn:Elast.
      + rewrite Hinl. replace (last - ln)%nat with 0%nat by lia. reflexivity.
      + replace (last - ln)%nat with (S (last - S ln)) by lia. cbn [firstn inspect_loop].
        rewrite strip_nl_inner. destruct (strip x) as [|c0 r0] eqn:Ex.
        * cbn [pyo_truthy_str negb]. exact (IH (S k) (S ln) hy counts).
        * cbn [pyo_truthy_str negb]. rewrite <- Ex, strip_idem. unfold ch_hash.
          destruct (startswith [35] (strip x)) eqn:Ehash.
          { exact (IH (S k) (S ln) hy counts). }
          unfold pyo_in. rewrite contains_single. unfold ch_minus.
          rewrite apply_subs_fold. unfold pyo_llen.
          set (n := List.length (split_line d (apply_subs subs (strip x)))).
          replace (List.map Z.of_nat (rev counts) ++ [Z.of_nat n]) with (List.map Z.of_nat (rev (n :: counts)))
            by (cbn [rev]; rewrite map_app; reflexivity).
          rewrite map_length, rev_length.
          set (hy' := if in_str 45 (strip x) then hy ++ [Z.of_nat k] else hy).
          assert (Hhy : List.length hy' = if in_str 45 (strip x) then S (List.length hy) else List.length hy).
          { unfold hy'. destruct (in_str 45 (strip x)); [rewrite app_length; cbn [List.length]; lia|reflexivity]. }
          rewrite <- Hhy.
          destruct (firstn (last - S ln) l) as [|y rest] eqn:Erest.
          { (* the last line of the section, or the file ends here *)
            destruct ((Z.of_nat (S ln) =? Z.of_nat last)%Z || (20 <? Z.of_nat (List.length (n :: counts)))%Z).
            - rewrite Hinl. reflexivity.
            - destruct l as [|y l].
              + cbn [List.length seq List.map combine fold_left fst snd]. reflexivity.
              + destruct (last - S ln)%nat eqn:Em; [|discriminate Erest].
                specialize (IH (S k) (S ln) hy' (n :: counts)). rewrite Em in IH. cbn [firstn inspect_loop] in IH. exact IH. }
          destruct (Z.of_nat (S ln) =? Z.of_nat last)%Z eqn:Eeq.
          { apply Z.eqb_eq in Eeq. replace (last - S ln)%nat with 0%nat in Erest by lia. discriminate Erest. }
          cbn [orb]. replace (20 <? Z.of_nat (List.length (n :: counts)))%Z with (Nat.ltb 20 (List.length (n :: counts)))
            by (destruct (Nat.ltb 20 (List.length (n :: counts))) eqn:E20; symmetry; [apply Z.ltb_lt; apply Nat.ltb_lt in E20|apply Z.ltb_ge; apply Nat.ltb_ge in E20]; lia).
          destruct (Nat.ltb 20 (List.length (n :: counts))).
          { rewrite Hinl. reflexivity. }
          specialize (IH (S k) (S ln) hy' (n :: counts)). rewrite Erest in IH. exact IH. }
  specialize (Hloop (skipn (S first) file) 0%nat first [] []). cbn [rev List.map List.length] in Hloop.
  unfold proj3 in Hloop.
  destruct (match fold_left F _ _ with inl t => t | inr t => t end) as ((ln', hy'), cs').
  cbn [fst snd] in Hloop.
  destruct (inspect_loop d (firstn (last - first) (skipn (S first) file)) 0 subs 0 []) as (h, c).
  injection Hloop as Hh Hc. subst cs'. unfold pyo_llen. rewrite map_length.
  replace (Z.of_nat (List.length hy') =? Z.of_nat (List.length c))%Z with (Nat.eqb h (List.length c))
    by (subst h; destruct (Nat.eqb (List.length hy') (List.length c)) eqn:E; symmetry; [apply Z.eqb_eq; apply Nat.eqb_eq in E|apply Z.eqb_neq; apply Nat.eqb_neq in E]; lia).
  assert (Hfinal : forall subs' : list rsub,
    (if (pyo_llen (pyo_distinct (List.map Z.of_nat c)) =? 1)%Z
     then obind (pyo_list_item (List.map Z.of_nat c) 0%Z) (fun t13_ => Some (t13_, List.map sub_pair subs'))
     else Some ((- (1))%Z, List.map sub_pair subs'))
    = Some (ncols_Z (all_equal c), List.map sub_pair subs')).
  { intros subs'. rewrite distinct_one. destruct c as [|x c]; [reflexivity|]. cbn [all_equal].
    destruct (forallb (Nat.eqb x) c); reflexivity. }
  destruct (Nat.eqb h (List.length c)).
  - rewrite hyphen_subs_table, read_subs_table. cbn [fold_left].
    change (pyo_dict_item _ (s2l "run-on(-)")) with (Some [sub_pair SubRunonMinus]).
    cbn [obind fold_left app]. rewrite filter_sub_pairs. apply Hfinal.
  - cbn [obind]. apply Hfinal.
Qed.

(* ---------- las.py: inspect, accept the recommendation, inspect again ------------------------------------
   the three statements of LASFile.read's data-section loop that end with
   `if recommended_regexp_subs != regexp_subs and accept_regexp_sub_recommendations:` (py_inspect_twice);
   file_obj.seek(k) is read as "the file stands at the section's title line again" *)
Lemma list_sub_eqb_pairs : forall a b,
  pyo_list_eqb pyo_sub_eqb (List.map sub_pair a) (List.map sub_pair b) = list_rsub_eqb a b.
Proof.
  induction a as [|x a IH]; destruct b as [|y b]; try reflexivity.
  cbn [List.map pyo_list_eqb list_rsub_eqb]. rewrite sub_eqb_pairs, IH. reflexivity.
Qed.

Theorem inspect_twice_pin : forall (d : dlm) (file : list (list N)) (first last : nat) (title : list N) (subs : list rsub),
  py_inspect_twice (skipn first file) (Z.of_nat first) (Z.of_nat last) (List.map sub_pair subs) [ch_hash] (split_line d) true
  = let (n, subs') := inspect_twice d (body_lines file (mkspos first last title)) subs in
    Some (ncols_Z n, List.map sub_pair subs').
Proof.
  intros d file first last title subs. unfold py_inspect_twice, inspect_twice.
  rewrite (inspect_pin d file first last title subs).
  destruct (inspect d (body_lines file (mkspos first last title)) subs) as (n, rec) eqn:E1. cbn [obind].
  rewrite list_sub_eqb_pairs, andb_true_r.
  destruct (negb (list_rsub_eqb rec subs)); [|reflexivity].
  rewrite (inspect_pin d file first last title rec).
  destruct (inspect d (body_lines file (mkspos first last title)) rec) as (n2, rec2). reflexivity.
Qed.

(* ---------- the read policies: the substitution lists the model starts from ------------------------------
   defaults.READ_POLICIES and defaults.READ_SUBS (both re-read from defaults.py on every run) give, for the
   policy names "default" and "comma-delimiter" (the one LASFile.read switches to for DLM COMMA), the lists
   default_subs and comma_delim_subs of Model/DataRead.v.  policy_subs is get_substitutions' reading of a
   policy that is a key of READ_POLICIES (`for sub in policy_subs[policy]: if sub in subs: all_subs += subs[sub]`;
   get_substitutions itself is not translated). *)
Definition policy_subs (p : list N) : option (list (re * list tpl)) :=
  option_map (flat_map (fun k => pyo_dict_get py_const_defaults_READ_SUBS k []))
             (pyo_dict_item py_const_defaults_READ_POLICIES p).
Theorem read_policy_tables :
  policy_subs (s2l "default") = Some (List.map sub_pair default_subs) /\
  policy_subs (s2l "comma-delimiter") = Some (List.map sub_pair comma_delim_subs).
Proof. split; reflexivity. Qed.

(* ---------- define_line_splitter: the splitter handed to the sniffer and to the normal engine -------------
   DataRead.split_line d IS what reader.define_line_splitter returns for "SPACE" / "COMMA" / "TAB" (any other
   delimiter: KeyError), each match presented as "".join(<its groups>) *)
Definition dlm_of_name (s : list N) : option dlm :=
  if str_eqb s (s2l "SPACE") then Some DSpace
  else if str_eqb s (s2l "COMMA") then Some DComma
  else if str_eqb s (s2l "TAB") then Some DTab
  else None.
Theorem line_splitter_pin : forall delim line,
  py_define_line_splitter delim line = option_map (fun d => split_line d line) (dlm_of_name delim).
Proof.
  intros delim line. unfold py_define_line_splitter, dlm_of_name. cbv zeta.
  change (s2l "SPACE") with [83; 80; 65; 67; 69]. change (s2l "COMMA") with [67; 79; 77; 77; 65]. change (s2l "TAB") with [84; 65; 66].
  cbn [pyo_dict_set str_eqb N.eqb Pos.eqb andb]. cbn [pyo_dict_item].
  rewrite (str_eqb_sym [83; 80; 65; 67; 69] delim), (str_eqb_sym [67; 79; 77; 77; 65] delim), (str_eqb_sym [84; 65; 66] delim).
  destruct (str_eqb delim [83; 80; 65; 67; 69]); [reflexivity|].
  destruct (str_eqb delim [67; 79; 77; 77; 65]); [reflexivity|].
  destruct (str_eqb delim [84; 65; 66]); reflexivity.
Qed.
