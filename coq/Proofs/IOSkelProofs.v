(* Proofs.IOSkelProofs — soundness of the leak analysis `an` (Model/IOSkel.v) with respect
   to the nondeterministic semantics `exec`, for ALL programs and ALL fault sequences, and
   soundness of the syntactic check `caller_handles_untouched`. *)
From Coq Require Import List Arith Bool Lia.
Import ListNotations.
Require Import IOSkel.

(* σ is described by the abstract set A: every owned open handle is in A, and no variable
   holds two open files *)
Section Sound.
Variable n0 : nat.   (* the number of lost files when the call starts *)
Definition good (σ:st) (A:list nat) : Prop :=
  incl (owned σ) A /\ NoDup (owned σ) /\ lost σ = n0.

Lemma rm1_in h s x : In x (rm1 h s) -> In x s.
Proof.
  induction s as [|y t IH]; cbn; auto. destruct (y =? h); cbn; intuition.
Qed.
Lemma rm1_nodup h s : NoDup s -> NoDup (rm1 h s).
Proof.
  induction 1 as [|y t Hy Ht IH]; cbn; [constructor|].
  destruct (y =? h); auto. constructor; auto. intro Hi. apply Hy. eapply rm1_in; eauto.
Qed.
Lemma rm1_neq h s x : NoDup s -> In x (rm1 h s) -> x <> h.
Proof.
  induction 1 as [|y t Hy Ht IH]; cbn; [tauto|].
  destruct (y =? h) eqn:E.
  - apply Nat.eqb_eq in E. subst y. intros Hi ->. auto.
  - apply Nat.eqb_neq in E. intros [->|Hi]; auto.
Qed.
Lemma rm_in h A x : In x A -> x <> h -> In x (rm h A).
Proof.
  intros Hi Hn. unfold rm. apply filter_In. split; auto.
  apply negb_true_iff. apply Nat.eqb_neq. exact Hn.
Qed.
Lemma mem_false h A : mem h A = false -> ~ In h A.
Proof.
  unfold mem. intros H Hi. assert (existsb (Nat.eqb h) A = true); [|congruence].
  apply existsb_exists. exists h. split; auto. apply Nat.eqb_refl.
Qed.
Lemma mem_false_incl h ow A : mem h A = false -> incl ow A -> mem h ow = false.
Proof.
  intros Hm Hi. destruct (mem h ow) eqn:E; auto. exfalso. apply (mem_false _ _ Hm).
  unfold mem in E. apply existsb_exists in E as [y [Hy Ey]]. apply Nat.eqb_eq in Ey. subst y. auto.
Qed.
Lemma rm1_notin h s : ~ In h s -> rm1 h s = s.
Proof.
  induction s as [|y t IH]; cbn; auto. intros Hn. destruct (y =? h) eqn:E.
  - apply Nat.eqb_eq in E. subst. exfalso. apply Hn. left; auto.
  - f_equal. apply IH. intro. apply Hn. right; auto.
Qed.
Lemma good_close h ow tc tc' n A : good (ow, tc, n) A -> good (rm1 h ow, tc', n) (rm h A).
Proof.
  intros [Hi [Hn Hl]]. cbn in *. split; [|split]; cbn; auto.
  - intros x Hx. apply rm_in. + apply Hi. eapply rm1_in; eauto. + eapply rm1_neq; eauto.
  - apply rm1_nodup; auto.
Qed.
Lemma good_open h ow tc n A : mem h A = false -> good (ow, tc, n) A ->
  good (h :: rm1 h ow, tc, n + b2n (mem h ow)) (h :: A).
Proof.
  intros Hm [Hi [Hn Hl]]. cbn in *.
  assert (Hno : ~ In h ow) by (intro Hx; apply (mem_false _ _ Hm); auto).
  rewrite (mem_false_incl _ _ _ Hm Hi), (rm1_notin _ _ Hno). cbn. split; [|split]; cbn.
  - intros x [->|Hx]; [left; auto|right; auto].
  - constructor; auto.
  - rewrite Nat.add_0_r. exact Hl.
Qed.
Lemma good_rebind h ow tc n A : mem h A = false -> good (ow, tc, n) A ->
  good (rm1 h ow, tc, n + b2n (mem h ow)) A.
Proof.
  intros Hm [Hi [Hn Hl]]. cbn in *.
  assert (Hno : ~ In h ow) by (intro Hx; apply (mem_false _ _ Hm); auto).
  rewrite (mem_false_incl _ _ _ Hm Hi), (rm1_notin _ _ Hno). cbn. split; [|split]; cbn; auto.
  rewrite Nat.add_0_r. exact Hl.
Qed.
Lemma good_skip h ow tc n A : mem h ow = false -> good (ow, tc, n) A -> good (ow, tc, n) (rm h A).
Proof.
  intros Hm [Hi [Hn Hl]]. cbn in *. split; [|split]; cbn; auto.
  intros x Hx. apply rm_in; auto. intros ->. apply (mem_false _ _ Hm). exact Hx.
Qed.
Lemma subl_incl a b : subl a b = true -> incl a b.
Proof.
  unfold subl, mem. intros H x Hx. rewrite forallb_forall in H. specialize (H x Hx).
  apply existsb_exists in H as [y [Hy E]]. apply Nat.eqb_eq in E. subst. exact Hy.
Qed.
Lemma good_sub σ A B : good σ A -> subl A B = true -> good σ B.
Proof. intros [Hi Hn] H. split; auto. eapply incl_tran; eauto. apply subl_incl; auto. Qed.
Lemma good_incl σ A B : good σ A -> incl A B -> good σ B.
Proof. intros [Hi Hn] H. split; auto. eapply incl_tran; eauto. Qed.
Lemma union_l x y : incl x (union x y).
Proof. unfold union. apply incl_appl, incl_refl. Qed.
Lemma union_r x y : incl y (union x y).
Proof.
  unfold union. intros e He. apply in_or_app. destruct (mem e x) eqn:E.
  - left. unfold mem in E. apply existsb_exists in E as [z [Hz Ez]]. apply Nat.eqb_eq in Ez. subst; auto.
  - right. apply filter_In. split; auto. rewrite E. reflexivity.
Qed.
Lemma oj_l a b X s : a = Some X -> good s X -> exists Y, oj a b = Some Y /\ good s Y.
Proof.
  intros -> H. destruct b as [y|]; cbn; eexists; split; eauto.
  eapply good_incl; eauto. apply union_l.
Qed.
Lemma oj_r a b X s : b = Some X -> good s X -> exists Y, oj a b = Some Y /\ good s Y.
Proof.
  intros -> H. destruct a as [y|]; cbn; eexists; split; eauto.
  eapply good_incl; eauto. apply union_r.
Qed.

Ltac inv H := inversion H; subst; clear H.

Lemma ab5_in k fN fR fT fB fC o fo X s :
  (o = ONorm /\ fo = fN) \/ (o = ORaise /\ fo = fR) \/ (o = ORet /\ fo = fT) \/
  (o = OBrk /\ fo = fB) \/ (o = OCnt /\ fo = fC) ->
  k fo = Some X -> good s X -> exists Y, ab5 k fN fR fT fB fC = Some Y /\ good s Y.
Proof.
  intros Hfo HX HI. unfold ab5.
  destruct Hfo as [[-> ->]|[[-> ->]|[[-> ->]|[[-> ->]|[-> ->]]]]].
  - destruct (oj_l (k fN) (k fR) X s HX HI) as [Y [E I]].
    destruct (oj_l _ (oj (k fT) (k fB)) Y s E I) as [Z [E2 I2]]. eapply oj_l; eauto.
  - destruct (oj_r (k fN) (k fR) X s HX HI) as [Y [E I]].
    destruct (oj_l _ (oj (k fT) (k fB)) Y s E I) as [Z [E2 I2]]. eapply oj_l; eauto.
  - destruct (oj_l (k fT) (k fB) X s HX HI) as [Y [E I]].
    destruct (oj_r (oj (k fN) (k fR)) _ Y s E I) as [Z [E2 I2]]. eapply oj_l; eauto.
  - destruct (oj_r (k fT) (k fB) X s HX HI) as [Y [E I]].
    destruct (oj_r (oj (k fN) (k fR)) _ Y s E I) as [Z [E2 I2]]. eapply oj_l; eauto.
  - eapply oj_r; eauto.
Qed.

Theorem an_sound : forall s σ o σ', exec s σ o σ' ->
  forall A r, an s A = Some r -> good σ A -> exists A', get r o = Some A' /\ good σ' A'.
Proof.
  induction 1; intros A r Han Hin; cbn [an] in Han.
  - inv Han; cbn; eauto.
  - inv Han; cbn; eauto.
  - inv Han; cbn; eauto.
  - inv Han; cbn; eauto.
  - inv Han; cbn; eauto.
  - inv Han; cbn; eauto.
  - (* OpenN *) destruct (mem h A) eqn:Hm; [discriminate|]. inv Han; cbn.
    eexists; split; eauto. apply good_open; auto.
  - (* OpenR *) destruct (mem h A) eqn:Hm; [discriminate|]. inv Han; cbn; eauto.
  - inv Han; cbn. eexists; split; eauto. eapply good_close; eauto.
  - inv Han; cbn. eexists; split; eauto. eapply good_close; eauto.
  - inv Han; cbn. eexists; split; eauto. eapply good_close; eauto.
  - inv Han; cbn. eexists; split; eauto. eapply good_close; eauto.
  - (* Rebind *) destruct (mem h A) eqn:Hm; [discriminate|]. inv Han; cbn.
    eexists; split; eauto. apply good_rebind; auto.
  - (* SeqN *)
    destruct (an a A) as [ra|] eqn:Ea; [|discriminate].
    destruct (IHexec1 _ _ Ea Hin) as [A1 [G1 I1]]. cbn in G1. rewrite G1 in Han.
    destruct (an b A1) as [rb|] eqn:Eb; [|discriminate]. inv Han.
    destruct (IHexec2 _ _ Eb I1) as [A2 [G2 I2]].
    destruct o; cbn in *; eauto using oj_r.
  - (* SeqX *)
    destruct (an a A) as [ra|] eqn:Ea; [|discriminate].
    destruct (IHexec _ _ Ea Hin) as [A1 [G1 I1]].
    destruct (rN ra) as [AN|] eqn:EN.
    + destruct (an b AN) as [rb|] eqn:Eb; [|discriminate]. inv Han.
      destruct o; cbn in *; try congruence; eauto using oj_l.
    + inv Han. eauto.
  - (* IfL *)
    destruct (an a A) as [ra|] eqn:Ea; [|discriminate]. destruct (an b A) as [rb|] eqn:Eb; [|discriminate]. inv Han.
    destruct (IHexec _ _ Ea Hin) as [A1 [G1 I1]]. destruct o; cbn in *; eauto using oj_l.
  - (* IfR *)
    destruct (an a A) as [ra|] eqn:Ea; [|discriminate]. destruct (an b A) as [rb|] eqn:Eb; [|discriminate]. inv Han.
    destruct (IHexec _ _ Eb Hin) as [A1 [G1 I1]]. destruct o; cbn in *; eauto using oj_r.
  - (* Loop0 *)
    destruct (an b A) as [rb|] eqn:Eb; [|discriminate].
    destruct (osubl (rN rb) A && osubl (rC rb) A) eqn:Ok; [|discriminate]. inv Han.
    cbn [get rN]. exact (oj_l (Some A) (rB rb) A s eq_refl Hin).
  - (* LoopN *)
    destruct (an b A) as [rb|] eqn:Eb; [|discriminate].
    destruct (osubl (rN rb) A && osubl (rC rb) A) eqn:Ok; [|discriminate].
    destruct (IHexec1 _ _ Eb Hin) as [A1 [G1 I1]]. cbn in G1.
    assert (Hin1 : good s1 A).
    { apply andb_true_iff in Ok as [Ok1 _]. rewrite G1 in Ok1. cbn in Ok1. eapply good_sub; eauto. }
    apply (IHexec2 A r); auto. cbn [an]. rewrite Eb, Ok. exact Han.
  - (* LoopC *)
    destruct (an b A) as [rb|] eqn:Eb; [|discriminate].
    destruct (osubl (rN rb) A && osubl (rC rb) A) eqn:Ok; [|discriminate].
    destruct (IHexec1 _ _ Eb Hin) as [A1 [G1 I1]]. cbn in G1.
    assert (Hin1 : good s1 A).
    { apply andb_true_iff in Ok as [_ Ok2]. rewrite G1 in Ok2. cbn in Ok2. eapply good_sub; eauto. }
    apply (IHexec2 A r); auto. cbn [an]. rewrite Eb, Ok. exact Han.
  - (* LoopB *)
    destruct (an b A) as [rb|] eqn:Eb; [|discriminate].
    destruct (osubl (rN rb) A && osubl (rC rb) A) eqn:Ok; [|discriminate]. inv Han.
    destruct (IHexec _ _ Eb Hin) as [A1 [G1 I1]]. cbn [get rN rB] in *. exact (oj_r (Some A) (rB rb) A1 s1 G1 I1).
  - (* LoopX *)
    destruct (an b A) as [rb|] eqn:Eb; [|discriminate].
    destruct (osubl (rN rb) A && osubl (rC rb) A) eqn:Ok; [|discriminate]. inv Han.
    destruct (IHexec _ _ Eb Hin) as [A1 [G1 I1]]. destruct H0; subst; cbn in *; eauto.
  - (* FinN *)
    destruct (an b A) as [rb|] eqn:Eb; [|discriminate].
    destruct (IHexec1 _ _ Eb Hin) as [A1 [G1 I1]].
    destruct (afin (an f) (rN rb)) as [fN|] eqn:EN; [|discriminate].
    destruct (afin (an f) (rR rb)) as [fR|] eqn:ER; [|discriminate].
    destruct (afin (an f) (rT rb)) as [fT|] eqn:ET; [|discriminate].
    destruct (afin (an f) (rB rb)) as [fB|] eqn:EB; [|discriminate].
    destruct (afin (an f) (rC rb)) as [fC|] eqn:EC; [|discriminate]. inv Han.
    destruct o; cbn [get] in G1; cbn [get rN rR rT rB rC].
    + rewrite G1 in EN; cbn [afin] in EN. destruct (IHexec2 _ _ EN I1) as [A2 [G2 I2]]. eauto.
    + rewrite G1 in ER; cbn [afin] in ER. destruct (IHexec2 _ _ ER I1) as [A2 [G2 I2]]. cbn [get] in G2. eauto using oj_l.
    + rewrite G1 in ET; cbn [afin] in ET. destruct (IHexec2 _ _ ET I1) as [A2 [G2 I2]]. cbn [get] in G2. eauto using oj_l.
    + rewrite G1 in EB; cbn [afin] in EB. destruct (IHexec2 _ _ EB I1) as [A2 [G2 I2]]. cbn [get] in G2. eauto using oj_l.
    + rewrite G1 in EC; cbn [afin] in EC. destruct (IHexec2 _ _ EC I1) as [A2 [G2 I2]]. cbn [get] in G2. eauto using oj_l.
  - (* FinX *)
    destruct (an b A) as [rb|] eqn:Eb; [|discriminate].
    destruct (IHexec1 _ _ Eb Hin) as [A1 [G1 I1]].
    destruct (afin (an f) (rN rb)) as [fN|] eqn:EN; [|discriminate].
    destruct (afin (an f) (rR rb)) as [fR|] eqn:ER; [|discriminate].
    destruct (afin (an f) (rT rb)) as [fT|] eqn:ET; [|discriminate].
    destruct (afin (an f) (rB rb)) as [fB|] eqn:EB; [|discriminate].
    destruct (afin (an f) (rC rb)) as [fC|] eqn:EC; [|discriminate]. inv Han.
    assert (Hf : exists fo, an f A1 = Some fo /\
       ((o = ONorm /\ fo = fN) \/ (o = ORaise /\ fo = fR) \/ (o = ORet /\ fo = fT) \/
        (o = OBrk /\ fo = fB) \/ (o = OCnt /\ fo = fC))).
    { destruct o; cbn [get] in G1.
      - rewrite G1 in EN; cbn [afin] in EN; eauto 10.
      - rewrite G1 in ER; cbn [afin] in ER; eauto 10.
      - rewrite G1 in ET; cbn [afin] in ET; eauto 10.
      - rewrite G1 in EB; cbn [afin] in EB; eauto 10.
      - rewrite G1 in EC; cbn [afin] in EC; eauto 10. }
    destruct Hf as [fo [Ef Hfo]].
    destruct (IHexec2 _ _ Ef I1) as [A2 [G2 I2]].
    destruct o2; try congruence; cbn [get rN rR rT rB rC] in *.
    + destruct (ab5_in rR fN fR fT fB fC o fo A2 s2 Hfo G2 I2) as [Y [E I]]. eapply oj_r; eauto.
    + destruct (ab5_in rT fN fR fT fB fC o fo A2 s2 Hfo G2 I2) as [Y [E I]]. eapply oj_r; eauto.
    + destruct (ab5_in rB fN fR fT fB fC o fo A2 s2 Hfo G2 I2) as [Y [E I]]. eapply oj_r; eauto.
    + destruct (ab5_in rC fN fR fT fB fC o fo A2 s2 Hfo G2 I2) as [Y [E I]]. eapply oj_r; eauto.
  - (* ExcP *)
    destruct (an b A) as [rb|] eqn:Eb; [|discriminate].
    destruct (IHexec _ _ Eb Hin) as [A1 [G1 I1]].
    destruct (rR rb) as [AR|] eqn:ER.
    + destruct (an h AR) as [rh|] eqn:Eh; [|discriminate]. inv Han. destruct o; cbn in *; eauto using oj_l.
    + inv Han. eauto.
  - (* ExcH *)
    destruct (an b A) as [rb|] eqn:Eb; [|discriminate].
    destruct (IHexec1 _ _ Eb Hin) as [A1 [G1 I1]]. cbn in G1. rewrite G1 in Han.
    destruct (an h A1) as [rh|] eqn:Eh; [|discriminate]. inv Han.
    destruct (IHexec2 _ _ Eh I1) as [A2 [G2 I2]]. destruct o; cbn in *; eauto using oj_r.
  - (* GuardRun *)
    destruct (an b A) as [rb|] eqn:Eb; [|discriminate]. inv Han.
    destruct (IHexec _ _ Eb Hin) as [A1 [G1 I1]]. destruct o; cbn in *; eauto using oj_l.
  - (* GuardSkip *)
    destruct (an b A) as [rb|] eqn:Eb; [|discriminate]. inv Han. cbn [get rj rN].
    eapply oj_r; eauto. eapply good_skip; eauto.
  - (* CallN *)
    destruct (an b A) as [rb|] eqn:Eb; [|discriminate]. inv Han.
    destruct (IHexec _ _ Eb Hin) as [A1 [G1 I1]]. cbn [get rN].
    destruct o; try congruence; cbn [get] in G1.
    + destruct (oj_l (rN rb) (rT rb) A1 s1 G1 I1) as [Y [E I]]. eapply oj_l; eauto.
    + destruct (oj_r (rN rb) (rT rb) A1 s1 G1 I1) as [Y [E I]]. eapply oj_l; eauto.
    + destruct (oj_l (rB rb) (rC rb) A1 s1 G1 I1) as [Y [E I]]. eapply oj_r; eauto.
    + destruct (oj_r (rB rb) (rC rb) A1 s1 G1 I1) as [Y [E I]]. eapply oj_r; eauto.
  - (* CallR *)
    destruct (an b A) as [rb|] eqn:Eb; [|discriminate]. inv Han.
    destruct (IHexec _ _ Eb Hin) as [A1 [G1 I1]]. cbn in *. eauto.
Qed.

Lemma osubl_good x A' B σ : x = Some A' -> osubl x B = true -> good σ A' ->
  incl (owned σ) B /\ lost σ = n0.
Proof.
  intros -> H [Hi [_ Hl]]. cbn in H. split; auto. eapply incl_tran; eauto. apply subl_incl; auto.
Qed.
End Sound.

(* General form: whatever raises and wherever, the handles lasio owns and has open when s
   is left are among those described at entry (A) — plus, at a `return`, the handles handed
   to the caller (rets) — and no open file was lost by overwriting its variable. *)
Theorem leak_free_from_sound A rets s : leak_free_from A rets s = true ->
  forall σ o σ', incl (owned σ) A -> NoDup (owned σ) -> exec s σ o σ' ->
    incl (owned σ') (match o with ORet => A ++ rets | _ => A end) /\ lost σ' = lost σ
    /\ o <> OBrk /\ o <> OCnt.
Proof.
  unfold leak_free_from. destruct (an s A) as [r|] eqn:E; [|discriminate].
  intros H σ o σ' Hi Hn X.
  destruct (an_sound (lost σ) _ _ _ _ X _ _ E (conj Hi (conj Hn eq_refl))) as [A' [G I]].
  apply andb_true_iff in H as [H HB]. apply andb_true_iff in H as [H HT].
  apply andb_true_iff in H as [HN HR].
  destruct o; cbn [get] in G.
  - destruct (osubl_good _ _ _ _ _ G HN I). repeat split; auto; discriminate.
  - destruct (osubl_good _ _ _ _ _ G HR I). repeat split; auto; discriminate.
  - destruct (osubl_good _ _ _ _ _ G HT I). repeat split; auto; discriminate.
  - rewrite G in HB. discriminate.
  - rewrite G in HB. destruct (rB r); discriminate.
Qed.

(* The property's form: a call that starts owning nothing ends owning nothing open and has
   lost no open file — for every program, every outcome and every sequence of faults. *)
Corollary leak_free_sound s : leak_free s = true ->
  forall tc n o σ', exec s ([], tc, n) o σ' -> owned σ' = [] /\ lost σ' = n.
Proof.
  intros H tc n o σ' X.
  destruct (leak_free_from_sound [] [] s H ([], tc, n) o σ' (incl_refl _) (NoDup_nil _) X) as [I [Hl _]].
  split; [|exact Hl].
  destruct (owned σ') as [|x xs]; [reflexivity|]. exfalso.
  assert (Hx : In x (match o with ORet => [] ++ [] | _ => [] end)) by (apply I; left; reflexivity).
  destruct o; exact Hx.
Qed.

(* helpers that return the file they opened: on a raise nothing is left open, on return
   only the returned handle(s) can be *)
Corollary leak_free_ret_sound rets s : leak_free_ret rets s = true ->
  forall tc n o σ', exec s ([], tc, n) o σ' ->
    match o with ORet => incl (owned σ') rets | _ => owned σ' = [] end /\ lost σ' = n.
Proof.
  intros H tc n o σ' X.
  destruct (leak_free_from_sound [] rets s H ([], tc, n) o σ' (incl_refl _) (NoDup_nil _) X) as [I [Hl _]].
  split; [|exact Hl].
  destruct o; try exact I;
    (destruct (owned σ') as [|x xs]; [reflexivity|]; exfalso; apply (I x); left; reflexivity).
Qed.

(* no close() on an object the caller may have supplied *)
Theorem caller_handles_untouched_sound : forall s σ o σ', exec s σ o σ' ->
  caller_handles_untouched s = true -> touched σ' = touched σ.
Proof.
  induction 1; cbn [caller_handles_untouched]; intros Hc; try reflexivity; try discriminate;
    try (apply andb_true_iff in Hc as [Hc1 Hc2]); auto; try congruence.
  all: rewrite IHexec2, IHexec1; auto.
Qed.
