(* Proofs.FuncsPinNum — Model/Num.num IS SectionParser.num (Gen/Funcs.v, re-translated from /repo on
   every run).  The external calls np.int64(x), np.float64(x), np.isfinite(x) are operations of the
   record num_ops (Gen/Funcs.v); num_hval_ops reads them the way the model does:
     np.int64(text)   succeeds iff text is an int literal (PEP 515 underscores allowed) within int64
     np.float64(text) succeeds iff text is a decimal float literal or one of inf / infinity / nan
     np.isfinite(f)   iff the literal is decimal and does not overflow to infinity
   (that these readings are CPython's is the oracle assumption of C08, exercised per case by the
   correspondence run).  Restated as C08_num_current. *)
From Coq Require Import List Arith NArith ZArith Bool Lia String.
Import ListNotations.
Require Import PyStr Regex Regexes NumLit Funcs Num FuncsPinStandardize.
Open Scope list_scope.
Open Scope N_scope.

Definition num_hval_ops : num_ops hval (list N) :=
  mk_num_ops hval (list N)
    (fun x => match py_int_lit x with
              | Some z => if in_int64 z then Some (VInt z) else None      (* OverflowError *)
              | None => None                                              (* ValueError *)
              end)
    (fun x => if is_some (py_float_dec x) || py_float_word x then Some x else None)
    (fun x => match py_float_dec x with Some d => negb (dec_overflows d) | None => false end)
    VFloat.

(* default=None: the only way the reader calls it *)
Theorem num_pin : forall fstr fzero s,
  num s = py_num (hval_ops fstr fzero) num_hval_ops s None.
Proof.
  intros fstr fzero s. unfold num, py_num, comma_sub, float_path, has_numeric_literal_guard, is_some, pyo_is_some.
  cbv zeta. cbn [hval_ops num_hval_ops dyn_of_str np_int64 np_float64 np_isfinite num_of_float].
  set (x := re_sub rx_sub_comma tpl_sub_comma s).
  destruct (true && negb match re_fullmatch rx_numeric_literal x with Some _ => true | None => false end); [reflexivity|].
  assert (Hf : match py_float_dec x with
               | Some d => if dec_overflows d then VStr s else VFloat x
               | None => VStr s
               end
               = match (if match py_float_dec x with Some _ => true | None => false end || py_float_word x
                        then Some x else None) with
                 | Some t => if match py_float_dec t with Some d => negb (dec_overflows d) | None => false end
                             then VFloat t else VStr s
                 | None => VStr s
                 end).
  { destruct (py_float_dec x) as [d|] eqn:E; cbn [orb].
    - rewrite E. destruct (dec_overflows d); reflexivity.
    - destruct (py_float_word x); [rewrite E|]; reflexivity. }
  destruct (py_int_lit x) as [z|]; [destruct (in_int64 z); [reflexivity|]|]; exact Hf.
Qed.

(* an explicit default is what comes back when the text is not a number *)
Lemma num_default_used : forall fstr fzero s d,
  re_fullmatch rx_numeric_literal (re_sub rx_sub_comma tpl_sub_comma s) = None ->
  py_num (hval_ops fstr fzero) num_hval_ops s (Some d) = VStr d.
Proof.
  intros fstr fzero s d H. unfold py_num, pyo_is_some. cbv zeta. rewrite H. reflexivity.
Qed.
