(* Proofs.BlocksCongr — `read` as a function of the blocks of the text (title line + body
   lines, Proofs/SectionsProofs.v): what each consumer is handed is the block's own title,
   body and (for ~Other) the stripped body lines -- so two texts whose blocks correspond and
   are pairwise indistinguishable for their consumers read equal, wherever the blocks lie in
   the file (line numbers shift when lines are inserted). *)
From Coq Require Import List Arith NArith Bool Lia String.
Import ListNotations.
Require Import PyStr Regex Regexes NumLit Num HeaderLine Tables SectionParse Sections DataRead Read.
Require Import RegexSubFacts StripFacts SectionsProofs JunkProofs ReadInvProofs ReadCongr.
Open Scope string_scope.
Open Scope list_scope.
Open Scope N_scope.

(* ---- the ~Other loop on a block -------------------------------------------------------- *)
Definition notitles (ls : list (list N)) : Prop := forallb (fun l => negb (is_title l)) ls = true.

Lemma other_loop_body : forall body rest n last acc, notitles body ->
  (n + List.length body < last)%nat ->
  other_loop (body ++ rest) n last acc = other_loop rest (n + List.length body) last (rev (map strip body) ++ acc).
Proof.
  induction body as [|x body IH]; intros rest n last acc Hn Hlt.
  - cbn [app List.length map rev]. rewrite Nat.add_0_r. reflexivity.
  - unfold notitles in Hn. cbn [forallb] in Hn. apply andb_true_iff in Hn as [Hx Hb].
    apply negb_true_iff in Hx. unfold is_title in Hx.
    cbn [app other_loop]. rewrite Hx. cbn [List.length] in Hlt.
    destruct (Nat.eqb_spec (S n) last) as [E|_]; [lia|].
    rewrite IH by (try exact Hb; lia). cbn [List.length map rev]. rewrite <- app_assoc. cbn [app].
    f_equal. lia.
Qed.

Lemma other_loop_body_stop : forall body rest n acc, notitles body -> body <> [] ->
  other_loop (body ++ rest) n (n + List.length body) acc = rev acc ++ map strip body.
Proof.
  induction body as [|x body IH]; intros rest n acc Hn Hne; [congruence|].
  unfold notitles in Hn. cbn [forallb] in Hn. apply andb_true_iff in Hn as [Hx Hb].
  apply negb_true_iff in Hx. unfold is_title in Hx.
  cbn [app other_loop]. rewrite Hx. cbn [List.length map].
  destruct body as [|y body].
  - cbn [List.length]. replace (n + 1)%nat with (S n) by lia. rewrite Nat.eqb_refl. reflexivity.
  - destruct (Nat.eqb_spec (S n) (n + S (List.length (y :: body)))) as [E|_]; [cbn [List.length] in E; lia|].
    replace (n + S (List.length (y :: body)))%nat with (S n + List.length (y :: body))%nat by lia.
    rewrite IH by (try exact Hb; discriminate). cbn [rev]. rewrite <- app_assoc. reflexivity.
Qed.

(* the text stored for a block: its stripped body lines *)
Definition other_of_block (b : block) : list N := join [ch_nl] (map strip (snd b)).

(* an inner block: last = first + |body| *)
Lemma other_text_inner pre b rest : wf_block b ->
  other_text (pre ++ render_block b ++ rest)
             (mkspos (List.length pre) (List.length pre + List.length (snd b)) (strip (fst b)))
  = other_of_block b.
Proof.
  intros (Ht & Hb). unfold other_text, other_of_block. cbn [sp_first sp_last]. f_equal.
  rewrite skipn_app, skipn_all, Nat.sub_diag. cbn [skipn app]. unfold render_block. cbn [app other_loop].
  unfold is_title in Ht. rewrite Ht. destruct (snd b) as [|x body] eqn:E.
  - cbn [List.length]. rewrite Nat.add_0_r, Nat.eqb_refl. reflexivity.
  - destruct (Nat.eqb_spec (List.length pre) (List.length pre + List.length (x :: body))) as [F|_];
      [cbn [List.length] in F; lia|].
    rewrite other_loop_body_stop; [reflexivity|exact Hb|discriminate].
Qed.

(* the last block: last = number of lines *)
Lemma other_text_last pre b : wf_block b ->
  other_text (pre ++ render_block b)
             (mkspos (List.length pre) (List.length pre + List.length (render_block b)) (strip (fst b)))
  = other_of_block b.
Proof.
  intros (Ht & Hb). unfold other_text, other_of_block. cbn [sp_first sp_last]. f_equal.
  rewrite skipn_app, skipn_all, Nat.sub_diag. cbn [skipn app]. unfold render_block. cbn [other_loop List.length].
  unfold is_title in Ht. rewrite Ht.
  destruct (Nat.eqb_spec (List.length pre) (List.length pre + S (List.length (snd b)))) as [F|_]; [lia|].
  rewrite <- (app_nil_r (snd b)) at 1. rewrite other_loop_body by (try exact Hb; lia).
  cbn [other_loop]. rewrite app_nil_r. apply rev_involutive.
Qed.

Lemma others_blocks : forall bs pre, Forall wf_block bs ->
  map (other_text (pre ++ render bs))
      (positions bs (List.length pre) (List.length pre + List.length (render bs)))
  = map other_of_block bs.
Proof.
  induction bs as [|b bs IH]; intros pre H; [reflexivity|].
  inversion H as [|? ? Hb Hrest]; subst.
  destruct bs as [|b2 bs].
  - cbn [positions map]. f_equal. cbn [render flat_map]. rewrite app_nil_r. apply other_text_last. exact Hb.
  - remember (b2 :: bs) as rest eqn:Er.
    assert (Hpos : positions (b :: rest) (List.length pre) (List.length pre + List.length (render (b :: rest)))
                   = mkspos (List.length pre) (List.length pre + List.length (snd b)) (strip (fst b))
                     :: positions rest (List.length pre + S (List.length (snd b)))
                                  (List.length pre + List.length (render (b :: rest)))).
    { subst rest. reflexivity. }
    rewrite Hpos. cbn [map]. f_equal.
    + cbn [render flat_map]. change (flat_map render_block rest) with (render rest).
      apply other_text_inner. exact Hb.
    + specialize (IH (pre ++ render_block b) Hrest).
      assert (Hl : List.length (pre ++ render_block b) = (List.length pre + S (List.length (snd b)))%nat).
      { rewrite app_length. reflexivity. }
      rewrite Hl in IH.
      replace (pre ++ render (b :: rest)) with ((pre ++ render_block b) ++ render rest)
        by (cbn [render flat_map]; rewrite <- app_assoc; reflexivity).
      replace (List.length pre + List.length (render (b :: rest)))%nat
        with (List.length pre + S (List.length (snd b)) + List.length (render rest))%nat
        by (rewrite render_length_cons; lia).
      exact IH.
Qed.

Theorem others_exact pre bs : notitles pre -> Forall wf_block bs ->
  map (other_text (pre ++ render bs)) (find_sections (pre ++ render bs)) = map other_of_block bs.
Proof. intros Hpre Hbs. rewrite (find_sections_blocks _ _ Hpre Hbs). apply others_blocks. exact Hbs. Qed.

(* ---- what the consumers see of a section ------------------------------------------------ *)
Definition sview := (list N * list (list N) * list N)%type.
Definition view (ls : list (list N)) (p : spos) : sview := (sp_title p, body_lines ls p, other_text ls p).
Definition block_view (b : block) : sview := (strip (fst b), snd b, other_of_block b).

Lemma map_triple {A B X Y Z} (f1 : A -> X) (f2 : A -> Y) (f3 : A -> Z) (g1 : B -> X) (g2 : B -> Y) (g3 : B -> Z) :
  forall l m, map f1 l = map g1 m -> map f2 l = map g2 m -> map f3 l = map g3 m ->
  map (fun a => (f1 a, f2 a, f3 a)) l = map (fun b => (g1 b, g2 b, g3 b)) m.
Proof.
  induction l as [|a l IH]; intros [|b m] H1 H2 H3; try discriminate; [reflexivity|].
  cbn [map] in *. injection H1 as E1 H1. injection H2 as E2 H2. injection H3 as E3 H3.
  rewrite E1, E2, E3, (IH m H1 H2 H3). reflexivity.
Qed.

Theorem views_exact pre bs : notitles pre -> Forall wf_block bs ->
  map (view (pre ++ render bs)) (find_sections (pre ++ render bs)) = map block_view bs.
Proof.
  intros Hpre Hbs. unfold view, block_view. apply map_triple.
  - apply titles_exact; assumption.
  - apply bodies_exact; assumption.
  - apply others_exact; assumption.
Qed.

Section WithOracles.
Variable fhex : list N -> option (list N).
Variable fstr : list N -> list N.
Variable numeq : list N -> list N -> bool.

(* two section views the reader cannot tell apart *)
Definition view_equiv (x y : sview) : Prop :=
  match x, y with
  | (t, b, ot), (t', b', ot') =>
      t = t' /\
      match section_type t with
      | THeader => forall v c ig, parse_section v t c ig [ch_hash] b = parse_section v t c ig [ch_hash] b'
      | TOther => ot = ot'
      | _ => data_equiv b b'
      end
  end.

Lemma sec_equiv_view ls ls' p p' :
  sec_equiv ls ls' p p' <-> view_equiv (view ls p) (view ls' p').
Proof. unfold sec_equiv, view_equiv, view, dsec_equiv. reflexivity. Qed.

Lemma Forall2_map_iff {A B X Y} (R : X -> Y -> Prop) (f : A -> X) (g : B -> Y) : forall l m,
  Forall2 (fun a b => R (f a) (g b)) l m <-> Forall2 R (map f l) (map g m).
Proof.
  induction l as [|a l IH]; intros [|b m]; split; intros H; cbn [map] in *; try constructor; try solve [inversion H].
  - inversion H; assumption.
  - inversion H; subst. apply IH. assumption.
  - inversion H; assumption.
  - inversion H; subst. apply IH. assumption.
Qed.

Definition block_equiv (b b' : block) : Prop := view_equiv (block_view b) (block_view b').

(* the whole read depends on the blocks only through what their consumers see *)
Theorem read_blocks_congr o t t' pre bs pre' bs' :
  lines_keep t = pre ++ render bs -> lines_keep t' = pre' ++ render bs' ->
  notitles pre -> notitles pre' -> Forall wf_block bs -> Forall wf_block bs' ->
  Forall2 block_equiv bs bs' ->
  read fhex fstr numeq o t = read fhex fstr numeq o t'.
Proof.
  intros E E' Hp Hp' Hb Hb' H. apply read_congr. rewrite E, E'.
  change (Forall2 (fun a b => view_equiv (view (pre ++ render bs) a) (view (pre' ++ render bs') b))
                  (find_sections (pre ++ render bs)) (find_sections (pre' ++ render bs'))).
  apply (Forall2_map_iff view_equiv). rewrite !views_exact by assumption.
  apply (Forall2_map_iff view_equiv block_view block_view). exact H.
Qed.

(* ---- instances -------------------------------------------------------------------------- *)
Lemma is_skip_not_title x : is_skip x = true -> is_title x = false.
Proof.
  intros H. apply is_skip_cases in H. unfold is_title. destruct H as [H|H].
  - rewrite H. reflexivity.
  - destruct (strip x) as [|ch r]; [reflexivity|]. cbn [startswith] in *.
    rewrite andb_true_r in *. apply N.eqb_eq in H. subst ch. reflexivity.
Qed.

Lemma is_skip_classify v k c x : is_skip x = true -> classify v k c [ch_hash] x = LSkip.
Proof.
  intros H. apply is_skip_cases in H as [H|H].
  - apply classify_blank. exact H.
  - destruct (strip x) as [|ch r] eqn:E; [discriminate|]. apply (classify_comment v k c [ch_hash] x ch r E).
    cbn [startswith] in H. rewrite andb_true_r in H. apply N.eqb_eq in H. subst ch. reflexivity.
Qed.

Lemma notitles_ins (P : list N -> Prop) body body' : (forall x, P x -> is_title x = false) ->
  ins_lines P body body' -> notitles body -> notitles body'.
Proof.
  intros HP. unfold notitles. induction 1 as [|j l l' Hj H IH|x l l' H IH]; intros Hn; [reflexivity| |].
  - cbn [forallb]. rewrite (HP j Hj). apply IH. exact Hn.
  - cbn [forallb] in *. apply andb_true_iff in Hn as [Hx Hl]. rewrite Hx. apply IH. exact Hl.
Qed.

(* one block with blank / comment lines inserted anywhere in its body (not for ~Other, whose
   blank lines are content) *)
Definition skip_ins_block (b b' : block) : Prop :=
  fst b = fst b' /\
  match section_type (strip (fst b)) with
  | TOther => snd b = snd b'
  | _ => ins_lines (fun x => is_skip x = true) (snd b) (snd b')
  end.

Lemma skip_ins_block_wf b b' : skip_ins_block b b' -> wf_block b -> wf_block b'.
Proof.
  intros (Et & Hb) (Ht & Hn). split; [rewrite <- Et; exact Ht|].
  assert (X : ins_lines (fun x => is_skip x = true) (snd b) (snd b') -> notitles (snd b')).
  { intros J. apply (notitles_ins _ _ _ is_skip_not_title J Hn). }
  destruct (section_type (strip (fst b))); try (apply X; exact Hb). rewrite <- Hb. exact Hn.
Qed.

Lemma skip_ins_block_equiv b b' : skip_ins_block b b' -> block_equiv b' b.
Proof.
  intros (Et & Hb). unfold block_equiv, view_equiv, block_view. rewrite <- Et. split; [reflexivity|].
  unfold other_of_block.
  destruct (section_type (strip (fst b))).
  - apply data_equiv_ins_skipped. exact Hb.
  - rewrite Hb. reflexivity.
  - apply data_equiv_ins_skipped. exact Hb.
  - intros v c ig. unfold parse_section. apply parse_body_ins_skipped.
    eapply ins_lines_mono; [|exact Hb]. intros x Hx. apply is_skip_classify. exact Hx.
Qed.

(* blank and '#' comment lines, any number, at any sites of header and data sections (and
   anything that is not a title before the first section): the read result is the same *)
Theorem read_ins_skipped o t t' pre pre' bs bs' :
  lines_keep t = pre ++ render bs -> lines_keep t' = pre' ++ render bs' ->
  notitles pre -> notitles pre' -> Forall wf_block bs ->
  Forall2 skip_ins_block bs bs' ->
  read fhex fstr numeq o t' = read fhex fstr numeq o t.
Proof.
  intros E E' Hp Hp' Hb H.
  apply (read_blocks_congr o t' t pre' bs' pre bs E' E Hp' Hp); [|exact Hb|].
  - clear E E'. induction H as [|b b' l l' Hbb H IH]; [constructor|]. inversion Hb; subst.
    constructor; [eapply skip_ins_block_wf; eassumption|apply IH; assumption].
  - clear E E' Hb. induction H as [|b b' l l' Hbb H IH]; constructor; [apply skip_ins_block_equiv; exact Hbb|exact IH].
Qed.

(* lines of corresponding blocks differ by white space at their ends only *)
Definition streq_block (b b' : block) : Prop := streq (fst b) (fst b') /\ Forall2 streq (snd b) (snd b').

Lemma streq_block_equiv b b' : streq_block b b' -> block_equiv b b'.
Proof.
  intros (Et & Hb). unfold block_equiv, view_equiv, block_view. unfold streq in Et. rewrite <- Et.
  split; [reflexivity|]. unfold other_of_block. destruct (section_type (strip (fst b))).
  - apply data_equiv_streq. exact Hb.
  - f_equal. clear Et. induction Hb as [|x y l l' Hxy H IH]; [reflexivity|]. cbn [map]. rewrite Hxy, IH. reflexivity.
  - apply data_equiv_streq. exact Hb.
  - intros v c ig. apply parse_section_streq. exact Hb.
Qed.

(* ---- the transformation family and its compositions ------------------------------------- *)
(* one presentation-only change of a text:
   - white space at line ends / line terminators (any lines, anywhere: padding, CRLF <-> LF,
     final newline);
   - blank and '#' lines inserted at any sites of header and data blocks;
   - generally: corresponding blocks that their consumers cannot tell apart. *)
Inductive pres_step : list N -> list N -> Prop :=
| ps_ws t t' : Forall2 streq (lines_keep t) (lines_keep t') -> pres_step t t'
| ps_skip t t' pre pre' bs bs' :
    lines_keep t = pre ++ render bs -> lines_keep t' = pre' ++ render bs' ->
    notitles pre -> notitles pre' -> Forall wf_block bs -> Forall2 skip_ins_block bs bs' ->
    pres_step t t'
| ps_blocks t t' pre pre' bs bs' :
    lines_keep t = pre ++ render bs -> lines_keep t' = pre' ++ render bs' ->
    notitles pre -> notitles pre' -> Forall wf_block bs -> Forall wf_block bs' ->
    Forall2 block_equiv bs bs' -> pres_step t t'.

Theorem pres_step_read o t t' : pres_step t t' ->
  read fhex fstr numeq o t = read fhex fstr numeq o t'.
Proof.
  intros [t1 t2 H|t1 t2 pre pre' bs bs' E E' Hp Hp' Hb H|t1 t2 pre pre' bs bs' E E' Hp Hp' Hb Hb' H].
  - apply read_streq. exact H.
  - symmetry. apply (read_ins_skipped o t1 t2 pre pre' bs bs'); assumption.
  - apply (read_blocks_congr o t1 t2 pre bs pre' bs'); assumption.
Qed.

(* any finite composition, each change applied in either direction *)
Theorem pres_chain_read o t t' : chain _ pres_step t t' ->
  read fhex fstr numeq o t = read fhex fstr numeq o t'.
Proof. apply chain_inv. intros x y H. apply pres_step_read. exact H. Qed.

Theorem pres_path_read o t mids t' : path _ pres_step t mids t' ->
  read fhex fstr numeq o t = read fhex fstr numeq o t'.
Proof. apply path_inv. intros x y H. apply pres_step_read. exact H. Qed.

End WithOracles.
