(* Facts about SectionParse.strip_brackets (nested bracket pairs are stripped to the fixed point). *)
From Coq Require Import List Arith NArith ZArith Bool Lia ZifyBool ZifyN ZifyNat String.
Import ListNotations.
Require Import PyStr StripFacts SectionParse.
Open Scope string_scope.
Open Scope N_scope.

Definition bracketed (y : list N) : bool :=
  match y with
  | a :: _ :: _ => let z := last y 0 in ((a =? 91) && (z =? 93)) || ((a =? 40) && (z =? 41))
  | _ => false
  end.

Lemma lstrip_by_len' f : forall s : list N, (List.length (lstrip_by f s) <= List.length s)%nat.
Proof. induction s as [|c s IH]; cbn [lstrip_by List.length]; [lia|]. destruct (f c); cbn [List.length]; lia. Qed.

Lemma strip_len x : (List.length (strip x) <= List.length x)%nat.
Proof.
  unfold strip, strip_by, rstrip_by.
  rewrite rev_length. etransitivity; [apply lstrip_by_len'|]. rewrite rev_length. apply lstrip_by_len'.
Qed.

Lemma removelast_len {A} (l : list A) : List.length (removelast l) = (List.length l - 1)%nat.
Proof.
  induction l as [|a l IH]; [reflexivity|]. destruct l as [|b l]; [reflexivity|].
  change (removelast (a :: b :: l)) with (a :: removelast (b :: l)). cbn [List.length] in *. lia.
Qed.

Lemma bracketed_test y a b r : y = a :: b :: r ->
  bracketed y = (let z := last y 0 in ((a =? 91) && (z =? 93)) || ((a =? 40) && (z =? 41))).
Proof. intros ->. reflexivity. Qed.

Lemma sbf_result : forall n x, (List.length x < n)%nat ->
  strip (strip_brackets_fuel n x) = strip_brackets_fuel n x /\ bracketed (strip_brackets_fuel n x) = false.
Proof.
  induction n as [|n IH]; intros x Hn; [lia|].
  cbn [strip_brackets_fuel].
  pose proof (strip_len x) as Hl. pose proof (strip_idem x) as Hi.
  destruct (strip x) as [|a [|b r]] eqn:E.
  - split; reflexivity.
  - split; [exact Hi|reflexivity].
  - destruct (((a =? 91) && (last (a :: b :: r) 0 =? 93)) || ((a =? 40) && (last (a :: b :: r) 0 =? 41))) eqn:Eb.
    + apply IH. rewrite removelast_len. cbn [tl List.length] in *. lia.
    + split; [exact Hi|]. cbn [bracketed]. exact Eb.
Qed.

Lemma sbf_fixed : forall n r, strip r = r -> bracketed r = false -> strip_brackets_fuel (S n) r = r.
Proof.
  intros n r Hs Hb. cbn [strip_brackets_fuel]. rewrite Hs.
  destruct r as [|a [|b r]]; [reflexivity|reflexivity|].
  cbn [bracketed] in Hb. rewrite Hb. reflexivity.
Qed.

Theorem strip_brackets_idem x : strip_brackets (strip_brackets x) = strip_brackets x.
Proof.
  unfold strip_brackets at 1.
  destruct (sbf_result (S (List.length x)) x (Nat.lt_succ_diag_r _)) as [Hs Hb].
  apply sbf_fixed; assumption.
Qed.

(* more fuel changes nothing *)
Lemma sbf_more : forall n m x, (List.length x < n)%nat -> (n <= m)%nat -> strip_brackets_fuel m x = strip_brackets_fuel n x.
Proof.
  induction n as [|n IH]; intros m x Hn Hm; [lia|].
  destruct m as [|m]; [lia|]. cbn [strip_brackets_fuel].
  pose proof (strip_len x) as Hl.
  destruct (strip x) as [|a [|b r]] eqn:E; [reflexivity|reflexivity|].
  destruct (((a =? 91) && (last (a :: b :: r) 0 =? 93)) || ((a =? 40) && (last (a :: b :: r) 0 =? 41))); [|reflexivity].
  apply IH; [|lia]. rewrite removelast_len. cbn [tl List.length] in *. lia.
Qed.

(* one unfolding, as the Python reads *)
Theorem strip_brackets_unfold x :
  strip_brackets x =
  let y := strip x in
  match y with
  | a :: _ :: _ =>
      let z := last y 0 in
      if ((a =? 91) && (z =? 93)) || ((a =? 40) && (z =? 41)) then strip_brackets (removelast (tl y)) else y
  | _ => y
  end.
Proof.
  unfold strip_brackets at 1. cbn [strip_brackets_fuel]. cbv zeta.
  pose proof (strip_len x) as Hl.
  destruct (strip x) as [|a [|b r]] eqn:E; [reflexivity|reflexivity|].
  destruct (((a =? 91) && (last (a :: b :: r) 0 =? 93)) || ((a =? 40) && (last (a :: b :: r) 0 =? 41))); [|reflexivity].
  unfold strip_brackets. apply sbf_more; [|]; rewrite removelast_len; cbn [tl List.length] in *; lia.
Qed.

Example sb_ex : strip_brackets (s2l " (([a])) ") = s2l "a" /\ strip_brackets (s2l "(a)(b)") = s2l "a)(b" /\ strip_brackets (s2l "()") = [] /\ strip_brackets (s2l "M") = s2l "M".
Proof. vm_compute. repeat split. Qed.
