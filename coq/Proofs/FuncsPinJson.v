(* Proofs.FuncsPinJson — Model/Export.json_of_value / json_of_sample ARE las._json_value (Gen/Funcs.v,
   re-translated from /repo on every run) followed by json's own dispatch.
   export_jops reads the isinstance tests, np.isfinite, int(x), float(x) of _json_value on the
   model's values: np.float64 is a float (HFloat), numpy integers are HNpInt, int(np integer) is
   the Python int of the same value, float(x) of a float is that float.
   json_native is what json.dumps does with the result on its own (Model/Export.json_of_value_pinned:
   str / int / None natively, a finite float as a number, a non-finite float as the token NaN /
   Infinity / -Infinity, anything else through JSONEncoder.default to null).
   Restated as C18_json_value_current. *)
From Coq Require Import List NArith ZArith Bool String.
Import ListNotations.
Require Import PyStr Tables Funcs Export.
Open Scope list_scope.
Open Scope N_scope.

Definition export_jops : json_ops hvalue :=
  mk_json_ops hvalue
    (fun v => match v with HNpInt _ => true | _ => false end)          (* isinstance(x, np.integer) *)
    (fun v => match v with HFloat _ => true | _ => false end)          (* isinstance(x, (float, np.floating)) *)
    (fun v => match v with HFloat (Fin _) => true | _ => false end)    (* np.isfinite(x), asked of floats only *)
    (fun v => match v with HNpInt z => HInt z | _ => v end)            (* int(x) *)
    (fun v => v)                                                       (* float(x) of a float *)
    HNone.

Definition json_native : hvalue -> jatom := json_of_value_pinned.
Definition value_of_sample (x : sample) : hvalue :=
  match x with SNum f => HFloat f | SText s => HStr s end.

Theorem json_value_pin : forall v, json_of_value v = json_native (py_json_value export_jops v).
Proof. intros [s|z|z|[id| | |]|]; reflexivity. Qed.

Theorem json_sample_pin : forall x, json_of_sample x = json_native (py_json_value export_jops (value_of_sample x)).
Proof. intros [[id| | |]|s]; reflexivity. Qed.
