(* Proofs.OrderTableProofs — the value/description order tables (Gen/Tables.v, re-translated
   from lasio/defaults.py ORDER_DEFINITIONS on every run) as the writer (Writer.order_of) and
   the reader (SectionParse.order_for) consult them: same table, same lookup, and the lookup
   is insensitive to the reader's mnemonic_case mapping.  (C12; used by C03.)

   The facts that depend on the CONTENT of the table are boolean checks evaluated by the
   kernel on the generated literal (table_complete, table_case_consistent,
   table_curves_param_plain): an edit of ORDER_DEFINITIONS that breaks one of them breaks the
   proof.  Everything else is proved for an arbitrary table. *)
From Coq Require Import List Arith NArith Bool Lia ZifyBool ZifyN ZifyNat.
Import ListNotations.
Require Import PyStr Regex NumLit Num HeaderLine Tables SectionParse Writer.
Open Scope list_scope.
Open Scope N_scope.

(* ---------- ASCII case maps ---------------------------------------------------------- *)
Lemma ascii_upper_idem c : ascii_upper (ascii_upper c) = ascii_upper c.
Proof.
  unfold ascii_upper.
  destruct ((97 <=? c) && (c <=? 122)) eqn:E; [|rewrite E; reflexivity].
  destruct ((97 <=? c - 32) && (c - 32 <=? 122)) eqn:E2; [lia|reflexivity].
Qed.

Lemma ascii_upper_lower c : ascii_upper (ascii_lower c) = ascii_upper c.
Proof.
  unfold ascii_upper, ascii_lower.
  destruct ((65 <=? c) && (c <=? 90)) eqn:E; [|reflexivity].
  destruct ((97 <=? c + 32) && (c + 32 <=? 122)) eqn:E2; [|lia].
  destruct ((97 <=? c) && (c <=? 122)) eqn:E3; lia.
Qed.

Lemma upper_idem m : upper (upper m) = upper m.
Proof. unfold upper. rewrite map_map. apply map_ext. intros c. apply ascii_upper_idem. Qed.

Lemma upper_lower m : upper (lower m) = upper m.
Proof. unfold upper, lower. rewrite map_map. apply map_ext. intros c. apply ascii_upper_lower. Qed.

Lemma upper_apply_case c m : upper (apply_case c m) = upper m.
Proof. destruct c; cbn [apply_case]; [reflexivity|apply upper_idem|apply upper_lower]. Qed.

(* ---------- str_eqb ------------------------------------------------------------------- *)
Lemma str_eqb_true_eq : forall a b : list N, str_eqb a b = true -> a = b.
Proof.
  induction a as [|x a IH]; destruct b as [|y b]; cbn [str_eqb]; try discriminate; [reflexivity|].
  intros H. apply andb_true_iff in H as [H1 H2]. apply N.eqb_eq in H1. subst y.
  f_equal. apply IH. exact H2.
Qed.

(* ---------- the lookup in one exception list ------------------------------------------ *)
Definition ex_list := list (item_order * list (list N)).

(* the mnemonics an exception list mentions *)
Definition listed (ex : ex_list) : list (list N) := flat_map snd ex.

Definition oorder_eqb (a b : option item_order) : bool :=
  match a, b with
  | Some x, Some y => item_order_eqb x y
  | None, None => true
  | _, _ => false
  end.
Lemma oorder_eqb_eq a b : oorder_eqb a b = true -> a = b.
Proof. destruct a as [[|]|], b as [[|]|]; cbn; intros H; try discriminate; reflexivity. Qed.

(* the order one table entry (default, exception list) gives to a mnemonic: exact, then
   upper-cased, then the default *)
Definition entry_order (dflt : item_order) (ex : ex_list) (m : list N) : item_order :=
  match order_from_exceptions m ex None with
  | Some o => o
  | None => match order_from_exceptions (upper m) ex None with Some o => o | None => dflt end
  end.

(* ... and the same lookup going through the upper-cased mnemonic only *)
Definition entry_order_upper (dflt : item_order) (ex : ex_list) (m : list N) : item_order :=
  match order_from_exceptions (upper m) ex None with Some o => o | None => dflt end.

(* an exception list is case-consistent when every mnemonic it mentions gets the same answer
   as its upper-cased form *)
Definition ex_case_consistent (ex : ex_list) : bool :=
  forallb (fun x => oorder_eqb (order_from_exceptions (upper x) ex None) (order_from_exceptions x ex None))
          (listed ex).

(* a mnemonic that is not mentioned keeps the accumulator *)
Lemma ofe_unlisted m : forall (ex : ex_list) acc,
  existsb (str_eqb m) (listed ex) = false -> order_from_exceptions m ex acc = acc.
Proof.
  induction ex as [|[o ms] ex IH]; intros acc H; cbn [order_from_exceptions]; [reflexivity|].
  unfold listed in H. cbn [flat_map snd] in H. rewrite existsb_app in H.
  apply orb_false_iff in H as [H1 H2]. rewrite H1. apply IH. exact H2.
Qed.

Lemma ofe_some_listed m (ex : ex_list) o :
  order_from_exceptions m ex None = Some o -> In m (listed ex).
Proof.
  intros H. destruct (existsb (str_eqb m) (listed ex)) eqn:E.
  - apply existsb_exists in E as [x [Hin Hx]]. apply str_eqb_true_eq in Hx. subst x. exact Hin.
  - rewrite (ofe_unlisted m ex None E) in H. discriminate.
Qed.

Lemma entry_order_via_upper dflt (ex : ex_list) m :
  ex_case_consistent ex = true -> entry_order dflt ex m = entry_order_upper dflt ex m.
Proof.
  intros Hc. unfold entry_order, entry_order_upper.
  destruct (order_from_exceptions m ex None) as [o|] eqn:E; [|reflexivity].
  pose proof (ofe_some_listed _ _ _ E) as Hin.
  unfold ex_case_consistent in Hc. rewrite forallb_forall in Hc.
  specialize (Hc m Hin). apply oorder_eqb_eq in Hc. rewrite Hc, E. reflexivity.
Qed.

Lemma entry_order_case dflt (ex : ex_list) c m :
  ex_case_consistent ex = true -> entry_order dflt ex (apply_case c m) = entry_order dflt ex m.
Proof.
  intros Hc. rewrite !(entry_order_via_upper dflt ex _ Hc). unfold entry_order_upper.
  rewrite upper_apply_case. reflexivity.
Qed.

(* ---------- the whole table ----------------------------------------------------------- *)
Definition all_versions : list las_version := [V10; V12; V20; V21; V30].
Definition std_kinds : list skind := [KVersion; KWell; KCurves; KParameter].
Definition is_std (k : skind) : bool := match k with KCustom => false | _ => true end.

(* every (version, standard section) has an entry *)
Definition table_complete_for (t : list ((las_version * list N) * order_entry)) : bool :=
  forallb (fun v => forallb (fun k =>
     match lookup_order_entry v (sect_table_name k) t with Some _ => true | None => false end) std_kinds)
  all_versions.
(* every exception list of the table is case-consistent *)
Definition table_case_consistent_for (t : list ((las_version * list N) * order_entry)) : bool :=
  forallb (fun row => ex_case_consistent (snd (snd row))) t.
(* ~Curves and ~Parameter are value-first for every mnemonic (the reader never consults the
   table for these two sections) *)
Definition table_curves_param_plain_for (t : list ((las_version * list N) * order_entry)) : bool :=
  forallb (fun v => forallb (fun k =>
     match lookup_order_entry v (sect_table_name k) t with
     | Some (ValueDescr, []) => true
     | _ => false
     end) [KCurves; KParameter]) all_versions.

Definition table_complete : bool := table_complete_for order_definitions.
Definition table_case_consistent : bool := table_case_consistent_for order_definitions.
Definition table_curves_param_plain : bool := table_curves_param_plain_for order_definitions.

(* the three facts about the CONTENT of the generated table *)
Lemma table_complete_ok : table_complete = true.
Proof. vm_compute. reflexivity. Qed.
Lemma table_case_consistent_ok : table_case_consistent = true.
Proof. vm_compute. reflexivity. Qed.
Lemma table_curves_param_plain_ok : table_curves_param_plain = true.
Proof. vm_compute. reflexivity. Qed.

Lemma in_all_versions v : In v all_versions.
Proof. destruct v; cbn; tauto. Qed.
Lemma in_std_kinds k : is_std k = true -> In k std_kinds.
Proof. destruct k; cbn; intros H; try discriminate; tauto. Qed.

Lemma lookup_in v s : forall t e,
  lookup_order_entry v s t = Some e -> exists vs, In (vs, e) t.
Proof.
  induction t as [|[[v' s'] e'] t IH]; intros e H; cbn [lookup_order_entry] in H; [discriminate|].
  destruct (las_version_eqb v v' && str_eqb s s').
  - inversion H; subst. exists (v', s'). left. reflexivity.
  - destruct (IH e H) as [vs Hin]. exists vs. right. exact Hin.
Qed.

Lemma lookup_complete v k : is_std k = true ->
  exists e, lookup_order_entry v (sect_table_name k) order_definitions = Some e.
Proof.
  intros Hk. pose proof table_complete_ok as H. unfold table_complete, table_complete_for in H.
  rewrite forallb_forall in H. specialize (H v (in_all_versions v)).
  rewrite forallb_forall in H. specialize (H k (in_std_kinds k Hk)).
  destruct (lookup_order_entry v (sect_table_name k) order_definitions) as [e|]; [|discriminate].
  exists e. reflexivity.
Qed.

Lemma lookup_consistent v s dflt ex :
  lookup_order_entry v s order_definitions = Some (dflt, ex) -> ex_case_consistent ex = true.
Proof.
  intros H. destruct (lookup_in _ _ _ _ H) as [vs Hin].
  pose proof table_case_consistent_ok as Hc. unfold table_case_consistent, table_case_consistent_for in Hc.
  rewrite forallb_forall in Hc. exact (Hc _ Hin).
Qed.

(* both sides are entry_order of the looked-up entry *)
Lemma order_for_entry v k m dflt ex : is_std k = true ->
  lookup_order_entry v (sect_table_name k) order_definitions = Some (dflt, ex) ->
  order_for v k m = entry_order dflt ex m.
Proof.
  intros Hk H. unfold order_for. destruct k; try discriminate; rewrite H; reflexivity.
Qed.
Lemma order_of_entry v s m dflt ex :
  lookup_order_entry v s order_definitions = Some (dflt, ex) -> order_of v s m = Some (entry_order dflt ex m).
Proof. intros H. unfold order_of. rewrite H. reflexivity. Qed.

(* C12.1 writer and reader consult the same table in the same way *)
Theorem order_tables_agree v k m : is_std k = true ->
  order_of v (sect_table_name k) m = Some (order_for v k m).
Proof.
  intros Hk. destruct (lookup_complete v k Hk) as [[dflt ex] He].
  rewrite (order_of_entry _ _ _ _ _ He), (order_for_entry _ _ _ _ _ Hk He). reflexivity.
Qed.

(* C12.2 the reader's case mapping of the mnemonic does not change the order *)
Theorem order_case_insensitive v k c m : order_for v k (apply_case c m) = order_for v k m.
Proof.
  destruct (is_std k) eqn:Hk; [|destruct k; try discriminate; reflexivity].
  destruct (lookup_complete v k Hk) as [[dflt ex] He].
  rewrite !(order_for_entry _ _ _ _ _ Hk He). apply entry_order_case.
  exact (lookup_consistent _ _ _ _ He).
Qed.

(* the order the reader effectively applies: ~Curves and ~Parameter lines are always read
   value-first (build_item does not consult the table there) *)
Definition reader_order (v : las_version) (k : skind) (name : list N) : item_order :=
  match k with KCurves | KParameter => ValueDescr | _ => order_for v k name end.

Lemma curves_param_value_first v k m : k = KCurves \/ k = KParameter -> order_for v k m = ValueDescr.
Proof.
  intros Hk. pose proof table_curves_param_plain_ok as H.
  unfold table_curves_param_plain, table_curves_param_plain_for in H.
  rewrite forallb_forall in H. specialize (H v (in_all_versions v)).
  rewrite forallb_forall in H.
  assert (Hin : In k [KCurves; KParameter]) by (destruct Hk; subst; cbn; tauto).
  specialize (H k Hin). unfold order_for.
  destruct Hk; subst k;
  (destruct (lookup_order_entry v _ order_definitions) as [[[|] [|x ex]]|]; try discriminate; reflexivity).
Qed.

Lemma reader_order_is_order_for v k m : reader_order v k m = order_for v k m.
Proof.
  destruct k; cbn [reader_order]; try reflexivity; symmetry; apply curves_param_value_first; tauto.
Qed.

(* the order the writer lays a line out in is the order the reader reads it back in, whatever
   mnemonic_case the reader applies *)
Theorem writer_order_is_reader_order v k c m : is_std k = true ->
  order_of v (sect_table_name k) m = Some (reader_order v k (apply_case c m)).
Proof.
  intros Hk. rewrite reader_order_is_order_for, order_case_insensitive. apply order_tables_agree. exact Hk.
Qed.

(* ---------- defaults and exceptions (what differs between 1.2 and 2.0) ------------------ *)
Definition default_order (v : las_version) (k : skind) : item_order :=
  match lookup_order_entry v (sect_table_name k) order_definitions with
  | Some (d, _) => d
  | None => ValueDescr
  end.
Definition is_exception (v : las_version) (k : skind) (m : list N) : bool :=
  match lookup_order_entry v (sect_table_name k) order_definitions with
  | Some (_, ex) => existsb (str_eqb m) (listed ex) || existsb (str_eqb (upper m)) (listed ex)
  | None => false
  end.

Lemma order_for_default v k m : is_std k = true -> is_exception v k m = false ->
  order_for v k m = default_order v k.
Proof.
  intros Hk Hx. destruct (lookup_complete v k Hk) as [[dflt ex] He].
  rewrite (order_for_entry _ _ _ _ _ Hk He). unfold default_order, is_exception in *. rewrite He in *.
  apply orb_false_iff in Hx as [H1 H2]. unfold entry_order.
  rewrite (ofe_unlisted _ _ None H1), (ofe_unlisted _ _ None H2). reflexivity.
Qed.

(* on the table as generated today: ~Well is description-first in 1.2 and value-first in 2.0 *)
Lemma well_default_12 : default_order V12 KWell = DescrValue.
Proof. vm_compute. reflexivity. Qed.
Lemma well_default_20 : default_order V20 KWell = ValueDescr.
Proof. vm_compute. reflexivity. Qed.
Lemma well_20_no_exception m : is_exception V20 KWell m = false.
Proof.
  unfold is_exception.
  assert (H : lookup_order_entry V20 (sect_table_name KWell) order_definitions = Some (ValueDescr, []))
    by (vm_compute; reflexivity).
  rewrite H. reflexivity.
Qed.

Lemma table_checks :
  table_complete_for order_definitions = true /\
  table_case_consistent_for order_definitions = true /\
  table_curves_param_plain_for order_definitions = true.
Proof. exact (conj table_complete_ok (conj table_case_consistent_ok table_curves_param_plain_ok)). Qed.

Lemma upper_facts m : upper (upper m) = upper m /\ upper (lower m) = upper m.
Proof. split; [apply upper_idem|apply upper_lower]. Qed.
