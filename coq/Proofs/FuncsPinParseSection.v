(* Proofs.FuncsPinParseSection — Model/SectionParse.parse_section (parse_body: blank and comment lines skipped,
   the "~" line that ends the section, read_header_line in try / except / else, ignore_header_errors, the
   mnemonic_case mapping, the parser built from the title, append) IS reader.parse_header_items_section
   (Gen/Funcs.v: py_parse_header_items_section, re-translated from /repo on every run), for every file, pair of
   line numbers, version other than 3.0, mnemonic case, ignore_header_errors flag and set of comment characters.
   The file object is the list of the lines that remain (standing at the title line); the model works on
   Sections.body_lines.  SectionParser(title, version) is the translated __init__ (parser_init_pin),
   parser( **values) the translated __call__ (py_parser_call: the stored method applied to the keys,
   parser_call_pin), read_line the forwarding wrapper of the translated read_header_line (read_header_line_pin).
   The SectionItems object under construction is an operation record (sect_ops), read here as
   (mnemonic_transforms, items) with SectionParse.sect_append (C13_append_current pins SectionItems.append itself).
   None: LASHeaderError (PErr).  Restated as C19_parse_section_current / C09_parse_section_current. *)
From Coq Require Import List Arith NArith ZArith Bool Lia ZifyBool ZifyN ZifyNat String Sorted.
Import ListNotations.
Require Import PyStr Regex Regexes NumLit Tables Funcs Num HeaderLine SectionParse Sections
  FuncsPinsLib FuncsPinStandardize FuncsPinWriter FuncsPinNum FuncsPinParser FuncsPinParserInit FuncsPinHeaderLine
  RegexSubFacts StripFacts FuncsPinInspect.
Open Scope list_scope.
Open Scope N_scope.

Definition hitem_of (p : py_item hval) : hitem :=
  mkitem (it_original_mnemonic p) (it_mnemonic p) (Funcs.it_unit p) (Funcs.it_value p) (Funcs.it_descr p).
Lemma hitem_of_item_of : forall h, hitem_of (item_of h) = h.
Proof. intros [a b c d e]. reflexivity. Qed.

(* SectionItems(), section.mnemonic_transforms = True, section.append(item) *)
Definition hsect_ops : sect_ops (bool * list hitem) (py_item hval) :=
  mk_sect_ops (bool * list hitem) (py_item hval) (false, []) (fun s => (true, snd s)) (fun s it => (fst s, sect_append (fst s) (snd s) (hitem_of it))).

Definition case_str (c : mcase) : list N :=
  match c with CasePreserve => s2l "preserve" | CaseUpper => s2l "upper" | CaseLower => s2l "lower" end.
Definition case_transforms (c : mcase) : bool := match c with CasePreserve => false | _ => true end.

Lemma in_list_chars : forall ch cc, pyo_in_list [ch] (List.map (fun c : N => [c]) cc) = in_str ch cc.
Proof.
  intros ch cc. unfold pyo_in_list, in_str. induction cc as [|c cc IH]; [reflexivity|].
  cbn [List.map existsb]. rewrite IH. f_equal. cbn [str_eqb]. apply andb_true_r.
Qed.

Lemma name2_curves : forall t, startswith [ch_tilde] t = true ->
  str_eqb (name2 (kind_of_title t) t) name_Curves = match kind_of_title t with KCurves => true | _ => false end.
Proof.
  intros t Ht. destruct t as [|c r]; [discriminate Ht|]. cbn [startswith] in Ht. rewrite andb_true_r in Ht.
  apply N.eqb_eq in Ht. unfold ch_tilde in Ht. subst c. destruct (kind_of_title (126 :: r)); reflexivity.
Qed.
Lemma name2_param : forall t, startswith [ch_tilde] t = true ->
  str_eqb (name2 (kind_of_title t) t) name_Parameter = match kind_of_title t with KParameter => true | _ => false end.
Proof.
  intros t Ht. destruct t as [|c r]; [discriminate Ht|]. cbn [startswith] in Ht. rewrite andb_true_r in Ht.
  apply N.eqb_eq in Ht. unfold ch_tilde in Ht. subst c. destruct (kind_of_title (126 :: r)); reflexivity.
Qed.

(* values["name"] = values["name"].upper() / .lower() on the dict read_header_line returned, then parser( **values) *)
Lemma keys_of_hline_dict : forall h, pyo_keys_of_dict (hline_dict h) = Some (keys_of h).
Proof. intros [a b c d]. reflexivity. Qed.
Lemma hline_dict_set_name : forall h n,
  pyo_dict_set (hline_dict h) key_name n = hline_dict (mkhl n (h_unit h) (h_value h) (h_descr h)).
Proof. intros [a b c d] n. reflexivity. Qed.
Lemma hline_dict_name : forall h, pyo_dict_item (hline_dict h) key_name = Some (h_name h).
Proof. intros [a b c d]. reflexivity. Qed.

Lemma obind_proj {A B C : Type} : forall (x : option (A * B + A * B)) (k : B -> option C),
  obind (option_map (fun r => match r with inl t => t | inr t => t end) x) (fun '(_, b) => k b)
  = obind x (fun r => k (snd (match r with inl t => t | inr t => t end))).
Proof. intros [[[a b]|[a b]]|] k; reflexivity. Qed.

Lemma pyo_item_head : forall ch (r : list N), pyo_item (ch :: r) 0%Z = Some [ch].
Proof.
  intros ch r. unfold pyo_item. cbn [List.length].
  replace ((0 <=? 0) && (0 <? Z.of_nat (S (List.length r))))%Z with true by lia. reflexivity.
Qed.

Section Pin.
Variables (fstr : list N -> list N) (fzero : list N -> bool).

(* the parser object __init__ built, applied to the keys of a parsed line *)
Lemma parser_object_call : forall v t h,
  let k := kind_of_title t in
  py_parser_call (hval_ops fstr fzero) num_hval_ops
    (func_tag k, name2 k t, Some (order_str (fst (parser_entry v k))), Some (parser_orders (snd (parser_entry v k)))) (keys_of h)
  = Some (item_of (build_item v k h)).
Proof.
  intros v t h k. unfold py_parser_call. destruct k; cbn [func_tag]; unfold tag_curves, tag_params, tag_metadata;
    cbn [str_eqb N.eqb Pos.eqb andb];
    first [apply curves_pin | apply params_pin | apply metadata_pin; discriminate].
Qed.

(* the mnemonic_case mapping of values["name"], then parser( **values) *)
Lemma case_and_call : forall v t c h (B : Type) (K : py_item hval -> option B),
  let k := kind_of_title t in
  obind (if str_eqb (case_str c) [117; 112; 112; 101; 114]
         then obind (obind (obind (pyo_dict_item (hline_dict h) [110; 97; 109; 101]) (fun t6_ => Some (pyo_upper t6_)))
                      (fun t7_ => Some (pyo_dict_set (hline_dict h) [110; 97; 109; 101] t7_)))
                    (fun v_values : list (list N * list N) => Some v_values)
         else obind (if str_eqb (case_str c) [108; 111; 119; 101; 114]
                     then obind (obind (obind (pyo_dict_item (hline_dict h) [110; 97; 109; 101]) (fun t10_ => Some (pyo_lower t10_)))
                                  (fun t11_ => Some (pyo_dict_set (hline_dict h) [110; 97; 109; 101] t11_)))
                                (fun v_values : list (list N * list N) => Some v_values)
                     else Some (hline_dict h)) (fun v_values => Some v_values))
        (fun v_values =>
           obind (obind (obind (pyo_keys_of_dict v_values)
                    (fun t12_ => Some (py_parser_call (hval_ops fstr fzero) num_hval_ops
                       (func_tag k, name2 k t, Some (order_str (fst (parser_entry v k))), Some (parser_orders (snd (parser_entry v k)))) t12_)))
                 (fun t13_ => t13_)) K)
  = K (item_of (build_item v k (mkhl (apply_case c (h_name h)) (h_unit h) (h_value h) (h_descr h)))).
Proof.
  intros v t c h B K k. change [110; 97; 109; 101] with key_name.
  destruct c; cbn [case_str apply_case];
    match goal with |- context [str_eqb (s2l ?a) ?b] => change (str_eqb (s2l a) b) with true || change (str_eqb (s2l a) b) with false end;
    repeat match goal with |- context [str_eqb (s2l ?a) ?b] => change (str_eqb (s2l a) b) with true || change (str_eqb (s2l a) b) with false end;
    rewrite ?hline_dict_name; cbn [obind]; rewrite ?hline_dict_set_name, keys_of_hline_dict; cbn [obind];
    try (rewrite (parser_object_call v t); destruct h; reflexivity);
    rewrite (parser_object_call v t); reflexivity.
Qed.

(* what find_sections guarantees about (first, last): the section has body lines, or it has none and the very next
   line (if any) is the next title line.  (The Python loop has no `line_no > line_nos[1]` test of its own: for
   last <= first it stops at the next "~" line, where the model's empty body stops at once.) *)
Definition section_extent (file : list (list N)) (first last : nat) (cc : list N) : Prop :=
  (first < last)%nat \/
  ((last <= first)%nat /\ match skipn (S first) file with
                          | [] => True
                          | l :: _ => startswith [ch_tilde] (strip l) = true /\ in_str ch_tilde cc = false
                          end).

Theorem parse_section_pin : forall (file : list (list N)) (first last : nat) (title : list N) (v : las_version)
                                   (c : mcase) (ign : bool) (cc : list N),
  startswith [ch_tilde] (strip (pyo_readline_line (skipn first file))) = true -> v <> V30 ->
  section_extent file first last cc ->
  py_parse_header_items_section (hval_ops fstr fzero) num_hval_ops hsect_ops (skipn first file)
    (Z.of_nat first, Z.of_nat last) v ign (case_str c) (List.map (fun ch : N => [ch]) cc)
  = match parse_section v (pyo_readline_line (skipn first file)) c ign cc (body_lines file (mkspos first last title)) with
    | POk items => Some (case_transforms c, items)
    | PErr _ => None
    end.
Proof.
  intros file first last title v c ign cc Ht Hv Hfl.
  unfold py_parse_header_items_section, parse_section, body_lines. cbn [sp_first sp_last].
  rewrite strip_nl_inner. set (t := strip (pyo_readline_line (skipn first file))) in *.
  rewrite (parser_init_pin t v Ht Hv). cbv zeta. cbn [obind].
  unfold pyo_readline_rest at 1. rewrite skipn_rest.
  assert (Hcase : pyo_in_list (case_str c) [[117; 112; 112; 101; 114]; [108; 111; 119; 101; 114]; [112; 114; 101; 115; 101; 114; 118; 101]] = true)
    by (destruct c; reflexivity).
  rewrite Hcase.
  set (tr := case_transforms c).
  assert (Hsec : (if negb (str_eqb (case_str c) [112; 114; 101; 115; 101; 114; 118; 101])
                  then s_set_transforms hsect_ops (s_new hsect_ops) else s_new hsect_ops) = (tr, [])) by (destruct c; reflexivity).
  rewrite Hsec. clear Hsec Hcase.
  unfold pyo_enumerate, pyo_llen. rewrite range_seq.
  match goal with |- context [fold_left ?F0 _ (Some (inr (Z.of_nat first, (tr, []))))] => set (G := F0) end.
  rewrite obind_proj.
  assert (Hinl : forall l s, fold_left G l (Some (inl s)) = Some (inl s)).
  { induction l as [|x l IH]; intros s; [reflexivity|]. exact (IH s). }
  assert (Hnone : forall l, fold_left G l None = None).
  { induction l as [|x l IH]; [reflexivity|]. exact IH. }
  assert (Hloop : forall l i ln acc, (ln < last)%nat ->
    obind (fold_left G (combine (List.map Z.of_nat (seq i (List.length l))) l) (Some (inr (Z.of_nat ln, (tr, acc)))))
          (fun r => Some (snd (match r with inl s => s | inr s => s end)))
    = match parse_body v (kind_of_title t) c ign cc tr (firstn (last - ln) l) acc with POk items => Some (tr, items) | PErr _ => None end).
  { induction l as [|x l IH]; intros i ln acc Hln.
    - rewrite firstn_nil. reflexivity.
    - rewrite enumerate_from. cbn [fold_left].
      (* every path through the body that does not leave the loop ends with `if line_no == line_nos[1]: break` *)
      assert (Hend : forall acc' : list hitem,
        obind (fold_left G (combine (List.map Z.of_nat (seq (S i) (List.length l))) l)
                 (if (Z.of_nat (S ln) =? Z.of_nat last)%Z then Some (inl (Z.of_nat (S ln), (tr, acc')))
                  else Some (inr (Z.of_nat (S ln), (tr, acc')))))
              (fun r => Some (snd (match r with inl s0 => s0 | inr s0 => s0 end)))
        = match parse_body v (kind_of_title t) c ign cc tr (firstn (last - S ln) l) acc' with POk items => Some (tr, items) | PErr _ => None end).
      { intros acc'. destruct (Z.of_nat (S ln) =? Z.of_nat last)%Z eqn:E.
        - rewrite Hinl. replace (last - S ln)%nat with 0%nat by lia. reflexivity.
        - apply IH. lia. }
      unfold G at 2.
      replace (Z.of_nat ln + 1)%Z with (Z.of_nat (S ln)) by lia.
      rewrite strip_nl_inner.
      replace (last - ln)%nat with (S (last - S ln)) by lia. cbn [firstn parse_body].
      destruct (strip x) as [|ch r] eqn:Ex.
      + cbn [pyo_truthy_str negb]. apply Hend.
      + cbn [pyo_truthy_str negb]. rewrite pyo_item_head. cbn [obind]. rewrite in_list_chars.
        destruct (in_str ch cc); [apply Hend|].
        cbn [startswith]. rewrite andb_true_r, (N.eqb_sym 126 ch). unfold ch_tilde.
        destruct (ch =? 126); [rewrite Hinl; reflexivity|].
        rewrite read_header_line_pin.
        rewrite (name2_curves t Ht), (name2_param t Ht).
        unfold parse_line.
        destruct (read_header_line (ch :: r) match kind_of_title t with KCurves => true | _ => false end
                                   match kind_of_title t with KParameter => true | _ => false end) as [h|].
        * cbn [option_map]. rewrite (case_and_call v t c h).
          cbn [s_append hsect_ops fst snd]. rewrite hitem_of_item_of. apply Hend.
        * cbn [option_map]. destruct ign; [apply Hend|]. rewrite Hnone. reflexivity. }
  destruct Hfl as [Hfl|(Hfl & Hnext)]; [apply Hloop; exact Hfl|].
  replace (last - first)%nat with 0%nat by lia. cbn [firstn parse_body].
  destruct (skipn (S first) file) as [|x l]; [reflexivity|]. destruct Hnext as (Hx & Hcc).
  rewrite enumerate_from. cbn [fold_left]. unfold G at 2. rewrite strip_nl_inner.
  destruct (strip x) as [|ch r]; [discriminate Hx|]. cbn [startswith] in Hx. rewrite andb_true_r in Hx.
  apply N.eqb_eq in Hx. subst ch. cbn [pyo_truthy_str negb]. rewrite pyo_item_head. cbn [obind].
  rewrite in_list_chars, Hcc. unfold ch_tilde. cbn [startswith N.eqb Pos.eqb andb]. rewrite Hinl. reflexivity.
Qed.
End Pin.

(* ---------- every section find_sections produces satisfies section_extent --------------------------------
   (with "#" as the only comment character, as LASFile.read calls parse_header_items_section) *)
Definition title_at (ls : list (list N)) (j : nat) : Prop :=
  exists l, nth_error ls j = Some l /\ startswith [ch_tilde] (strip l) = true.

Lemma find_starts_spec : forall ls i,
  Forall (fun jt : nat * list N => (i <= fst jt < i + List.length ls)%nat /\
                                    exists l, nth_error ls (fst jt - i) = Some l /\ startswith [ch_tilde] (strip l) = true /\ snd jt = strip l)
         (find_starts ls i)
  /\ StronglySorted lt (List.map fst (find_starts ls i)).
Proof.
  induction ls as [|l ls IH]; intros i; [split; constructor|].
  destruct (IH (S i)) as (Hall & Hsort). cbn [find_starts].
  assert (Hshift : Forall (fun jt : nat * list N => (i <= fst jt < i + List.length (l :: ls))%nat /\
                       exists l0, nth_error (l :: ls) (fst jt - i) = Some l0 /\ startswith [ch_tilde] (strip l0) = true /\ snd jt = strip l0)
                     (find_starts ls (S i))).
  { eapply Forall_impl; [|exact Hall]. intros (j, t) ((H1 & H2) & l0 & Hn & Hs). cbn [fst List.length] in *. split; [lia|].
    exists l0. split; [|exact Hs]. replace (j - i)%nat with (S (j - S i)) by lia. exact Hn. }
  destruct (startswith [ch_tilde] (strip l)) eqn:E.
  - split.
    + constructor; [|exact Hshift]. cbn [fst List.length]. split; [lia|]. exists l. rewrite Nat.sub_diag. split; [reflexivity|split; [exact E|reflexivity]].
    + cbn [List.map fst]. constructor; [exact Hsort|].
      rewrite Forall_map. eapply Forall_impl; [|exact Hall]. intros (j, t) ((H1 & _) & _). cbn [fst] in *. lia.
  - split; assumption.
Qed.

Lemma nth_error_skipn_cons {A} : forall k (ls : list A) l, nth_error ls k = Some l -> exists r, skipn k ls = l :: r.
Proof.
  induction k as [|k IH]; intros [|x ls] l H; cbn in H; try discriminate H.
  - injection H as ->. exists ls. reflexivity.
  - exact (IH ls l H).
Qed.

Lemma with_ends_extent : forall ls starts,
  Forall (fun jt : nat * list N => (fst jt < List.length ls)%nat /\ title_at ls (fst jt)) starts ->
  StronglySorted lt (List.map fst starts) ->
  forall p, In p (with_ends starts (List.length ls)) -> section_extent ls (sp_first p) (sp_last p) [ch_hash].
Proof.
  intros ls. induction starts as [|(i, t) starts IH]; intros Hall Hsort p Hin; [destruct Hin|].
  destruct starts as [|(j, t2) rest].
  - cbn [with_ends] in Hin. destruct Hin as [<-|[]]. cbn [sp_first sp_last]. left.
    apply Forall_inv in Hall. cbn [fst] in Hall. lia.
  - change (with_ends ((i, t) :: (j, t2) :: rest) (List.length ls))
      with (mkspos i (j - 1) t :: with_ends ((j, t2) :: rest) (List.length ls)) in Hin.
    destruct Hin as [<-|Hin].
    + cbn [sp_first sp_last].
      assert (Hij : (i < j)%nat).
      { apply StronglySorted_inv in Hsort as (_ & Hlt). cbn [List.map fst] in Hlt. apply Forall_inv in Hlt. exact Hlt. }
      destruct (Nat.eq_dec j (S i)) as [->|Hne]; [|left; lia].
      right. split; [lia|].
      apply Forall_inv_tail in Hall. apply Forall_inv in Hall. cbn [fst] in Hall. destruct Hall as (_ & l & Hn & Hs).
      destruct (nth_error_skipn_cons _ _ _ Hn) as (r & ->). split; [exact Hs|reflexivity].
    + apply IH; [exact (Forall_inv_tail Hall)|apply StronglySorted_inv in Hsort; tauto|exact Hin].
Qed.

Theorem find_sections_extent : forall ls p,
  In p (find_sections ls) -> section_extent ls (sp_first p) (sp_last p) [ch_hash].
Proof.
  intros ls p Hin. unfold find_sections in Hin. destruct (find_starts_spec ls 0) as (Hall & Hsort).
  apply (with_ends_extent ls (find_starts ls 0)); [|exact Hsort|exact Hin].
  eapply Forall_impl; [|exact Hall]. intros (j, t) ((_ & H2) & l & Hn & Hs & _). cbn [fst] in *. split; [lia|].
  exists l. rewrite Nat.sub_0_r in Hn. split; assumption.
Qed.

Lemma with_ends_starts : forall starts n p, In p (with_ends starts n) -> In (sp_first p, sp_title p) starts.
Proof.
  induction starts as [|(i, t) starts IH]; intros n p Hin; [destruct Hin|].
  destruct starts as [|(j, t2) rest].
  - cbn [with_ends] in Hin. destruct Hin as [<-|[]]. left. reflexivity.
  - change (with_ends ((i, t) :: (j, t2) :: rest) n) with (mkspos i (j - 1) t :: with_ends ((j, t2) :: rest) n) in Hin.
    destruct Hin as [<-|Hin]; [left; reflexivity|right; exact (IH n p Hin)].
Qed.

(* the pin as LASFile.read uses the function: on a section that find_sections found, with "#" as comment character *)
Theorem parse_section_found_pin : forall fstr fzero (ls : list (list N)) (p : spos) (v : las_version) (c : mcase) (ign : bool),
  In p (find_sections ls) -> v <> V30 ->
  py_parse_header_items_section (hval_ops fstr fzero) num_hval_ops hsect_ops (skipn (sp_first p) ls)
    (Z.of_nat (sp_first p), Z.of_nat (sp_last p)) v ign (case_str c) [[ch_hash]]
  = match parse_section v (sp_title p) c ign [ch_hash] (body_lines ls p) with
    | POk items => Some (case_transforms c, items)
    | PErr _ => None
    end.
Proof.
  intros fstr fzero ls p v c ign Hin Hv.
  pose proof (find_sections_extent ls p Hin) as Hext.
  unfold find_sections in Hin. apply with_ends_starts in Hin.
  destruct (find_starts_spec ls 0) as (Hall & _). rewrite Forall_forall in Hall.
  destruct (Hall _ Hin) as (_ & l & Hn & Hs & Ht). cbn [fst snd] in Hn, Ht. rewrite Nat.sub_0_r in Hn.
  destruct (nth_error_skipn_cons _ _ _ Hn) as (r & Hsk).
  assert (Hline : pyo_readline_line (skipn (sp_first p) ls) = l) by (rewrite Hsk; reflexivity).
  pose proof (parse_section_pin fstr fzero ls (sp_first p) (sp_last p) (sp_title p) v c ign [ch_hash]) as H.
  rewrite Hline in H. specialize (H Hs Hv Hext).
  change (List.map (fun ch : N => [ch]) [ch_hash]) with [[ch_hash]] in H. rewrite H.
  destruct p as [a b t]. cbn [sp_first sp_last sp_title] in *. subst t.
  unfold parse_section. rewrite strip_idem. reflexivity.
Qed.
