(* Proofs.WriteOptionsProofs — writer.write (Model/Writer.v) factors into a header part that
   sees only the options `version`, `wrap` and the numeric format of the index column
   (col_fmt o 0, with which STRT/STOP/STEP are printed; and, for the title lines alone,
   header_width) and a data part that sees the remaining options.  Consequences (C12): the
   header item lines and the resulting in-memory file do not depend on the formats of the
   other columns, len_numeric_field, lhs_spacer, spacer, data_width, data_section_header,
   mnemonics_header.
   All statements hold for every oracle. *)
From Coq Require Import List Arith NArith ZArith Bool String.
Import ListNotations.
Require Import PyStr Regex NumLit Num Tables SectionParse DataRead Read TextWrap Writer.
Open Scope string_scope.
Open Scope list_scope.
Open Scope N_scope.

Section WithOracles.
Variable fmtv : list N -> list N -> list N.
Variable fmt_diff : list N -> list N -> list N -> list N.
Variable fmt_pi : list N -> list N.
Variable fstr : list N -> list N.
Variable fzero : list N -> bool.
Variable numeq : list N -> list N -> bool.

(* what the header part of write produces: the wrap flag, the version written, the item lines
   of the four sections, and the in-memory file after the call *)
Record hdr_sections := mkhs {
  hs_wrap : bool;
  hs_version : las_version;
  hs_vers_items : list hitem;          (* the ~Version items as written (a copy: DLM SPACE, VERS substituted) *)
  hs_lv : list (list N);
  hs_lw : list (list N);
  hs_lc : list (list N);
  hs_lp : list (list N);
  hs_las : las }.

(* steps 1-9 of write, as a function of the options `version` and `wrap` and of the numeric format
   of the index column (col_fmt o 0: STRT/STOP/STEP are printed with it) only *)
Definition write_sections (ver : option wver) (wrapo : option bool) (ifmt : list N) (m : mlas) : option hdr_sections :=
  let l0 := m_las m in
  let trv := s_transforms (l_version l0) in
  let wrap_step : option (bool * las) :=
    match wrapo with
    | None => match sect_find trv (s2l "WRAP") (s_items (l_version l0)) with
              | Some _ => Some (false, l0) | None => None end
    | Some true => Some (true, with_version l0 (mksect (set_item trv (s2l "WRAP")
                     (new_item (s2l "WRAP") [] (VStr (s2l "YES")) (s2l "Multiple lines per depth step")) (s_items (l_version l0))) trv))
    | Some false => Some (false, with_version l0 (mksect (set_item trv (s2l "WRAP")
                     (new_item (s2l "WRAP") [] (VStr (s2l "NO")) (s2l "One line per depth step")) (s_items (l_version l0))) trv))
    end in
  match wrap_step with
  | None => None
  | Some (wrap, l1) =>
  let vers : option las_version :=
    match ver with
    | Some W12 => Some V12
    | Some W20 => Some V20
    | None => bind (item_value_by trv (s2l "VERS") (s_items (l_version l1))) version_of
    end in
  match vers with
  | None => None
  | Some v =>
  let vcopy :=
    match update_first trv (s2l "DLM") (fun it => set_value it (VStr (s2l "SPACE"))) (s_items (l_version l1)) with
    | Some r => r
    | None => s_items (l_version l1)
    end in
  let vsw :=
    if las_version_eqb v V12 then
      set_item trv (s2l "VERS") (new_item (s2l "VERS") [] (VFloat (s2l "1.2")) (s2l "CWLS LOG ASCII STANDARD - VERSION 1.2")) vcopy
    else if las_version_eqb v V20 then
      set_item trv (s2l "VERS") (new_item (s2l "VERS") [] (VFloat (s2l "2.0")) (s2l "CWLS log ASCII Standard -VERSION 2.0")) vcopy
    else vcopy in
  match refresh_sss fmtv fmt_diff numeq ifmt (mkmlas l1 (m_index_initial m)) with
  | None => None
  | Some l2 =>
  let l3 := with_params (with_well l2 (map_section (fun it => set_value it (standardize fzero (i_value it) (i_unit it))) (l_well l2)))
                        (map_section (fun it => set_value it (standardize fzero (i_value it) (i_unit it))) (l_params l2)) in
  match section_lines fstr v (s2l "Version") vsw, section_lines fstr v (s2l "Well") (s_items (l_well l3)),
        section_lines fstr v (s2l "Curves") (s_items (l_curves l3)), section_lines fstr v (s2l "Parameter") (s_items (l_params l3)) with
  | Some lv, Some lw, Some lc, Some lp => Some (mkhs wrap v vsw lv lw lc lp l3)
  | _, _, _, _ => None
  end
  end end end.

(* the header text lines: title lines (the only place header_width is used) around the item lines *)
Definition header_lines (hw : nat) (hs : hdr_sections) : list (list N) :=
  [title_line hw (s2l "~Version ")] ++ hs_lv hs ++ [title_line hw (s2l "~Well ")] ++ hs_lw hs
  ++ [title_line hw (s2l "~Curve Information ")] ++ hs_lc hs ++ [title_line hw (s2l "~Params ")] ++ hs_lp hs
  ++ [title_line hw (s2l "~Other ")] ++ splitlines (l_other (hs_las hs)).

(* the data part: the ~ASCII line and the data lines, from all options and the header state *)
Definition write_data (o : wopts) (hs : hdr_sections) : option (list N) :=
  let l3 := hs_las hs in
  let wrap := hs_wrap hs in
  let hw := wo_header_width o in
  let ncurves := List.length (s_items (l_curves l3)) in
  let cols := List.map (fun j => nth j (l_data l3) []) (seq 0 ncurves) in
  let rows := data_rows cols in
  let null_text := match item_value_by (s_transforms (l_well l3)) (s2l "NULL") (s_items (l_well l3)) with
                   | Some nv => Some (vstr fstr nv) | None => None end in
  let dsh_line : option (list N) :=
    if wo_mnemonics_header o then
      match rows with
      | [] => match s_items (l_curves l3) with
              | [] => Some (wo_data_section_header o ++ [32])
              | _ => None
              end
      | row0 :: _ =>
          bind (opt_all (List.map (fun jc => field_text fmtv fmt_pi o (fst jc) null_text (snd jc)) (combine (seq 0 (List.length row0)) row0)))
            (fun firsts =>
               let hvs := List.map (fun cw =>
                              let mn := i_sess (fst cw) in
                              let colw := List.length (snd cw) in
                              let width := if Nat.ltb (colw - 1) (List.length mn) then S (List.length mn) else colw in
                              rjust width 32 mn)
                            (combine (s_items (l_curves l3)) firsts) in
               let dsh := wo_data_section_header o ++ [32] in
               let hvs := match hvs with
                          | hv :: rest => strip_header_value 0 (List.length dsh) hv :: rest
                          | [] => []
                          end in
               Some (dsh ++ List.concat hvs))
      end
    else Some (title_line hw (wo_data_section_header o ++ [32])) in
  match dsh_line, opt_all (List.map (row_text fmtv fmt_pi o null_text 0%nat) rows) with
  | Some dl, Some rts =>
      let data_lines := if wrap then flat_map (TextWrap.wrap (wo_data_width o)) rts else rts in
      Some (dl ++ [ch_nl] ++ flat_map (fun ln => ln ++ [ch_nl]) data_lines)
  | _, _ => None
  end.

(* write = header part (version, wrap) ; title lines (header_width) ; data part (everything) *)
Theorem write_factors (o : wopts) (m : mlas) :
  write fmtv fmt_diff fmt_pi fstr fzero numeq o m =
  match write_sections (wo_version o) (wo_wrap o) (col_fmt o 0%nat) m with
  | None => WErr WKeyError
  | Some hs =>
      match write_data o hs with
      | Some d => WOk (join [ch_nl] (header_lines (wo_header_width o) hs) ++ [ch_nl] ++ d)
                      (mkmlas (hs_las hs) (m_index_initial m))
      | None => WErr WKeyError
      end
  end.
Proof.
  unfold write, write_sections.
  destruct (wo_wrap o) as [[|]|];
    [ | | destruct (sect_find (s_transforms (l_version (m_las m))) (s2l "WRAP") (s_items (l_version (m_las m)))); [|reflexivity] ];
    cbv zeta;
    (match goal with |- context [match ?x with Some v => _ | None => WErr WKeyError end] =>
       destruct x as [v|]; [|reflexivity] end);
    (match goal with |- context [refresh_sss ?a ?b ?c ?d ?e] => destruct (refresh_sss a b c d e) as [l2|]; [|reflexivity] end);
    repeat (match goal with |- context [section_lines ?a ?b ?c ?d] =>
              destruct (section_lines a b c d) as [?|]; [|reflexivity] end).
  all: unfold write_data, header_lines; cbn [hs_wrap hs_version hs_lv hs_lw hs_lc hs_lp hs_las]; cbv zeta.
  all: repeat (match goal with |- context [match ?x with Some _ => _ | None => _ end] =>
              destruct x; try reflexivity end).
Qed.

Lemma write_ok_inv o m t m' :
  write fmtv fmt_diff fmt_pi fstr fzero numeq o m = WOk t m' ->
  exists hs d, write_sections (wo_version o) (wo_wrap o) (col_fmt o 0%nat) m = Some hs /\ write_data o hs = Some d /\
    t = join [ch_nl] (header_lines (wo_header_width o) hs) ++ [ch_nl] ++ d /\
    m' = mkmlas (hs_las hs) (m_index_initial m).
Proof.
  rewrite write_factors. destruct (write_sections (wo_version o) (wo_wrap o) (col_fmt o 0%nat) m) as [hs|] eqn:Hs; [|discriminate].
  destruct (write_data o hs) as [d|] eqn:Hd; [|discriminate]. intros [= <- <-].
  exists hs, d. repeat split. exact Hd.
Qed.

(* the item lines in the text are section_lines of the sections of the in-memory file after the
   call (for ~Version: of the copy in which DLM was set to SPACE and VERS was substituted) *)
Lemma write_sections_lines ver wrapo ifmt m hs :
  write_sections ver wrapo ifmt m = Some hs ->
  section_lines fstr (hs_version hs) (s2l "Version") (hs_vers_items hs) = Some (hs_lv hs) /\
  section_lines fstr (hs_version hs) (s2l "Well") (s_items (l_well (hs_las hs))) = Some (hs_lw hs) /\
  section_lines fstr (hs_version hs) (s2l "Curves") (s_items (l_curves (hs_las hs))) = Some (hs_lc hs) /\
  section_lines fstr (hs_version hs) (s2l "Parameter") (s_items (l_params (hs_las hs))) = Some (hs_lp hs).
Proof.
  unfold write_sections.
  destruct wrapo as [[|]|];
    [ | | destruct (sect_find (s_transforms (l_version (m_las m))) (s2l "WRAP") (s_items (l_version (m_las m)))); [|discriminate] ];
    cbv zeta;
    (match goal with |- context [match ?x with Some v => _ | None => None end] =>
       destruct x as [v|]; [|discriminate] end);
    (match goal with |- context [refresh_sss ?a ?b ?c ?d ?e] => destruct (refresh_sss a b c d e) as [l2|]; [|discriminate] end);
    repeat (match goal with |- context [match section_lines ?a ?b ?c ?d with _ => _ end] =>
              destruct (section_lines a b c d) as [?|] eqn:?; [|discriminate] end).
  all: intros H; inversion H; subst; cbn [hs_version hs_vers_items hs_lv hs_lw hs_lc hs_lp hs_las]; repeat split; assumption.
Qed.

(* C12.3 two calls that agree on `version`, `wrap` and the index column's numeric format: same section item lines (the texts differ
   in the title lines — header_width — and in the data part only), same in-memory result *)
Theorem header_independent_of_data_options o1 o2 m t1 m1 t2 m2 :
  wo_version o1 = wo_version o2 -> wo_wrap o1 = wo_wrap o2 -> col_fmt o1 0%nat = col_fmt o2 0%nat ->
  write fmtv fmt_diff fmt_pi fstr fzero numeq o1 m = WOk t1 m1 ->
  write fmtv fmt_diff fmt_pi fstr fzero numeq o2 m = WOk t2 m2 ->
  exists hs d1 d2,
    write_sections (wo_version o1) (wo_wrap o1) (col_fmt o1 0%nat) m = Some hs /\
    t1 = join [ch_nl] (header_lines (wo_header_width o1) hs) ++ [ch_nl] ++ d1 /\
    t2 = join [ch_nl] (header_lines (wo_header_width o2) hs) ++ [ch_nl] ++ d2.
Proof.
  intros Hv Hw Hf H1 H2. apply write_ok_inv in H1 as (hs1 & d1 & Hs1 & _ & Ht1 & _).
  apply write_ok_inv in H2 as (hs2 & d2 & Hs2 & _ & Ht2 & _).
  rewrite <- Hv, <- Hw, <- Hf, Hs1 in Hs2. inversion Hs2; subst hs2.
  exists hs1, d1, d2. repeat split; assumption.
Qed.

Theorem state_independent_of_presentation o1 o2 m t1 m1 t2 m2 :
  wo_version o1 = wo_version o2 -> wo_wrap o1 = wo_wrap o2 -> col_fmt o1 0%nat = col_fmt o2 0%nat ->
  write fmtv fmt_diff fmt_pi fstr fzero numeq o1 m = WOk t1 m1 ->
  write fmtv fmt_diff fmt_pi fstr fzero numeq o2 m = WOk t2 m2 ->
  m1 = m2.
Proof.
  intros Hv Hw Hf H1 H2. apply write_ok_inv in H1 as (hs1 & d1 & Hs1 & _ & _ & Hm1).
  apply write_ok_inv in H2 as (hs2 & d2 & Hs2 & _ & _ & Hm2).
  rewrite <- Hv, <- Hw, <- Hf, Hs1 in Hs2. inversion Hs2; subst hs2. rewrite Hm1, Hm2. reflexivity.
Qed.

(* with equal header_width the header text itself is identical *)
Corollary header_text_independent o1 o2 m t1 m1 t2 m2 :
  wo_version o1 = wo_version o2 -> wo_wrap o1 = wo_wrap o2 -> col_fmt o1 0%nat = col_fmt o2 0%nat ->
  wo_header_width o1 = wo_header_width o2 ->
  write fmtv fmt_diff fmt_pi fstr fzero numeq o1 m = WOk t1 m1 ->
  write fmtv fmt_diff fmt_pi fstr fzero numeq o2 m = WOk t2 m2 ->
  exists h d1 d2, t1 = h ++ [ch_nl] ++ d1 /\ t2 = h ++ [ch_nl] ++ d2.
Proof.
  intros Hv Hw Hf Hh H1 H2.
  destruct (header_independent_of_data_options o1 o2 m t1 m1 t2 m2 Hv Hw Hf H1 H2) as (hs & d1 & d2 & _ & E1 & E2).
  rewrite <- Hh in E2. eexists _, d1, d2. split; eassumption.
Qed.
End WithOracles.
