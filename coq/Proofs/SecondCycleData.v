(* Proofs.SecondCycleData — C11, second cycle, data side.
   The data read back from a written file are  data_result ... (tok_matrix o nt rows)
   (Proofs/FileRoundTripData.v): cell (i, j) is the token printed for it, read as a number, and —
   outside the index column, under null_policy strict — NaN when it equals NULL.  When every
   printed token is a FIXED POINT of "read, then print with the same format" (back_okb: for a
   numeric cell fmt % float(tok) == tok, i.e. the oracle hypothesis Hfix at the tokens that
   occur; a NaN cell comes back NaN through the NULL text), the token matrix of the second
   write is the token matrix of the first: the same data lines, the same ~A line. *)
From Coq Require Import List Arith NArith ZArith Bool Lia String.
Import ListNotations.
Require Import PyStr Regex NumLit Num HeaderLine Tables SectionParse Sections DataRead Read TextWrap Writer.
Require Import ItemsBindProofs DataReadProofs WriteStateProofs WriteOptionsProofs WriteDataProofs WriteDataTextProofs
  FileRoundTripText FileRoundTripData.
Open Scope string_scope.
Open Scope list_scope.
Open Scope N_scope.

Lemma map_nth_seq {A} (d : A) : forall l, map (fun j => nth j l d) (seq 0 (List.length l)) = l.
Proof.
  intros l. apply nth_ext with (d := d) (d' := d).
  - rewrite map_length, seq_length. reflexivity.
  - intros n Hn. rewrite map_length, seq_length in Hn.
    rewrite (nth_indep _ d (nth 0 l d)) by (rewrite map_length, seq_length; exact Hn).
    rewrite (map_nth (fun j => nth j l d)), seq_nth by exact Hn. reflexivity.
Qed.

Section WithOracles.
Variable fmtv : list N -> list N -> list N.
Variable fmt_pi : list N -> list N.
Variable fhex : list N -> option (list N).
Variable fstr : list N -> list N.
Variable numeq : list N -> list N -> bool.
Variable ro : ropts.
Variable pn : option hval.
Variable o : wopts.
Variable nt : list N.

(* the cell read back from the token tok printed in column j *)
Definition readback (j : nat) (tok : list N) : cell :=
  let c0 := mk_num fhex tok in
  if o_null_strict ro && negb (Nat.eqb j 0) then
    match c0 with CNum t => if nulleq numeq pn t then CNaN else c0 | _ => c0 end
  else c0.

(* the token printed for the cell read back is the token itself *)
Definition back_tokb (j : nat) (tok : list N) : bool := str_eqb (field_tok fmtv o nt j (readback j tok)) tok.
Fixpoint back_rowb (j : nat) (toks : list (list N)) : bool :=
  match toks with [] => true | t :: r => back_tokb j t && back_rowb (S j) r end.
Definition back_okb (T : list (list (list N))) : bool := forallb (back_rowb 0) T.

Lemma back_rowb_nth : forall toks j k t, back_rowb j toks = true -> nth_error toks k = Some t ->
  field_tok fmtv o nt (j + k) (readback (j + k) t) = t.
Proof.
  induction toks as [|t0 toks IH]; intros j k t H Hk; [destruct k; discriminate|].
  cbn [back_rowb] in H. apply andb_true_iff in H as [H1 H2]. destruct k as [|k]; cbn [nth_error] in Hk.
  - injection Hk as <-. rewrite Nat.add_0_r. apply ws_str_eqb_eq. exact H1.
  - replace (j + S k)%nat with (S j + k)%nat by lia. apply (IH (S j) k t H2 Hk).
Qed.

(* under Hfix (printing a printed number with the same format gives the same text) a numeric cell
   that does not come back as NULL is a fixed point *)
Lemma back_tokb_num (Hfix : forall f t, fmtv f (fmtv f t) = fmtv f t) j t :
  readback j (fmtv (col_fmt o j) t) = CNum (fmtv (col_fmt o j) t) -> back_tokb j (fmtv (col_fmt o j) t) = true.
Proof. intros E. unfold back_tokb. rewrite E. cbn [field_tok]. rewrite Hfix. apply ws_str_eqb_refl. Qed.

(* a NaN cell (printed as the NULL text) that comes back NaN is a fixed point *)
Lemma back_tokb_nan j : readback j nt = CNaN -> back_tokb j nt = true.
Proof. intros E. unfold back_tokb. rewrite E. cbn [field_tok]. apply ws_str_eqb_refl. Qed.

(* ---- back_okb from the oracle hypothesis Hfix and the NULL rule --------------------------------- *)
(* a cell whose printed token comes back as the same kind of cell: a number as that number (it is
   not read as NaN and, outside the index column, does not equal NULL), NaN as NaN (the NULL
   text equals NULL; not in the index column, where the NULL rule does not apply) *)
Definition cell_backb (j : nat) (cl : cell) : bool :=
  match cl with
  | CNum t => match readback j (fmtv (col_fmt o j) t) with CNum t' => str_eqb t' (fmtv (col_fmt o j) t) | _ => false end
  | CNaN => match readback j nt with CNaN => true | _ => false end
  | CStr _ => false
  end.
Fixpoint row_backb (j : nat) (row : list cell) : bool :=
  match row with [] => true | cl :: r => cell_backb j cl && row_backb (S j) r end.

Lemma row_backb_toks (Hfix : forall f t, fmtv f (fmtv f t) = fmtv f t) : forall row j,
  row_backb j row = true -> back_rowb j (row_toks_from fmtv o nt j row) = true.
Proof.
  induction row as [|cl row IH]; intros j H; [reflexivity|]. cbn [row_backb] in H.
  apply andb_true_iff in H as [H1 H2]. cbn [row_toks_from back_rowb]. rewrite (IH (S j) H2), andb_true_r.
  destruct cl as [t| |s]; cbn [cell_backb field_tok] in *.
  - destruct (readback j (fmtv (col_fmt o j) t)) as [t'| |s'] eqn:E; try discriminate.
    apply ws_str_eqb_eq in H1. subst t'. apply (back_tokb_num Hfix j t E).
  - destruct (readback j nt) eqn:E; try discriminate. apply (back_tokb_nan j E).
  - discriminate.
Qed.

(* C11 step 2: under Hfix, rows whose cells come back as the same kind of cell print, after one
   read, the same tokens *)
Theorem back_okb_of_Hfix (Hfix : forall f t, fmtv f (fmtv f t) = fmtv f t) rows :
  forallb (row_backb 0) rows = true -> back_okb (tok_matrix fmtv o nt rows) = true.
Proof.
  intros H. unfold back_okb, tok_matrix. apply forallb_forall. intros toks Hin.
  apply in_map_iff in Hin as (row & <- & Hrow). rewrite forallb_forall in H.
  apply (row_backb_toks Hfix row 0%nat). apply H. exact Hrow.
Qed.

Variable c : nat.
Variable T : list (list (list N)).
Hypothesis Hc : (0 < c)%nat.
Hypothesis HTne : T <> [].
Hypothesis HTlen : Forall (fun toks : list (list N) => List.length toks = c) T.

Notation D := (data_result fhex numeq ro pn c T).

Lemma D_col j : (j < c)%nat ->
  nth j D [] = map (fun toks => readback j (nth j toks [])) T.
Proof.
  intros Hj. destruct (data_result_shape fhex numeq ro pn c T) as (_ & H). destruct (H j Hj) as (_ & E). rewrite E.
  unfold null_column, readback. rewrite (is_float_col_mk_num fhex (fun toks : list (list N) => nth j toks []) T), andb_true_r.
  destruct (o_null_strict ro && negb (Nat.eqb j 0)); [|reflexivity].
  rewrite map_map. reflexivity.
Qed.

Lemma D_length : List.length D = c.
Proof. apply (data_result_shape fhex numeq ro pn c T). Qed.

Lemma D_col_length j : (j < c)%nat -> List.length (nth j D []) = List.length T.
Proof. intros Hj. rewrite (D_col j Hj), map_length. reflexivity. Qed.

(* the rows the writer makes of the data read back *)
Lemma D_rows : Writer.data_rows D = map (fun i => map (fun col => nth i col CNaN) D) (seq 0 (List.length T)).
Proof.
  unfold Writer.data_rows. pose proof D_length as HL.
  destruct D as [|c0 cols] eqn:ED; [cbn in HL; lia|].
  assert (H0 : List.length c0 = List.length T).
  { pose proof (D_col_length 0 Hc) as X. rewrite ED in X. exact X. }
  rewrite H0.
  assert (Hall : forallb (fun col : list cell => Nat.eqb (List.length col) (List.length T)) (c0 :: cols) = true).
  { apply forallb_forall. intros col Hin. apply Nat.eqb_eq.
    destruct (In_nth _ _ [] Hin) as (j & Hj & <-). rewrite <- ED. apply D_col_length. rewrite <- HL. exact Hj. }
  rewrite Hall. reflexivity.
Qed.

Lemma las_rows_D (l' : las) : l_data l' = D -> List.length (s_items (l_curves l')) = c ->
  las_rows l' = map (fun i => map (fun col => nth i col CNaN) D) (seq 0 (List.length T)).
Proof.
  intros Hd Hn. unfold las_rows. rewrite Hd, Hn.
  pose proof (map_nth_seq (@nil cell) D) as X. rewrite D_length in X. rewrite X. apply D_rows.
Qed.

Lemma row_toks_ext : forall (r : list cell) (toks : list (list N)),
  List.length r = List.length toks ->
  (forall k cl, nth_error r k = Some cl -> field_tok fmtv o nt k cl = nth k toks []) ->
  row_toks fmtv o nt r = toks.
Proof.
  intros r toks Hl H. apply nth_ext with (d := []) (d' := []).
  - rewrite row_toks_length. exact Hl.
  - intros k Hk. rewrite row_toks_length in Hk.
    destruct (nth_error r k) as [cl|] eqn:E; [|apply nth_error_None in E; lia].
    rewrite (row_toks_nth fmtv o nt r k cl E). apply H. exact E.
Qed.

Hypothesis Hback : back_okb T = true.

(* C11, second cycle, data side: the token matrix of the second write is that of the first *)
Theorem second_tok_matrix (l' : las) :
  l_data l' = D -> List.length (s_items (l_curves l')) = c ->
  tok_matrix fmtv o nt (las_rows l') = T.
Proof.
  intros Hd Hn. rewrite (las_rows_D l' Hd Hn). unfold tok_matrix. rewrite map_map.
  apply nth_ext with (d := []) (d' := []); [rewrite map_length, seq_length; reflexivity|].
  intros i Hi. rewrite map_length, seq_length in Hi.
  rewrite (nth_indep _ [] ((fun i0 => row_toks fmtv o nt (map (fun col => nth i0 col CNaN) D)) 0%nat))
    by (rewrite map_length, seq_length; exact Hi).
  rewrite (map_nth (fun i0 => row_toks fmtv o nt (map (fun col => nth i0 col CNaN) D))), seq_nth by exact Hi.
  cbn [Nat.add].
  assert (Hrow : In (nth i T []) T) by (apply nth_In; exact Hi).
  assert (Hlen : List.length (nth i T []) = c) by (rewrite Forall_forall in HTlen; apply HTlen; exact Hrow).
  assert (Hb : back_rowb 0 (nth i T []) = true).
  { unfold back_okb in Hback. rewrite forallb_forall in Hback. apply Hback. exact Hrow. }
  apply row_toks_ext.
  - rewrite map_length, D_length, Hlen. reflexivity.
  - intros k cl Hk.
    assert (Hkc : (k < c)%nat).
    { rewrite <- D_length. rewrite <- (map_length (fun col : list cell => nth i col CNaN)). apply nth_error_Some. congruence. }
    rewrite nth_error_map in Hk. destruct (nth_error D k) as [col|] eqn:Ecol; [|discriminate]. injection Hk as <-.
    assert (Ecol' : col = nth k D []) by (symmetry; apply nth_error_nth; exact Ecol).
    rewrite Ecol', (D_col k Hkc).
    rewrite (nth_indep _ CNaN (readback k (nth k [] []))) by (rewrite map_length; exact Hi).
    rewrite (map_nth (fun toks => readback k (nth k toks []))).
    assert (Ht : nth_error (nth i T []) k = Some (nth k (nth i T []) [])) by (apply nth_error_nth'; rewrite Hlen; exact Hkc).
    apply (back_rowb_nth (nth i T []) 0 k _ Hb Ht).
Qed.

(* the index column read back *)
Lemma D_index : nth 0 D [] = map (fun toks => mk_num fhex (nth 0 toks [])) T.
Proof. apply data_result_index. exact Hc. Qed.

End WithOracles.

(* ---- the lines are a function of the tokens ----------------------------------------------------- *)
Section Lines.
Variable fmtv : list N -> list N -> list N.
Variable fmt_pi : list N -> list N.
Variable fstr : list N -> list N.
Variable o : wopts.
Variable nt : list N.

Lemma field_text_tok j cl cl' : field_tok fmtv o nt j cl = field_tok fmtv o nt j cl' ->
  field_text fmtv fmt_pi o j (Some nt) cl = field_text fmtv fmt_pi o j (Some nt) cl'.
Proof. intros H. unfold field_text. rewrite !cell_text_some, H. reflexivity. Qed.

Lemma row_text_toks : forall r1 r2 j, row_toks_from fmtv o nt j r1 = row_toks_from fmtv o nt j r2 ->
  row_text fmtv fmt_pi o (Some nt) j r1 = row_text fmtv fmt_pi o (Some nt) j r2.
Proof.
  induction r1 as [|a r1 IH]; destruct r2 as [|b r2]; cbn [row_toks_from]; intros j H; try discriminate; [reflexivity|].
  assert (H1 : field_tok fmtv o nt j a = field_tok fmtv o nt j b) by (exact (f_equal (hd []) H)).
  assert (H2 : row_toks_from fmtv o nt (S j) r1 = row_toks_from fmtv o nt (S j) r2) by (exact (f_equal (@tl _) H)).
  cbn [row_text]. rewrite (field_text_tok j a b H1), (IH r2 (S j) H2). reflexivity.
Qed.

Lemma rows_text_toks rows1 rows2 : tok_matrix fmtv o nt rows1 = tok_matrix fmtv o nt rows2 ->
  map (row_text fmtv fmt_pi o (Some nt) 0%nat) rows1 = map (row_text fmtv fmt_pi o (Some nt) 0%nat) rows2.
Proof.
  unfold tok_matrix. revert rows2. induction rows1 as [|r1 rows1 IH]; destruct rows2 as [|r2 rows2]; cbn [map];
    intros H; try discriminate; [reflexivity|].
  assert (H1 : row_toks fmtv o nt r1 = row_toks fmtv o nt r2) by (exact (f_equal (hd []) H)).
  assert (H2 : map (row_toks fmtv o nt) rows1 = map (row_toks fmtv o nt) rows2) by (exact (f_equal (@tl _) H)).
  rewrite (row_text_toks r1 r2 0%nat H1), (IH rows2 H2). reflexivity.
Qed.

Lemma firsts_toks : forall r1 r2 j, row_toks_from fmtv o nt j r1 = row_toks_from fmtv o nt j r2 ->
  map (fun jc => field_text fmtv fmt_pi o (fst jc) (Some nt) (snd jc)) (combine (seq j (List.length r1)) r1) =
  map (fun jc => field_text fmtv fmt_pi o (fst jc) (Some nt) (snd jc)) (combine (seq j (List.length r2)) r2).
Proof.
  induction r1 as [|a r1 IH]; destruct r2 as [|b r2]; cbn [row_toks_from]; intros j H; try discriminate; [reflexivity|].
  assert (H1 : field_tok fmtv o nt j a = field_tok fmtv o nt j b) by (exact (f_equal (hd []) H)).
  assert (H2 : row_toks_from fmtv o nt (S j) r1 = row_toks_from fmtv o nt (S j) r2) by (exact (f_equal (@tl _) H)).
  cbn [List.length seq combine map fst snd]. rewrite (field_text_tok j a b H1), (IH r2 (S j) H2). reflexivity.
Qed.

Lemma combine_sess {B C} (g : list N -> B -> C) : forall (cs : list hitem) (fs : list B),
  map (fun cw => g (i_sess (fst cw)) (snd cw)) (combine cs fs) =
  map (fun sw => g (fst sw) (snd sw)) (combine (map i_sess cs) fs).
Proof.
  induction cs as [|x cs IH]; intros fs; [reflexivity|]. destruct fs as [|f fs]; [reflexivity|].
  cbn [map combine fst snd]. rewrite IH. reflexivity.
Qed.

(* the ~A line and the data lines of two written forms agree when the token matrices, the NULL
   texts, the wrap flags and the session mnemonics of the curves agree *)
Theorem write_data_same (hs1 hs2 : hdr_sections) :
  las_null_text fstr (hs_las hs1) = Some nt -> las_null_text fstr (hs_las hs2) = Some nt ->
  tok_matrix fmtv o nt (las_rows (hs_las hs2)) = tok_matrix fmtv o nt (las_rows (hs_las hs1)) ->
  hs_wrap hs2 = hs_wrap hs1 ->
  (wo_mnemonics_header o = true ->
   map i_sess (s_items (l_curves (hs_las hs2))) = map i_sess (s_items (l_curves (hs_las hs1)))) ->
  write_data fmtv fmt_pi fstr o hs2 = write_data fmtv fmt_pi fstr o hs1.
Proof.
  intros N1 N2 HT Hw Hse. unfold write_data. cbv zeta.
  fold (las_rows (hs_las hs1)). fold (las_rows (hs_las hs2)).
  fold (las_null_text fstr (hs_las hs1)). fold (las_null_text fstr (hs_las hs2)).
  rewrite N1, N2, Hw, (rows_text_toks _ _ HT).
  destruct (wo_mnemonics_header o) eqn:Emh; [|reflexivity].
  specialize (Hse eq_refl).
  destruct (las_rows (hs_las hs2)) as [|r2 rows2] eqn:E2; destruct (las_rows (hs_las hs1)) as [|r1 rows1] eqn:E1;
    try discriminate HT.
  - assert (El : List.length (s_items (l_curves (hs_las hs2))) = List.length (s_items (l_curves (hs_las hs1))))
      by (rewrite <- (map_length i_sess), Hse, map_length; reflexivity).
    destruct (s_items (l_curves (hs_las hs2))), (s_items (l_curves (hs_las hs1))); try discriminate El; reflexivity.
  - unfold tok_matrix in HT. cbn [map] in HT.
    assert (H1 : row_toks fmtv o nt r2 = row_toks fmtv o nt r1) by (exact (f_equal (hd []) HT)).
    rewrite (firsts_toks r2 r1 0%nat H1).
    destruct (opt_all _) as [firsts|]; [|reflexivity]. cbn [bind].
    rewrite (combine_sess (fun mn (w : list N) =>
               rjust (if Nat.ltb (List.length w - 1) (List.length mn) then S (List.length mn) else List.length w) 32 mn)
               (s_items (l_curves (hs_las hs2))) firsts).
    rewrite (combine_sess (fun mn (w : list N) =>
               rjust (if Nat.ltb (List.length w - 1) (List.length mn) then S (List.length mn) else List.length w) 32 mn)
               (s_items (l_curves (hs_las hs1))) firsts).
    rewrite Hse. reflexivity.
Qed.

End Lines.
