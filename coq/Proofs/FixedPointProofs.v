(* Proofs.FixedPointProofs — writer-side ingredients of C11 (lasio's own output is a fixed point
   of read -> write): values left in memory by write are fixed points of the normalisations,
   re-printing printed tokens changes nothing (under the oracle hypothesis that printing is
   idempotent), and the generic induction over the number of cycles. *)
From Coq Require Import List NArith ZArith Bool Arith String Lia.
Import ListNotations.
Require Import PyStr Regex NumLit Num Tables SectionParse DataRead Read TextWrap Writer
               WriteStateProofs WriteIdemProofs.
Open Scope list_scope.
Open Scope N_scope.

(* ---- values ------------------------------------------------------------------------------------- *)
Section Values.
Variable fmtv : list N -> list N -> list N.
Variable fmt_diff : list N -> list N -> list N -> list N.
Variable fmt_pi : list N -> list N.
Variable fstr : list N -> list N.
Variable fzero : list N -> bool.
Variable numeq : list N -> list N -> bool.

Definition value_fixed (it : hitem) : Prop := standardize fzero (i_value it) (i_unit it) = i_value it.

Lemma stdf_value_fixed it : value_fixed (stdf fzero it).
Proof. unfold value_fixed, stdf, set_value. simpl. apply standardize_idem. Qed.

Lemma Forall_map_gen {A B} (P : B -> Prop) (f : A -> B) (H : forall a, P (f a)) : forall l, Forall P (map f l).
Proof. induction l; simpl; constructor; auto. Qed.

(* every ~Well and ~Parameter value that write leaves in memory is a fixed point of
   standardize_value: the next write will not change it *)
Theorem write_values_fixed o m text m' :
  write fmtv fmt_diff fmt_pi fstr fzero numeq o m = WOk text m' ->
  Forall value_fixed (s_items (l_well (m_las m'))) /\ Forall value_fixed (s_items (l_params (m_las m'))).
Proof.
  intro H. destruct (write_ok_inv _ _ _ _ _ _ _ _ _ _ H) as (wrap & l1 & v & l2 & _ & _ & _ & -> & _).
  cbn [m_las].
  change (s_items (l_well (norm_las fzero l2))) with (map (stdf fzero) (s_items (l_well l2))).
  change (s_items (l_params (norm_las fzero l2))) with (map (stdf fzero) (s_items (l_params l2))).
  split; apply Forall_map_gen; apply stdf_value_fixed.
Qed.

(* what update_start_stop_step computes is a text (or None for STEP / an empty index), never a
   number: re-reading it is the reader's business, re-writing it prints the same characters *)
Lemma refreshed_is_text f c : exists s, fmt_index_cell fmtv f c = VStr s.
Proof. destruct c; eexists; reflexivity. Qed.

Lemma strt_of_shape f idx : strt_of fmtv f idx = VNone \/ exists s, strt_of fmtv f idx = VStr s.
Proof. unfold strt_of. destruct idx as [|c ?]; [left; reflexivity|right; apply refreshed_is_text]. Qed.

Lemma stop_of_shape f idx : stop_of fmtv f idx = VNone \/ exists s, stop_of fmtv f idx = VStr s.
Proof. unfold stop_of. destruct (rev idx) as [|c ?]; [left; reflexivity|right; apply refreshed_is_text]. Qed.

Lemma step_of_shape f idx : step_of fmtv fmt_diff f idx = VNone \/ exists s, step_of fmtv fmt_diff f idx = VStr s.
Proof.
  unfold step_of. destruct idx as [|c0 [|c1 ?]]; try (left; reflexivity).
  match goal with |- (if ?c then _ else _) = _ \/ _ => destruct c end; [left; reflexivity|].
  destruct c0, c1; cbn [step_text]; try (left; reflexivity); right; eexists; reflexivity.
Qed.

End Values.

(* ---- data tokens -------------------------------------------------------------------------------- *)
Section Tokens.
Variable fmtv : list N -> list N -> list N.
(* ORACLE hypothesis: printing a printed value with the same format gives the same text
   ("%.5f" % float("%.5f" % x) == "%.5f" % x) *)
Hypothesis Hfix : forall f t, fmtv f (fmtv f t) = fmtv f t.

Theorem tokens_fixed f toks : map (fmtv f) (map (fmtv f) toks) = map (fmtv f) toks.
Proof. rewrite map_map. apply map_ext. intro t. apply Hfix. Qed.

(* a cell as the reader gets it back from the printed text *)
Definition reprint_cell (f : list N) (c : cell) : cell :=
  match c with CNum t => CNum (fmtv f t) | _ => c end.

Lemma reprint_cell_idem f c : reprint_cell f (reprint_cell f c) = reprint_cell f c.
Proof. destruct c; simpl; [rewrite Hfix|..]; reflexivity. Qed.

Lemma cell_text_reprint f nt c : cell_text fmtv f nt (reprint_cell f c) = cell_text fmtv f nt c.
Proof. destruct c; simpl; [rewrite Hfix|..]; reflexivity. Qed.

Theorem column_reprint_idem f col :
  map (reprint_cell f) (map (reprint_cell f) col) = map (reprint_cell f) col.
Proof. rewrite map_map. apply map_ext. intro c. apply reprint_cell_idem. Qed.

Theorem column_text_fixed f nt col :
  map (cell_text fmtv f nt) (map (reprint_cell f) col) = map (cell_text fmtv f nt) col.
Proof. rewrite map_map. apply map_ext. intro c. apply cell_text_reprint. Qed.

(* k cycles print what one cycle prints: no accumulating loss *)
Theorem column_text_cycles f nt col k :
  map (cell_text fmtv f nt) (Nat.iter k (map (reprint_cell f)) col) = map (cell_text fmtv f nt) col.
Proof.
  induction k as [|k IH]; [reflexivity|]. simpl. rewrite column_text_fixed. exact IH.
Qed.

End Tokens.

(* ---- cycles --------------------------------------------------------------------------------------- *)
Section Cycles.
Variable X : Type.
Variable F : X -> X.                  (* one load/save cycle on accepted states *)
Variable R : X -> X -> Prop.          (* observational equality *)
Variable P : X -> Prop.               (* accepted *)
Hypothesis R_refl : forall x, R x x.
Hypothesis R_trans : forall x y z, R x y -> R y z -> R x z.
Hypothesis F_resp : forall x y, R x y -> R (F x) (F y).
Hypothesis F_fix : forall x, P x -> R (F (F x)) (F x).

Theorem cycles_fixed x k : P x -> (1 <= k)%nat -> R (Nat.iter k F x) (F x).
Proof.
  intros Hx Hk. induction k as [|k IH]; [lia|].
  destruct k as [|k]; [apply R_refl|].
  change (Nat.iter (S (S k)) F x) with (F (Nat.iter (S k) F x)).
  eapply R_trans; [apply F_resp; apply IH; lia|apply F_fix; exact Hx].
Qed.

End Cycles.
