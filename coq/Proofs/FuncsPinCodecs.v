(* Proofs.FuncsPinCodecs — Model/Channels.open_with_codecs (choose_encoding: the BOM probe on the first
   min(32, size) bytes, an explicit encoding, chardet on the first autodetect_encoding_chars bytes, the ad-hoc
   list; then io.open) IS reader.open_with_codecs (Gen/Funcs.v: py_open_with_codecs, re-translated from /repo on
   every run): the three `if` blocks in source order with their updates of `encoding` and `autodetect_encoding`.
   The file system and the helpers are operations of world_ops, read here through the model's world (fs, decode,
   chardet, readline_ok): get_encoding and adhoc_test_encoding stay hand-modelled.  None = the call raises
   (which exception is not part of the statement).  Restated as C10_open_with_codecs_current. *)
From Coq Require Import List Arith NArith ZArith Bool Lia ZifyBool ZifyN ZifyNat String.
Import ListNotations.
Require Import PyStr Funcs Channels.
Open Scope list_scope.
Open Scope N_scope.

Definition pyauto (a : autoval) : py_autoval :=
  match a with AutoTrue => PyTrue | AutoFalse => PyFalse | AutoStr s => PyStr s end.
Definition autoval_of (a : py_autoval) : autoval :=
  match a with PyTrue => AutoTrue | PyFalse => AutoFalse | PyStr s => AutoStr s end.
Definition ok_of {A : Type} (r : cres A) : option A := match r with COk a => Some a | CErr _ => None end.

Section World.
  Variable fs : str -> option (list N).
  Variable decode : str -> str -> list N -> option str.
  Variable chardet_installed : bool.
  Variable chardet_detect : list N -> option str.
  Variable readline_ok : str -> list N -> bool.
  Variable locale_encoding : str.
  Variable unl : str -> str.

  (* os.path.getsize, open(p, "rb").read(n), get_encoding, adhoc_test_encoding, io.open(...) as the model's world *)
  Definition model_world : world_ops str :=
    mk_world_ops str
      (fun p => option_map (fun b => Z.of_nat (List.length b)) (fs p))
      (fun p n => option_map (fun b => firstn (Z.to_nat n) b) (fs p))
      (fun p n => option_map (fun b => match n with None => b | Some k => firstn (Z.to_nat k) b end) (fs p))
      (fun a raw => ok_of (get_encoding chardet_installed chardet_detect (autoval_of a) raw))
      (fun p => option_map (adhoc_test_encoding readline_ok) (fs p))
      (fun p enc errors => match fs p with
                           | Some b => ok_of (io_open_text decode locale_encoding unl b enc errors)
                           | None => None
                           end).

  Lemma firstn_min32 : forall (b : list N), firstn (Z.to_nat (Z.min 32 (Z.of_nat (List.length b)))) b = firstn 32 b.
  Proof.
    intros b. destruct (Nat.le_gt_cases 32 (List.length b)) as [H|H].
    - replace (Z.to_nat (Z.min 32 (Z.of_nat (List.length b)))) with 32%nat by lia. reflexivity.
    - replace (Z.to_nat (Z.min 32 (Z.of_nat (List.length b)))) with (List.length b) by lia.
      rewrite firstn_all, firstn_all2 by lia. reflexivity.
  Qed.

  Lemma auto_truthy_same : forall a, pyo_auto_truthy (pyauto a) = auto_truthy a.
  Proof. intros [| |[|c s]]; reflexivity. Qed.
  Lemma enc_truthy_same : forall e, pyo_opt_truthy pyo_truthy_str e = enc_truthy e.
  Proof. intros [[|c s]|]; reflexivity. Qed.

  Theorem open_with_codecs_pin : forall (p : str) (k : kwargs),
    py_open_with_codecs model_world p (kw_encoding k) (kw_errors k) (pyauto (kw_auto k)) (option_map Z.of_N (kw_nchars k))
    = ok_of (open_with_codecs fs decode chardet_installed chardet_detect readline_ok locale_encoding unl p k).
  Proof.
    intros p [enc errors auto nchars]. unfold py_open_with_codecs, open_with_codecs, choose_encoding. cbn [kw_encoding kw_errors kw_auto kw_nchars].
    cbn [model_world w_getsize w_read w_read_opt w_get_encoding w_adhoc w_io_open].
    (* nbytes *)
    assert (Hnb : (if pyo_opt_truthy (fun z_ : Z => negb (z_ =? 0)%Z) (option_map Z.of_N nchars)
                   then obind (obind (option_map Z.of_N nchars) (fun t2_ : Z => Some (Some t2_))) (fun v_nbytes : option Z => Some v_nbytes)
                   else Some None) = Some (option_map Z.of_N (nbytes_of nchars))).
    { destruct nchars as [[|q]|]; reflexivity. }
    rewrite Hnb. cbn [obind]. clear Hnb.
    destruct (fs p) as [b|]; [|reflexivity]. cbn [option_map obind]. rewrite firstn_min32.
    change (startswith [239; 187; 191] (firstn 32 b)) with (has_bom b). unfold step_bom. destruct (has_bom b) eqn:Hbom.
    - (* BOM: utf-8-sig, nothing else is consulted *)
      cbn [pyo_auto_truthy andb obind negb]. unfold step_detect, step_adhoc. cbn [o_auto o_enc auto_truthy andb negb].
      cbn [pyo_opt_truthy pyo_truthy_str negb andb obind enc_truthy].
      change enc_utf8sig with [117; 116; 102; 45; 56; 45; 115; 105; 103]. cbn [negb o_enc].
      destruct (io_open_text decode locale_encoding unl b (Some [117; 116; 102; 45; 56; 45; 115; 105; 103]) errors); reflexivity.
    - unfold step_detect. cbn [o_auto o_enc]. rewrite auto_truthy_same, enc_truthy_same.
      destruct (auto_truthy auto && negb (enc_truthy enc)) eqn:Hdet.
      + cbn [option_map obind].
        assert (Hread : match option_map Z.of_N (nbytes_of nchars) with None => b | Some k => firstn (Z.to_nat k) b end
                        = read_n (nbytes_of nchars) b).
        { unfold read_n. destruct (nbytes_of nchars) as [q|]; [|reflexivity]. cbn [option_map]. f_equal. lia. }
        rewrite Hread. replace (autoval_of (pyauto auto)) with auto by (destruct auto; reflexivity).
        destruct (get_encoding chardet_installed chardet_detect auto (read_n (nbytes_of nchars) b)) as [e|x]; [|reflexivity].
        cbn [ok_of obind]. unfold step_adhoc. cbn [o_auto o_enc auto_truthy pyo_auto_truthy negb andb].
        rewrite enc_truthy_same. destruct (enc_truthy e); cbn [negb obind option_map o_enc o_auto];
          match goal with |- context [io_open_text ?a ?b0 ?c ?d ?e0 ?f] => destruct (io_open_text a b0 c d e0 f) end; reflexivity.
      + cbn [obind]. unfold step_adhoc. cbn [o_auto o_enc]. rewrite auto_truthy_same, enc_truthy_same.
        destruct (negb (auto_truthy auto) && negb (enc_truthy enc)); cbn [obind option_map o_enc o_auto];
          match goal with |- context [io_open_text ?a ?b0 ?c ?d ?e0 ?f] => destruct (io_open_text a b0 c d e0 f) end; reflexivity.
  Qed.
End World.
