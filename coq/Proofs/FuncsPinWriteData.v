(* Proofs.FuncsPinWriteData — the data-section layout of Model/Writer.v IS the code of writer.write
   (Gen/Funcs.v, re-translated from /repo on every run):

     lnf_pin            field_width (LAuto)   = the `if len_numeric_field is None:` block (the while loop on
                                                 fmt % np.pi; its fuel never runs out)
     col_fmt_pin        col_fmt               = the nested get_column_fmt
     left_spacing_pin   lhs_spacer / spacer   = the nested get_left_spacing
     field_text_pin     field_text            = the nested format_data_section_line applied to the column's
                                                 format, the field width and the column's spacing

   A sample is a cell; cell_wops reads the external operations on it: np.isnan(x) and fmt % x raise
   TypeError on text (then str(x) is written), a NaN sample is written as str(NULL value) (null_text; None:
   ~Well has no NULL item, KeyError), fmt % x of a number is the oracle fmtv, fmt % np.pi the oracle fmt_pi.
   Restated as C01_lnf_current, C01_col_fmt_current, C01_spacing_current, C01_field_current. *)
From Coq Require Import List Arith NArith ZArith Bool Lia ZifyBool ZifyNat String.
Import ListNotations.
Require Import PyStr Regex NumLit Num Tables SectionParse DataRead Read TextWrap Writer Funcs.
Open Scope list_scope.

Section Pin.
Variable fmtv : list N -> list N -> list N.
Variable fmt_pi : list N -> list N.

Definition cell_wops : write_ops cell :=
  mk_write_ops cell
    (fun c => match c with CNum _ => Some false | CNaN => Some true | CStr _ => None end)       (* np.isnan(x) *)
    (fun f c => match c with CNum t => Some (fmtv f t) | CNaN => Some (fmtv f [110; 97; 110]%N) | CStr _ => None end)
    (fun c => match c with CStr s => s | CNum t => t | CNaN => [110; 97; 110]%N end)            (* str(x), reached for text *)
    fmt_pi
    (fun w line => TextWrap.wrap (Z.to_nat w) line).

(* len_numeric_field as an int: -1 = no padding *)
Definition lnf_z (o : wopts) : Z :=
  match field_width fmt_pi o with Some n => Z.of_nat n | None => (-1)%Z end.
(* column_fmt as the dict it is *)
Definition cfmt_dict (o : wopts) : list (Z * list N) :=
  List.map (fun kv => (Z.of_nat (fst kv), snd kv)) (wo_column_fmt o).

(* ---------- len_numeric_field ------------------------------------------------------------------------- *)
Definition lnf_fix (plen : nat) : nat -> Z -> option Z :=
  fix loop_ (fuel_ : nat) (st_ : Z) {struct fuel_} : option Z :=
    match fuel_ with
    | O => None
    | S fuel_0 => if (st_ - 1 <? Z.of_nat plen)%Z then loop_ fuel_0 (st_ + 1)%Z else Some st_
    end.

Lemma lnf_loop : forall plen f n, (1 <= n)%nat -> (plen + 2 <= S f + n)%nat ->
  lnf_fix plen (S f) (Z.of_nat n) = Some (Z.of_nat (auto_lnf (S f) plen n)).
Proof.
  intros plen. induction f as [|f IH]; intros n Hn Hf.
  - cbn [auto_lnf lnf_fix]. replace (Z.of_nat n - 1 <? Z.of_nat plen)%Z with false by lia.
    replace (Nat.ltb (n - 1) plen) with false by lia. reflexivity.
  - cbn [auto_lnf]. change (lnf_fix plen (S (S f)) (Z.of_nat n))
      with (if (Z.of_nat n - 1 <? Z.of_nat plen)%Z then lnf_fix plen (S f) (Z.of_nat n + 1)%Z else Some (Z.of_nat n)).
    replace (Z.of_nat n - 1 <? Z.of_nat plen)%Z with (Nat.ltb (n - 1) plen) by lia.
    destruct (Nat.ltb (n - 1) plen) eqn:E; [|reflexivity].
    replace (Z.of_nat n + 1)%Z with (Z.of_nat (S n)) by lia. apply IH; lia.
Qed.

Theorem lnf_pin : forall fmt,
  py_len_numeric_field cell_wops None fmt
  = Some (Z.of_nat (let plen := List.length (fmt_pi fmt) in auto_lnf (S plen) plen 10)).
Proof.
  intros fmt. cbv zeta. set (plen := List.length (fmt_pi fmt)).
  change (py_len_numeric_field cell_wops None fmt)
    with (obind (obind (lnf_fix plen (S (Z.to_nat (Z.of_nat plen))) (Z.of_nat 10)) (fun v => Some v)) (fun v => Some v)).
  rewrite Nat2Z.id, lnf_loop by lia. reflexivity.
Qed.

Theorem lnf_given_pin : forall fmt z, py_len_numeric_field cell_wops (Some z) fmt = Some z.
Proof. reflexivity. Qed.

(* ---------- get_column_fmt ---------------------------------------------------------------------------- *)
Lemma idict_item_find : forall (l : list (nat * list N)) j,
  pyo_idict_item (List.map (fun kv => (Z.of_nat (fst kv), snd kv)) l) (Z.of_nat j)
  = option_map snd (List.find (fun kv => Nat.eqb (fst kv) j) l).
Proof.
  induction l as [|[k v] l IH]; intros j; [reflexivity|]. cbn [map pyo_idict_item List.find fst snd].
  replace (Z.of_nat k =? Z.of_nat j)%Z with (Nat.eqb k j) by lia.
  destruct (Nat.eqb k j); [reflexivity|apply IH].
Qed.

Theorem col_fmt_pin : forall o j,
  py_get_column_fmt (Z.of_nat j) (cfmt_dict o) (wo_fmt o) = Some (col_fmt o j).
Proof.
  intros o j. unfold py_get_column_fmt, col_fmt, cfmt_dict. rewrite idict_item_find.
  destruct (List.find _ (wo_column_fmt o)) as [kv|]; reflexivity.
Qed.

(* ---------- get_left_spacing -------------------------------------------------------------------------- *)
Theorem left_spacing_pin : forall j lhs sp,
  py_get_left_spacing (Z.of_nat j) lhs sp = if Nat.eqb j 0 then lhs else sp.
Proof.
  intros j lhs sp. unfold py_get_left_spacing. cbv zeta.
  replace (Z.of_nat j =? 0)%Z with (Nat.eqb j 0) by lia. destruct (Nat.eqb j 0); reflexivity.
Qed.

(* ---------- format_data_section_line ------------------------------------------------------------------ *)
Lemma rjust_same : forall (s : list N) w, pyo_rjust s (Z.of_nat w) = rjust w 32%N s.
Proof. intros s w. unfold pyo_rjust, rjust, repeat_ch, pyo_len. f_equal. f_equal. lia. Qed.

Theorem field_text_pin : forall o j null_text c,
  py_format_data_section_line cell_wops c (col_fmt o j) (lnf_z o) (if Nat.eqb j 0 then wo_lhs_spacer o else wo_spacer o) null_text
  = field_text fmtv fmt_pi o j null_text c.
Proof.
  intros o j nt c. unfold py_format_data_section_line, field_text, cell_text, lnf_z. cbv zeta.
  cbn [cell_wops s_isnan s_fmt s_str].
  assert (Hw : forall v : list N,
            (if negb (match field_width fmt_pi o with Some n => Z.of_nat n | None => (-1)%Z end =? - (1))%Z
             then pyo_rjust v (match field_width fmt_pi o with Some n => Z.of_nat n | None => (-1)%Z end) else v)
            = match field_width fmt_pi o with Some l => rjust l 32%N v | None => v end).
  { intros v. destruct (field_width fmt_pi o) as [n|]; [|reflexivity].
    replace (Z.of_nat n =? - (1))%Z with false by lia. cbn [negb]. apply rjust_same. }
  destruct c as [t| |s]; cbn [obind]; [rewrite Hw; reflexivity| |rewrite Hw; reflexivity].
  destruct nt as [v|]; cbn [obind]; [rewrite Hw; reflexivity|reflexivity].
Qed.

(* ---------- the rows of the data section ------------------------------------------------------------------ *)
(* row i of the columns; the columns of write() are the curves' data, all nrows long (else np.vstack raises
   and nrows = ncols = 0) *)
Definition rows_of (nrows : nat) (cols : list (list cell)) : list (list cell) :=
  List.map (fun i => List.map (fun c => nth i c CNaN) cols) (seq 0 nrows).

Lemma data_rows_rows_of : forall c0 cols, (forall c, In c (c0 :: cols) -> List.length c = List.length c0) ->
  data_rows (c0 :: cols) = rows_of (List.length c0) (c0 :: cols).
Proof.
  intros c0 cols H. unfold data_rows, rows_of.
  replace (forallb (fun c => Nat.eqb (List.length c) (List.length c0)) (c0 :: cols)) with true; [reflexivity|].
  symmetry. apply forallb_forall. intros c Hc. apply Nat.eqb_eq. apply H. exact Hc.
Qed.

Lemma list_item_nat {A : Type} : forall (l : list A) k, (k < List.length l)%nat ->
  pyo_list_item l (Z.of_nat k) = nth_error l k.
Proof.
  intros l k H. unfold pyo_list_item, pyo_lindex.
  destruct (Z.of_nat k <? 0)%Z eqn:E; [lia|].
  destruct ((0 <=? Z.of_nat k) && (Z.of_nat k <? Z.of_nat (List.length l)))%Z eqn:E2; [|lia].
  rewrite Nat2Z.id. reflexivity.
Qed.

Lemma fold_none {A B : Type} (f : option A -> B -> option A) :
  (forall b, f None b = None) -> forall l, fold_left f l None = None.
Proof. intros H l. induction l as [|b l IH]; [reflexivity|]. cbn [fold_left]. rewrite H. exact IH. Qed.

Lemma flat_map_single {A : Type} : forall l : list A, flat_map (fun x => [x]) l = l.
Proof. induction l as [|x l IH]; [reflexivity|]. cbn [flat_map app]. rewrite IH. reflexivity. Qed.

Definition emit (lines : list (list N)) : list N := flat_map (fun ln => ln ++ [10%N]) lines.

Theorem data_rows_pin : forall o null_text cols nrows wrap lines lc out,
  (forall c, In c cols -> List.length c = nrows) ->
  py_write_data_rows cell_wops (Z.of_nat nrows) (Z.of_nat (List.length cols)) cols wrap (Z.of_nat (wo_data_width o))
    lines lc out (cfmt_dict o) (wo_fmt o) (wo_lhs_spacer o) (wo_spacer o) (lnf_z o) null_text
  = option_map (fun rts => out ++ emit (if wrap then flat_map (TextWrap.wrap (wo_data_width o)) rts else rts))
               (opt_all (List.map (row_text fmtv fmt_pi o null_text 0) (rows_of nrows cols))).
Proof.
  intros o nt cols nrows wrap lines lc out Hrect. unfold py_write_data_rows. cbv zeta.
  set (ncols := List.length cols).
  match goal with |- obind (fold_left ?b _ _) _ = _ => set (body := b) end.
  (* one row *)
  assert (Hrow : forall i, (i < nrows)%nat -> forall n a acc, (a + n = ncols)%nat ->
            fold_left (fun (t : option (list N)) (v_j : Z) =>
              obind t (fun v_depth_slice =>
                obind (py_get_column_fmt v_j (cfmt_dict o) (wo_fmt o)) (fun v_col_fmt =>
                  obind (obind (obind (obind (obind (obind (pyo_list_item cols v_j)
                      (fun t9 => Some (pyo_list_item t9 (Z.of_nat i)))) (fun t10 => t10))
                      (fun t11 => Some (py_format_data_section_line cell_wops t11 v_col_fmt (lnf_z o)
                                          (py_get_left_spacing v_j (wo_lhs_spacer o) (wo_spacer o)) nt)))
                      (fun t12 => t12)) (fun t13 => Some (v_depth_slice ++ t13)))
                    (fun v_depth_slice0 => Some v_depth_slice0))))
              (List.map Z.of_nat (seq a n)) (Some acc)
            = option_map (app acc) (row_text fmtv fmt_pi o nt a (List.map (fun c => nth i c CNaN) (skipn a cols)))).
  { intros i Hi. induction n as [|n IH]; intros a acc Ha.
    - cbn [seq map fold_left]. rewrite skipn_all2 by (fold ncols; lia). cbn [map row_text option_map]. rewrite app_nil_r. reflexivity.
    - cbn [seq map fold_left obind].
      assert (Hlt : (a < List.length cols)%nat) by (fold ncols; lia).
      destruct (nth_error cols a) as [c|] eqn:Ec; [|apply nth_error_None in Ec; lia].
      assert (Hsk : skipn a cols = c :: skipn (S a) cols).
      { clear - Ec. revert a Ec. induction cols as [|x l IHl]; intros [|a] Ec; try discriminate Ec.
        - injection Ec as ->. reflexivity.
        - cbn [skipn]. apply IHl. exact Ec. }
      rewrite Hsk. cbn [map row_text].
      rewrite col_fmt_pin, left_spacing_pin. cbn [obind]. rewrite list_item_nat, Ec by exact Hlt. cbn [obind].
      assert (Hc : List.length c = nrows) by (apply Hrect; eapply nth_error_In; exact Ec).
      rewrite list_item_nat by lia. rewrite (nth_error_nth' c CNaN) by lia. cbn [obind].
      rewrite field_text_pin.
      destruct (field_text fmtv fmt_pi o a nt (nth i c CNaN)) as [fa|]; cbn [obind].
      + rewrite IH by lia.
        destruct (row_text fmtv fmt_pi o nt (S a) (List.map (fun c0 => nth i c0 CNaN) (skipn (S a) cols))); cbn [option_map];
          [rewrite app_assoc; reflexivity|reflexivity].
      + apply fold_none. reflexivity. }
  (* the lines of one row *)
  assert (Hlines : forall (ls : list (list N)) (o1 : list N) (c1 : Z),
            fst (fold_left (fun '(v_out_, v_line_counter) (v_line : list N) => ((v_out_ ++ v_line ++ [10%N]), (v_line_counter + 1)%Z)) ls (o1, c1))
            = o1 ++ emit ls).
  { induction ls as [|l ls IH]; intros o1 c1; [cbn; rewrite app_nil_r; reflexivity|].
    cbn [fold_left]. rewrite IH. unfold emit. cbn [flat_map]. rewrite <- !app_assoc. reflexivity. }
  (* all rows *)
  assert (Hrows : forall n a ls o1 c1, (a + n = nrows)%nat ->
            option_map (fun st => snd (fst st)) (fold_left body (List.map Z.of_nat (seq a n)) (Some (ls, o1, c1)))
            = option_map (fun rts => o1 ++ emit (flat_map (fun ds => if wrap then TextWrap.wrap (wo_data_width o) ds else [ds]) rts))
                (opt_all (List.map (row_text fmtv fmt_pi o nt 0) (List.map (fun i => List.map (fun c => nth i c CNaN) cols) (seq a n))))).
  { induction n as [|n IH]; intros a ls o1 c1 Ha.
    - cbn. unfold emit. cbn. rewrite app_nil_r. reflexivity.
    - cbn [seq map fold_left]. unfold body at 2. cbn [obind].
      unfold pyo_range. rewrite Nat2Z.id. fold ncols.
      pose proof (Hrow a ltac:(lia) ncols 0%nat [] eq_refl) as Hr. cbn [skipn app] in Hr.
      match goal with |- context [fold_left ?f (List.map Z.of_nat (seq 0 ncols)) (Some [])] =>
        change (fold_left f (List.map Z.of_nat (seq 0 ncols)) (Some [])) with
          (fold_left (fun (t : option (list N)) (v_j : Z) =>
              obind t (fun v_depth_slice =>
                obind (py_get_column_fmt v_j (cfmt_dict o) (wo_fmt o)) (fun v_col_fmt =>
                  obind (obind (obind (obind (obind (obind (pyo_list_item cols v_j)
                      (fun t9 => Some (pyo_list_item t9 (Z.of_nat a)))) (fun t10 => t10))
                      (fun t11 => Some (py_format_data_section_line cell_wops t11 v_col_fmt (lnf_z o)
                                          (py_get_left_spacing v_j (wo_lhs_spacer o) (wo_spacer o)) nt)))
                      (fun t12 => t12)) (fun t13 => Some (v_depth_slice ++ t13)))
                    (fun v_depth_slice0 => Some v_depth_slice0))))
              (List.map Z.of_nat (seq 0 ncols)) (Some []))
      end.
      rewrite Hr.
      destruct (row_text fmtv fmt_pi o nt 0 (List.map (fun c => nth a c CNaN) cols)) as [ds|]; cbn [option_map obind opt_all].
      + cbv zeta.
        match goal with |- context [fold_left ?f ?l (o1, c1)] => 
          pose proof (Hlines l o1 c1) as Hl; destruct (fold_left f l (o1, c1)) as [o2 c2] eqn:Ef end.
        cbn [fst] in Hl. subst o2.
        rewrite IH by lia.
        destruct (opt_all _) as [rts|]; cbn [option_map]; [|reflexivity].
        cbn [flat_map]. unfold emit. rewrite flat_map_app, <- app_assoc. cbn [cell_wops w_wrap]. rewrite Nat2Z.id.
        destruct wrap; reflexivity.
      + rewrite fold_none by reflexivity. reflexivity. }
  unfold pyo_range at 1. rewrite Nat2Z.id.
  pose proof (Hrows nrows 0%nat lines out lc eq_refl) as H. fold (rows_of nrows cols) in H.
  destruct (fold_left body (List.map Z.of_nat (seq 0 nrows)) (Some (lines, out, lc))) as [[[l1 o1] c1]|];
    destruct (opt_all (List.map (row_text fmtv fmt_pi o nt 0) (rows_of nrows cols))) as [rts|];
    cbn [option_map obind fst snd] in *; try discriminate H; [|reflexivity].
  injection H as ->. f_equal. f_equal. f_equal. destruct wrap; [reflexivity|apply flat_map_single].
Qed.

End Pin.
