(* Proofs.ReadInvProofs — presentation-only changes of the text do not change what the
   consumers of the lines compute (C09), function by function:
   * blank / comment lines in the header-items loop and in both data engines;
   * white space around a line (hence CRLF line ends and a missing final newline): every
     consumer looks at the stripped line only (the numpy engine: at split(cut_comment line));
   * re-wrapping: the normal engine reads the concatenation of the per-line token lists;
   * the amount of white space between tokens.                                            *)
From Coq Require Import List Arith NArith Bool Lia ZifyBool ZifyN ZifyNat String.
Import ListNotations.
Require Import PyStr Regex Regexes NumLit Num HeaderLine Tables SectionParse Sections DataRead Read.
Require Import RegexSubFacts SplitWsFacts StripFacts JunkProofs.
Open Scope string_scope.
Open Scope list_scope.
Open Scope N_scope.

(* ======================================================================================= *)
(* header sections                                                                         *)
(* ======================================================================================= *)
Section Header.
Variables (v : las_version) (k : skind) (c : mcase) (ig : bool) (cc : list N) (tr : bool).

Lemma parse_body_skip_one x rest acc : classify v k c cc x = LSkip ->
  parse_body v k c ig cc tr (x :: rest) acc = parse_body v k c ig cc tr rest acc.
Proof. intros H. rewrite parse_body_cons, H. reflexivity. Qed.

Lemma classify_blank x : strip x = [] -> classify v k c cc x = LSkip.
Proof. intros E. unfold classify. rewrite E. reflexivity. Qed.

Lemma classify_comment x ch r : strip x = ch :: r -> in_str ch cc = true -> classify v k c cc x = LSkip.
Proof. intros E H. unfold classify. rewrite E, H. reflexivity. Qed.

(* a line the loop skips can be inserted (or removed) at any site *)
Theorem parse_body_skip_anywhere a x b acc : classify v k c cc x = LSkip ->
  parse_body v k c ig cc tr (a ++ x :: b) acc = parse_body v k c ig cc tr (a ++ b) acc.
Proof. intros H. apply parse_body_app_congr. intros acc'. apply parse_body_skip_one. exact H. Qed.

Theorem blank_header a x b acc : strip x = [] ->
  parse_body v k c ig cc tr (a ++ x :: b) acc = parse_body v k c ig cc tr (a ++ b) acc.
Proof. intros E. apply parse_body_skip_anywhere. apply classify_blank. exact E. Qed.

Theorem comment_header a x b acc ch r : strip x = ch :: r -> in_str ch cc = true ->
  parse_body v k c ig cc tr (a ++ x :: b) acc = parse_body v k c ig cc tr (a ++ b) acc.
Proof. intros E H. apply parse_body_skip_anywhere. apply (classify_comment x ch r); assumption. Qed.

(* any number of skipped lines at any sites *)
Theorem parse_body_ins_skipped lines lines' acc :
  ins_lines (fun x => classify v k c cc x = LSkip) lines lines' ->
  parse_body v k c ig cc tr lines' acc = parse_body v k c ig cc tr lines acc.
Proof.
  intros H. revert acc. induction H as [|j l l' Hj H IH|x l l' H IH]; intros acc.
  - reflexivity.
  - rewrite parse_body_skip_one by exact Hj. apply IH.
  - rewrite !parse_body_cons. destruct (classify v k c cc x); try reflexivity; try apply IH.
    destruct ig; [apply IH|reflexivity].
Qed.

(* the loop sees stripped lines only *)
Lemma classify_streq x y : streq x y -> classify v k c cc x = classify v k c cc y.
Proof. unfold streq, classify. intros ->. reflexivity. Qed.

Theorem parse_body_streq lines lines' : Forall2 streq lines lines' ->
  forall acc, parse_body v k c ig cc tr lines acc = parse_body v k c ig cc tr lines' acc.
Proof.
  induction 1 as [|x y l l' Hxy H IH]; intros acc; [reflexivity|].
  rewrite !parse_body_cons, (classify_streq x y Hxy).
  destruct (classify v k c cc y); try reflexivity; try apply IH. destruct ig; [apply IH|reflexivity].
Qed.

End Header.

Theorem parse_section_streq v title c ig cc body body' : Forall2 streq body body' ->
  parse_section v title c ig cc body = parse_section v title c ig cc body'.
Proof. intros H. unfold parse_section. apply parse_body_streq. exact H. Qed.

(* ======================================================================================= *)
(* section table                                                                           *)
(* ======================================================================================= *)
Theorem find_starts_streq : forall ls ls' i, Forall2 streq ls ls' -> find_starts ls i = find_starts ls' i.
Proof.
  intros ls ls' i H. revert i. induction H as [|x y l l' Hxy H IH]; intros i; [reflexivity|].
  cbn [find_starts]. unfold streq in Hxy. rewrite Hxy, IH. reflexivity.
Qed.

Lemma Forall2_length_eq {A B} (R : A -> B -> Prop) l l' : Forall2 R l l' -> List.length l = List.length l'.
Proof. induction 1; cbn [List.length]; congruence. Qed.

Theorem find_sections_streq ls ls' : Forall2 streq ls ls' -> find_sections ls = find_sections ls'.
Proof.
  intros H. unfold find_sections. rewrite (find_starts_streq ls ls' 0%nat H), (Forall2_length_eq _ _ _ H).
  reflexivity.
Qed.

Lemma body_lines_streq ls ls' p : Forall2 streq ls ls' -> Forall2 streq (body_lines ls p) (body_lines ls' p).
Proof. intros H. unfold body_lines. apply Forall2_firstn, Forall2_skipn. exact H. Qed.

Lemma other_loop_streq : forall ls ls', Forall2 streq ls ls' ->
  forall n last acc, other_loop ls n last acc = other_loop ls' n last acc.
Proof.
  induction 1 as [|x y l l' Hxy H IH]; intros n last acc; [reflexivity|].
  cbn [other_loop]. unfold streq in Hxy. rewrite Hxy.
  destruct (startswith [ch_tilde] (strip y)).
  - destruct (Nat.eqb n last); [reflexivity|apply IH].
  - destruct (Nat.eqb (S n) last); [reflexivity|apply IH].
Qed.

Theorem other_text_streq ls ls' p : Forall2 streq ls ls' -> other_text ls p = other_text ls' p.
Proof.
  intros H. unfold other_text. f_equal. apply other_loop_streq. apply Forall2_skipn. exact H.
Qed.

(* ======================================================================================= *)
(* data sections: the normal engine                                                        *)
(* ======================================================================================= *)
(* what one physical line contributes to the flat token array *)
Definition toks (d : dlm) (subs : list rsub) (raw : list N) : list (list N) :=
  let line := strip raw in
  if startswith [ch_hash] line then []
  else
    let line := remove_char 26 (apply_subs subs line) in
    match line with [] => [] | _ => split_line d line end.

Theorem normal_items_toks d subs : forall body,
  normal_items d subs body = List.concat (map (toks d subs) body).
Proof.
  induction body as [|raw body IH]; [reflexivity|].
  cbn [normal_items map List.concat]. unfold toks at 1.
  destruct (startswith [ch_hash] (strip raw)); [exact IH|].
  destruct (remove_char 26 (apply_subs subs (strip raw))); rewrite IH; reflexivity.
Qed.

Lemma apply_sub_nil s : apply_sub s [] = [].
Proof. destruct s; vm_compute; reflexivity. Qed.

Lemma apply_subs_nil : forall subs, apply_subs subs [] = [].
Proof.
  unfold apply_subs. induction subs as [|s subs IH]; [reflexivity|]. cbn [fold_left].
  rewrite apply_sub_nil. exact IH.
Qed.

Lemma toks_blank d subs x : strip x = [] -> toks d subs x = [].
Proof. intros E. unfold toks. rewrite E, apply_subs_nil. reflexivity. Qed.

Lemma toks_comment d subs x : startswith [ch_hash] (strip x) = true -> toks d subs x = [].
Proof. intros E. unfold toks. rewrite E. reflexivity. Qed.

Lemma toks_streq d subs x y : streq x y -> toks d subs x = toks d subs y.
Proof. unfold streq, toks. intros ->. reflexivity. Qed.

Theorem normal_items_skip_anywhere d subs a x b : toks d subs x = [] ->
  normal_items d subs (a ++ x :: b) = normal_items d subs (a ++ b).
Proof.
  intros E. rewrite !normal_items_toks, !map_app, !concat_app. cbn [map List.concat]. rewrite E. reflexivity.
Qed.

Theorem blank_data_normal d subs a x b : strip x = [] ->
  normal_items d subs (a ++ x :: b) = normal_items d subs (a ++ b).
Proof. intros E. apply normal_items_skip_anywhere. apply toks_blank. exact E. Qed.

Theorem comment_data_normal d subs a x b : startswith [ch_hash] (strip x) = true ->
  normal_items d subs (a ++ x :: b) = normal_items d subs (a ++ b).
Proof. intros E. apply normal_items_skip_anywhere. apply toks_comment. exact E. Qed.

Theorem normal_items_ins_skipped d subs body body' :
  ins_lines (fun x => toks d subs x = []) body body' ->
  normal_items d subs body' = normal_items d subs body.
Proof.
  intros H. rewrite !normal_items_toks.
  induction H as [|j l l' Hj H IH|x l l' H IH]; cbn [map List.concat]; [reflexivity| |].
  - rewrite Hj. exact IH.
  - rewrite IH. reflexivity.
Qed.

Theorem normal_items_streq d subs body body' : Forall2 streq body body' ->
  normal_items d subs body = normal_items d subs body'.
Proof.
  intros H. rewrite !normal_items_toks. f_equal.
  induction H as [|x y l l' Hxy H IH]; cbn [map]; [reflexivity|].
  rewrite (toks_streq d subs x y Hxy), IH. reflexivity.
Qed.

(* re-wrapping: only the concatenation of the per-line token lists matters *)
Theorem normal_items_rewrap d subs a b :
  List.concat (map (toks d subs) a) = List.concat (map (toks d subs) b) ->
  normal_items d subs a = normal_items d subs b.
Proof. intros H. rewrite !normal_items_toks. exact H. Qed.

Section Engines.
Variable fhex : list N -> option (list N).
Variable fstr : list N -> list N.

(* the normal engine is a function of the token stream and the column count *)
Theorem normal_engine_items d subs n a b :
  normal_items d subs a = normal_items d subs b ->
  normal_engine fhex fstr d subs n a = normal_engine fhex fstr d subs n b.
Proof. intros H. unfold normal_engine. rewrite H. reflexivity. Qed.

Corollary normal_engine_rewrap d subs n a b :
  List.concat (map (toks d subs) a) = List.concat (map (toks d subs) b) ->
  normal_engine fhex fstr d subs n a = normal_engine fhex fstr d subs n b.
Proof. intros H. apply normal_engine_items, normal_items_rewrap. exact H. Qed.

(* ===================================================================================== *)
(* data sections: the numpy engine                                                       *)
(* ===================================================================================== *)
Definition np_toks (raw : list N) : list (list N) := split_ws (cut_comment raw).

Lemma genfromtxt_rows_np body :
  genfromtxt_rows body = filter (fun r => match r with [] => false | _ => true end) (map np_toks body).
Proof. reflexivity. Qed.

Lemma cut_comment_app_nohash : forall a b, in_str ch_hash a = false -> cut_comment (a ++ b) = a ++ cut_comment b.
Proof.
  induction a as [|x a IH]; intros b H; [reflexivity|].
  unfold in_str in H. cbn [existsb] in H. apply orb_false_iff in H as [Hx Ha].
  cbn [app cut_comment]. rewrite N.eqb_sym, Hx, IH by exact Ha. reflexivity.
Qed.

Lemma cut_comment_app_hash : forall a b, in_str ch_hash a = true -> cut_comment (a ++ b) = cut_comment a.
Proof.
  induction a as [|x a IH]; intros b H; [discriminate|].
  cbn [app cut_comment]. destruct (x =? ch_hash) eqn:E; [reflexivity|].
  unfold in_str in H. cbn [existsb] in H. rewrite N.eqb_sym, E in H. cbn [orb] in H.
  rewrite IH by exact H. reflexivity.
Qed.

Lemma cut_comment_nohash a : in_str ch_hash a = false -> cut_comment a = a.
Proof. intros H. rewrite <- (app_nil_r a) at 1. rewrite cut_comment_app_nohash by exact H. cbn. apply app_nil_r. Qed.

Lemma space_nohash : forall a, forallb is_space a = true -> in_str ch_hash a = false.
Proof.
  induction a as [|x a IH]; intros H; [reflexivity|]. cbn [forallb] in H. apply andb_true_iff in H as [Hx Ha].
  unfold in_str. cbn [existsb]. fold (in_str ch_hash a). rewrite (IH Ha), orb_false_r.
  destruct (N.eqb_spec ch_hash x) as [<-|_]; [discriminate Hx|reflexivity].
Qed.

(* the numpy engine's view of a line depends on the stripped line only *)
Theorem np_toks_strip raw : np_toks raw = np_toks (strip raw).
Proof.
  unfold np_toks. destruct (strip_decomp raw) as (a & b & E & Ha & Hb & _).
  rewrite E at 1. rewrite (cut_comment_app_nohash a) by (apply space_nohash; exact Ha).
  rewrite split_ws_leading by exact Ha.
  destruct (in_str ch_hash (strip raw)) eqn:Hh.
  - rewrite cut_comment_app_hash by exact Hh. reflexivity.
  - rewrite cut_comment_app_nohash by exact Hh. rewrite (cut_comment_nohash b) by (apply space_nohash; exact Hb).
    rewrite (cut_comment_nohash _ Hh). apply split_ws_app_trailing. exact Hb.
Qed.

Lemma np_toks_streq x y : streq x y -> np_toks x = np_toks y.
Proof. unfold streq. intros H. rewrite (np_toks_strip x), (np_toks_strip y), H. reflexivity. Qed.

Lemma np_toks_blank x : strip x = [] -> np_toks x = [].
Proof. intros E. rewrite np_toks_strip, E. reflexivity. Qed.

Lemma np_toks_comment x : startswith [ch_hash] (strip x) = true -> np_toks x = [].
Proof.
  intros H. rewrite np_toks_strip. destruct (strip x) as [|ch r]; [discriminate|].
  cbn [startswith] in H. rewrite andb_true_r in H. apply N.eqb_eq in H. subst ch.
  unfold np_toks. cbn [cut_comment]. rewrite N.eqb_refl. reflexivity.
Qed.

Theorem genfromtxt_rows_skip_anywhere a x b : np_toks x = [] ->
  genfromtxt_rows (a ++ x :: b) = genfromtxt_rows (a ++ b).
Proof.
  intros E. rewrite !genfromtxt_rows_np, !map_app, !filter_app. cbn [map filter]. rewrite E. reflexivity.
Qed.

Theorem blank_data_numpy a x b : strip x = [] -> genfromtxt_rows (a ++ x :: b) = genfromtxt_rows (a ++ b).
Proof. intros E. apply genfromtxt_rows_skip_anywhere, np_toks_blank. exact E. Qed.

Theorem comment_data_numpy a x b : startswith [ch_hash] (strip x) = true ->
  genfromtxt_rows (a ++ x :: b) = genfromtxt_rows (a ++ b).
Proof. intros E. apply genfromtxt_rows_skip_anywhere, np_toks_comment. exact E. Qed.

Theorem genfromtxt_rows_ins_skipped body body' :
  ins_lines (fun x => np_toks x = []) body body' -> genfromtxt_rows body' = genfromtxt_rows body.
Proof.
  intros H. rewrite !genfromtxt_rows_np.
  induction H as [|j l l' Hj H IH|x l l' H IH]; cbn [map filter]; [reflexivity| |].
  - rewrite Hj. exact IH.
  - rewrite IH. reflexivity.
Qed.

Theorem genfromtxt_rows_streq body body' : Forall2 streq body body' ->
  genfromtxt_rows body = genfromtxt_rows body'.
Proof.
  intros H. rewrite !genfromtxt_rows_np. f_equal.
  induction H as [|x y l l' Hxy H IH]; cbn [map]; [reflexivity|].
  rewrite (np_toks_streq x y Hxy), IH. reflexivity.
Qed.

(* the numpy engine is a function of the rows *)
Theorem numpy_engine_rows_eq a b : genfromtxt_rows a = genfromtxt_rows b ->
  numpy_engine fhex a = numpy_engine fhex b.
Proof. intros H. unfold numpy_engine. rewrite H. reflexivity. Qed.

(* both engines, one blank or comment line at any site *)
Theorem skip_data_engines d subs n a x b :
  strip x = [] \/ startswith [ch_hash] (strip x) = true ->
  normal_engine fhex fstr d subs n (a ++ x :: b) = normal_engine fhex fstr d subs n (a ++ b) /\
  numpy_engine fhex (a ++ x :: b) = numpy_engine fhex (a ++ b).
Proof.
  intros [E|E]; split.
  - apply normal_engine_items, blank_data_normal, E.
  - apply numpy_engine_rows_eq, blank_data_numpy, E.
  - apply normal_engine_items, comment_data_normal, E.
  - apply numpy_engine_rows_eq, comment_data_numpy, E.
Qed.

Theorem streq_data_engines d subs n body body' : Forall2 streq body body' ->
  normal_engine fhex fstr d subs n body = normal_engine fhex fstr d subs n body' /\
  numpy_engine fhex body = numpy_engine fhex body'.
Proof.
  intros H. split.
  - apply normal_engine_items, normal_items_streq, H.
  - apply numpy_engine_rows_eq, genfromtxt_rows_streq, H.
Qed.

Theorem blank_data_all d subs n a x b : strip x = [] ->
  normal_items d subs (a ++ x :: b) = normal_items d subs (a ++ b) /\
  genfromtxt_rows (a ++ x :: b) = genfromtxt_rows (a ++ b) /\
  normal_engine fhex fstr d subs n (a ++ x :: b) = normal_engine fhex fstr d subs n (a ++ b) /\
  numpy_engine fhex (a ++ x :: b) = numpy_engine fhex (a ++ b).
Proof.
  intros E. split; [apply blank_data_normal; exact E|]. split; [apply blank_data_numpy; exact E|].
  apply skip_data_engines. left. exact E.
Qed.

Theorem comment_data_all d subs n a x b : startswith [ch_hash] (strip x) = true ->
  normal_items d subs (a ++ x :: b) = normal_items d subs (a ++ b) /\
  genfromtxt_rows (a ++ x :: b) = genfromtxt_rows (a ++ b) /\
  normal_engine fhex fstr d subs n (a ++ x :: b) = normal_engine fhex fstr d subs n (a ++ b) /\
  numpy_engine fhex (a ++ x :: b) = numpy_engine fhex (a ++ b).
Proof.
  intros E. split; [apply comment_data_normal; exact E|]. split; [apply comment_data_numpy; exact E|].
  apply skip_data_engines. right. exact E.
Qed.

Theorem rewrap_tokens_all d subs n a b :
  List.concat (map (toks d subs) a) = List.concat (map (toks d subs) b) ->
  normal_items d subs a = normal_items d subs b /\
  normal_engine fhex fstr d subs n a = normal_engine fhex fstr d subs n b.
Proof. intros H. split; [apply normal_items_rewrap|apply normal_engine_rewrap]; exact H. Qed.

End Engines.

(* ======================================================================================= *)
(* white space between tokens (SPACE-delimited data)                                       *)
(* ======================================================================================= *)
Theorem split_line_space_ws l l' :
  in_str 34 l = false -> in_str 39 l = false -> in_str 34 l' = false -> in_str 39 l' = false ->
  split_ws l = split_ws l' -> split_line DSpace l = split_line DSpace l'.
Proof.
  intros H1 H2 H3 H4 E. cbn [split_line]. rewrite !sow_is_split by assumption. exact E.
Qed.

(* the tokens of a line are its fields, whatever white space (blanks, tabs) separates them *)
Theorem split_line_space_padded pairs :
  Forall (fun p => forallb is_space (fst p) = true /\ good_tok (snd p)) pairs ->
  Forall (fun p => fst p <> []) (tl pairs) ->
  in_str 34 (List.concat (map padtok pairs)) = false -> in_str 39 (List.concat (map padtok pairs)) = false ->
  split_line DSpace (List.concat (map padtok pairs)) = map snd pairs.
Proof.
  intros H Hne Q1 Q2. cbn [split_line]. rewrite sow_is_split by assumption.
  apply split_ws_padded; assumption.
Qed.

(* ======================================================================================= *)
(* the column sniffer (inspect_data_section)                                               *)
(* ======================================================================================= *)
(* lines the data loops skip: blank, or comment *)
Definition is_skip (raw : list N) : bool :=
  match strip raw with [] => true | _ => startswith [ch_hash] (strip raw) end.
Definition dcount (d : dlm) (subs : list rsub) (raw : list N) : nat :=
  List.length (split_line d (apply_subs subs (strip raw))).
Definition dhyph (raw : list N) : bool := in_str ch_minus (strip raw).

Lemma is_skip_cases raw : is_skip raw = true <-> strip raw = [] \/ startswith [ch_hash] (strip raw) = true.
Proof.
  unfold is_skip. destruct (strip raw) as [|ch r]; split; auto.
  intros [H|H]; [discriminate|exact H].
Qed.

Lemma is_skip_streq x y : streq x y -> is_skip x = is_skip y.
Proof. unfold streq, is_skip. intros ->. reflexivity. Qed.

Lemma is_skip_toks d subs x : is_skip x = true -> toks d subs x = [].
Proof. intros H. apply is_skip_cases in H as [H|H]; [apply toks_blank|apply toks_comment]; exact H. Qed.

Lemma is_skip_np x : is_skip x = true -> np_toks x = [].
Proof. intros H. apply is_skip_cases in H as [H|H]; [apply np_toks_blank|apply np_toks_comment]; exact H. Qed.

(* one step of the loop; reaching the last line of the section and running off its end
   give the same result.  The window is bounded by the number of COUNTED lines. *)
Lemma inspect_loop_step d raw rest i subs hyph counts :
  inspect_loop d (raw :: rest) i subs hyph counts =
  if is_skip raw then inspect_loop d rest (S i) subs hyph counts
  else
    let hyph' := if dhyph raw then S hyph else hyph in
    let counts' := dcount d subs raw :: counts in
    if Nat.ltb 20 (List.length counts') then (hyph', rev counts')
    else inspect_loop d rest (S i) subs hyph' counts'.
Proof.
  cbn [inspect_loop]. unfold is_skip, dhyph, dcount. destruct (strip raw) as [|ch r]; [reflexivity|].
  destruct (startswith [ch_hash] (ch :: r)); [reflexivity|]. cbv zeta.
  destruct rest as [|raw2 rest]; [|reflexivity]. destruct (Nat.ltb 20 _); reflexivity.
Qed.

Theorem inspect_loop_streq d subs : forall body body', Forall2 streq body body' ->
  forall i hyph counts, inspect_loop d body i subs hyph counts = inspect_loop d body' i subs hyph counts.
Proof.
  induction 1 as [|x y l l' Hxy H IH]; intros i hyph counts; [reflexivity|].
  rewrite !inspect_loop_step, (is_skip_streq x y Hxy). unfold dhyph, dcount. unfold streq in Hxy. rewrite Hxy.
  destruct (is_skip y); [apply IH|]. cbv zeta. destruct (Nat.ltb 20 _); [reflexivity|apply IH].
Qed.

Theorem inspect_streq d subs body body' : Forall2 streq body body' -> inspect d body subs = inspect d body' subs.
Proof. intros H. unfold inspect. rewrite (inspect_loop_streq d subs body body' H). reflexivity. Qed.

Theorem inspect_twice_streq d subs body body' : Forall2 streq body body' ->
  inspect_twice d body subs = inspect_twice d body' subs.
Proof.
  intros H. unfold inspect_twice. rewrite (inspect_streq d subs body body' H).
  destruct (inspect d body' subs) as [n rec]. rewrite (inspect_streq d rec body body' H). reflexivity.
Qed.

(* blank and comment lines are invisible to the sniffer: inserting any number of them at any
   sites (also inside the sampled window, also as the last line) changes nothing, and the
   physical line index is irrelevant *)
Theorem inspect_loop_ins_skipped d subs body body' :
  ins_lines (fun x => is_skip x = true) body body' ->
  forall i j hyph counts, inspect_loop d body' i subs hyph counts = inspect_loop d body j subs hyph counts.
Proof.
  induction 1 as [|x l l' Hx H IH|x l l' H IH]; intros i j hyph counts.
  - reflexivity.
  - rewrite inspect_loop_step, Hx. apply IH.
  - rewrite !inspect_loop_step. destruct (is_skip x); [apply IH|]. cbv zeta.
    destruct (Nat.ltb 20 _); [reflexivity|apply IH].
Qed.

Theorem inspect_ins_skipped d subs body body' :
  ins_lines (fun x => is_skip x = true) body body' -> inspect d body' subs = inspect d body subs.
Proof. intros J. unfold inspect. rewrite (inspect_loop_ins_skipped d subs body body' J 0%nat 0%nat). reflexivity. Qed.

Theorem inspect_twice_ins_skipped d subs body body' :
  ins_lines (fun x => is_skip x = true) body body' -> inspect_twice d body' subs = inspect_twice d body subs.
Proof.
  intros J. unfold inspect_twice. rewrite (inspect_ins_skipped d subs body body' J).
  destruct (inspect d body subs) as [n rec]. rewrite (inspect_ins_skipped d rec body body' J). reflexivity.
Qed.

Corollary sniff_skip_anywhere d subs a x b : is_skip x = true ->
  inspect_twice d (a ++ x :: b) subs = inspect_twice d (a ++ b) subs.
Proof. intros H. apply inspect_twice_ins_skipped. apply (ins_lines_one (fun x => is_skip x = true)). exact H. Qed.

Corollary sniff_blank d subs a x b : strip x = [] ->
  inspect_twice d (a ++ x :: b) subs = inspect_twice d (a ++ b) subs.
Proof. intros E. apply sniff_skip_anywhere. apply is_skip_cases. left. exact E. Qed.

Corollary sniff_comment d subs a x b : startswith [ch_hash] (strip x) = true ->
  inspect_twice d (a ++ x :: b) subs = inspect_twice d (a ++ b) subs.
Proof. intros E. apply sniff_skip_anywhere. apply is_skip_cases. right. exact E. Qed.

(* a body whose counted lines all have c tokens and the same hyphen flag h: the answer is
   determined *)
Definition uniform (d : dlm) (subs : list rsub) (c : nat) (h : bool) (body : list (list N)) : Prop :=
  Forall (fun raw => is_skip raw = true \/ (dcount d subs raw = c /\ dhyph raw = h)) body.
Definition has_data (body : list (list N)) : bool := existsb (fun raw => negb (is_skip raw)) body.

Lemma inspect_loop_uniform d subs c h : forall body i hyph counts, uniform d subs c h body ->
  exists k, inspect_loop d body i subs hyph counts =
            ((if h then hyph + k else hyph)%nat, rev counts ++ repeat c k) /\
            (has_data body = true -> (0 < k)%nat).
Proof.
  induction body as [|raw rest IH]; intros i hyph counts H.
  - exists 0%nat. cbn [inspect_loop repeat has_data existsb]. rewrite app_nil_r, Nat.add_0_r.
    split; [destruct h; reflexivity|discriminate].
  - inversion H as [|? ? Hraw Hrest]; subst. rewrite inspect_loop_step. cbn [has_data existsb].
    destruct (is_skip raw) eqn:Es.
    + destruct (IH (S i) hyph counts Hrest) as (k & E & Hk). exists k. split; [exact E|]. exact Hk.
    + destruct Hraw as [F|(Hc & Hh)]; [discriminate|]. cbv zeta. rewrite Hc, Hh.
      destruct (Nat.ltb 20 _).
      * exists 1%nat. cbn [rev repeat]. split; [|lia]. destruct h; f_equal; lia.
      * destruct (IH (S i) (if h then S hyph else hyph) (c :: counts) Hrest) as (k & E & _).
        exists (S k). rewrite E. cbn [rev repeat]. rewrite <- app_assoc. cbn [app]. split; [|lia].
        destruct h; f_equal; lia.
Qed.

Lemma all_equal_repeat' c k : (0 < k)%nat -> all_equal (repeat c k) = Some c.
Proof.
  intros Hk. destruct k as [|k]; [lia|]. cbn [repeat all_equal].
  assert (H : forallb (Nat.eqb c) (repeat c k) = true).
  { apply forallb_forall. intros x Hx. apply repeat_spec in Hx. subst x. apply Nat.eqb_refl. }
  rewrite H. reflexivity.
Qed.

Theorem inspect_uniform d subs c h body : uniform d subs c h body -> has_data body = true ->
  inspect d body subs = (Some c, if h then drop_hyphen_subs subs else subs).
Proof.
  intros U D. unfold inspect. destruct (inspect_loop_uniform d subs c h body 0%nat 0%nat [] U) as (k & E & Hk).
  rewrite E. cbn [rev app]. specialize (Hk D). rewrite all_equal_repeat' by exact Hk. rewrite repeat_length.
  destruct h; cbn [Nat.add].
  - rewrite Nat.eqb_refl. reflexivity.
  - destruct k; [lia|]. reflexivity.
Qed.

(* ======================================================================================= *)
(* a SPACE-delimited data line is read as its white-space separated fields                 *)
(* ======================================================================================= *)
Theorem toks_space_is_split subs raw :
  startswith [ch_hash] (strip raw) = false -> apply_subs subs (strip raw) = strip raw ->
  in_str 26 raw = false -> in_str 34 raw = false -> in_str 39 raw = false ->
  toks DSpace subs raw = split_ws raw.
Proof.
  intros Hc Hs H26 H34 H39. unfold toks. rewrite Hc, Hs.
  rewrite remove_char_absent by (apply in_str_strip_false; exact H26).
  rewrite <- (split_ws_strip raw). destruct (strip raw) as [|ch r] eqn:E; [reflexivity|].
  rewrite <- E. cbn [split_line]. apply sow_is_split; apply in_str_strip_false; assumption.
Qed.

(* hence any change of the white space between (and around) the fields is invisible *)
Theorem toks_space_ws subs raw raw' :
  startswith [ch_hash] (strip raw) = false -> apply_subs subs (strip raw) = strip raw ->
  in_str 26 raw = false -> in_str 34 raw = false -> in_str 39 raw = false ->
  startswith [ch_hash] (strip raw') = false -> apply_subs subs (strip raw') = strip raw' ->
  in_str 26 raw' = false -> in_str 34 raw' = false -> in_str 39 raw' = false ->
  split_ws raw = split_ws raw' -> toks DSpace subs raw = toks DSpace subs raw'.
Proof. intros. rewrite !toks_space_is_split by assumption. assumption. Qed.

(* COMMA: the fields of a comma-joined line are the joined tokens *)
Lemma split_char_aux_run sep : forall t rest cur, in_str sep t = false ->
  split_char_aux sep (t ++ rest) cur = split_char_aux sep rest (rev t ++ cur).
Proof.
  induction t as [|x t IH]; intros rest cur H; [reflexivity|].
  unfold in_str in H. cbn [existsb] in H. apply orb_false_iff in H as [Hx Ht].
  cbn [app split_char_aux rev]. rewrite N.eqb_sym, Hx. rewrite IH by exact Ht. rewrite <- app_assoc. reflexivity.
Qed.

Theorem split_char_join sep : forall ts, ts <> [] -> Forall (fun t => in_str sep t = false) ts ->
  split_char sep (join [sep] ts) = ts.
Proof.
  unfold split_char. induction ts as [|t ts IH]; intros Hne H; [congruence|].
  inversion H as [|? ? Ht Hts]; subst. destruct ts as [|t2 ts].
  - cbn [join]. rewrite <- (app_nil_r t) at 1. rewrite split_char_aux_run by exact Ht.
    cbn [split_char_aux]. rewrite app_nil_r, rev_involutive. reflexivity.
  - change (join [sep] (t :: t2 :: ts)) with (t ++ [sep] ++ join [sep] (t2 :: ts)).
    rewrite split_char_aux_run by exact Ht. cbn [app split_char_aux]. rewrite N.eqb_refl.
    rewrite app_nil_r, rev_involutive. f_equal. apply IH; [discriminate|exact Hts].
Qed.

Corollary split_line_comma_join ts : ts <> [] -> Forall (fun t => in_str ch_comma t = false) ts ->
  split_line DComma (join [ch_comma] ts) = ts.
Proof. apply split_char_join. Qed.

(* ======================================================================================= *)
(* composition                                                                             *)
(* ======================================================================================= *)
Section Compose.
Variables (T A : Type) (f : T -> A) (R : T -> T -> Prop).
Hypothesis step_inv : forall x y, R x y -> f x = f y.

(* a finite sequence of changes, each applied forwards or backwards *)
Inductive chain : T -> T -> Prop :=
| chain_nil x : chain x x
| chain_fwd x y z : R x y -> chain y z -> chain x z
| chain_bwd x y z : R y x -> chain y z -> chain x z.

Theorem chain_inv x y : chain x y -> f x = f y.
Proof.
  induction 1 as [x|x y z Hxy _ IH|x y z Hyx _ IH]; [reflexivity| |].
  - rewrite (step_inv x y Hxy). exact IH.
  - rewrite <- (step_inv y x Hyx). exact IH.
Qed.

(* the same over an explicit list of intermediate texts *)
Fixpoint path (x : T) (ys : list T) (z : T) : Prop :=
  match ys with
  | [] => x = z
  | y :: ys' => (R x y \/ R y x) /\ path y ys' z
  end.

Theorem path_inv : forall ys x z, path x ys z -> f x = f z.
Proof.
  induction ys as [|y ys IH]; intros x z H; cbn [path] in H; [congruence|].
  destruct H as ([Hxy|Hyx] & Hp).
  - rewrite (step_inv x y Hxy). apply IH. exact Hp.
  - rewrite <- (step_inv y x Hyx). apply IH. exact Hp.
Qed.
End Compose.
