(* Proofs.ChannelsProofs — lemmas about Model/Channels.v (property C10).
   The oracles are Section variables and the codec / newline assumptions are Section
   hypotheses: after `End` every lemma is universally quantified over them. *)
From Coq Require Import List NArith Bool String Lia ZifyBool ZifyN ZifyNat.
Import ListNotations.
Require Import PyStr Channels.
Open Scope string_scope. Open Scope list_scope. Open Scope N_scope.

(* ---------------------------------------------------------------------------------------- *)
(* BOM sniffing: looking at the first <= 32 bytes is looking at the file                      *)
Lemma has_bom_startswith : forall b, has_bom b = startswith BOM_UTF8 b.
Proof.
  intros b. unfold has_bom, BOM_UTF8.
  destruct b as [|x [|y [|z b]]]; reflexivity.
Qed.

Lemma has_bom_prefix : forall b, has_bom (BOM_UTF8 ++ b) = true.
Proof. intros b. rewrite has_bom_startswith. reflexivity. Qed.

(* ---------------------------------------------------------------------------------------- *)
(* the concrete universal-newline translation undoes every newline style                      *)
Lemma with_nl_cr_head : forall t,
  match with_nl CR t with d :: _ => (d =? 10) = false | [] => t = [] end.
Proof.
  intros [|c t]; [reflexivity|].
  unfold with_nl; simpl. destruct (c =? 10) eqn:E; simpl; [reflexivity | exact E].
Qed.

Lemma with_nl_cons : forall n c t,
  with_nl n (c :: t) = (if c =? 10 then nl_seq n else [c]) ++ with_nl n t.
Proof. reflexivity. Qed.

Lemma unl_impl_with_nl : forall n t, no_cr t = true -> unl_impl (with_nl n t) = t.
Proof.
  intros n t. induction t as [|c t IH]; intros Hcr; [reflexivity|].
  simpl in Hcr. apply andb_true_iff in Hcr. destruct Hcr as [Hc Ht].
  specialize (IH Ht). rewrite with_nl_cons.
  destruct (c =? 10) eqn:E10.
  - apply N.eqb_eq in E10. subst c. destruct n; simpl.
    + rewrite IH. reflexivity.
    + rewrite IH. reflexivity.
    + pose proof (with_nl_cr_head t) as Hh.
      destruct (with_nl CR t) as [|d w] eqn:Ew.
      * subst t. reflexivity.
      * rewrite Hh. rewrite IH. reflexivity.
  - simpl. destruct (c =? 13) eqn:E13; [discriminate Hc|]. rewrite IH. reflexivity.
Qed.

(* ---------------------------------------------------------------------------------------- *)
(* str.splitlines facts                                                                       *)
Definition no_linebreak (s : list N) : bool := forallb (fun c => negb (is_linebreak c)) s.

Lemma splitlines_aux_nonempty : forall s cur,
  s <> [] \/ cur <> [] -> splitlines_aux s cur <> [].
Proof.
  induction s as [|c s IH]; intros cur H.
  - simpl. destruct cur; [destruct H; congruence | discriminate].
  - simpl. destruct (is_linebreak c).
    + destruct (c =? ch_cr); [destruct s as [|d s']; [|destruct (d =? ch_nl)]|]; discriminate.
    + apply IH. right. discriminate.
Qed.

Lemma splitlines_nil_iff : forall s, splitlines s = [] <-> s = [].
Proof.
  intros s. split; intros H.
  - destruct s as [|c s]; [reflexivity|]. exfalso.
    apply (splitlines_aux_nonempty (c :: s) []); [left; discriminate | exact H].
  - subst s. reflexivity.
Qed.

Lemma splitlines_aux_one : forall s cur,
  no_linebreak s = true -> s <> [] \/ cur <> [] -> splitlines_aux s cur = [rev cur ++ s].
Proof.
  induction s as [|c s IH]; intros cur Hnl H.
  - simpl. rewrite app_nil_r. destruct cur; [destruct H; congruence | reflexivity].
  - simpl in Hnl. apply andb_true_iff in Hnl. destruct Hnl as [Hc Hs].
    simpl. destruct (is_linebreak c); [discriminate Hc|].
    rewrite IH; [| exact Hs | right; discriminate].
    simpl. rewrite <- app_assoc. reflexivity.
Qed.

(* a non-empty string without any line-break character is its own single line *)
Lemma splitlines_one : forall s, s <> [] -> no_linebreak s = true -> splitlines s = [s].
Proof.
  intros s Hne Hnl. unfold splitlines. rewrite splitlines_aux_one; auto.
Qed.

(* writing the line ends as CRLF does not change str.splitlines() *)
Lemma splitlines_aux_crlf : forall t cur,
  no_cr t = true -> splitlines_aux (with_nl CRLF t) cur = splitlines_aux t cur.
Proof.
  induction t as [|c t IH]; intros cur Hcr; [reflexivity|].
  simpl in Hcr. apply andb_true_iff in Hcr. destruct Hcr as [Hc Ht].
  rewrite with_nl_cons. destruct (c =? 10) eqn:E10.
  - apply N.eqb_eq in E10. subst c. simpl. rewrite IH by exact Ht. reflexivity.
  - assert (E13 : (c =? ch_cr) = false).
    { unfold ch_cr. destruct (c =? 13); [discriminate Hc | reflexivity]. }
    simpl. rewrite E13. destruct (is_linebreak c).
    + rewrite IH by exact Ht. reflexivity.
    + apply IH. exact Ht.
Qed.

Lemma splitlines_crlf : forall t, no_cr t = true -> splitlines (with_nl CRLF t) = splitlines t.
Proof. intros t H. unfold splitlines. apply splitlines_aux_crlf. exact H. Qed.

(* per codec (a premise where it is used): decoding undoes encoding, whatever errors= says *)
Definition codec_ok (decode : str -> str -> list N -> option str)
                    (encode : str -> str -> option (list N)) (enc : str) : Prop :=
  forall errs t b, encode enc t = Some b -> decode enc errs b = Some t.

(* ---------------------------------------------------------------------------------------- *)
Section ChannelsProofs.
  Variable fs : str -> option (list N).
  Variable absolute : str -> str.
  Variable is_url : str -> bool.
  Variable decode : str -> str -> list N -> option str.
  Variable encode : str -> str -> option (list N).
  Variable chardet_installed : bool.
  Variable chardet_detect : list N -> option str.
  Variable readline_ok : str -> list N -> bool.
  Variable locale_encoding : str.
  Variable unl : str -> str.

  (* the assumptions about codecs and text mode, exactly as used below *)
  Hypothesis H_bom : forall errs t b,
    encode enc_utf8 t = Some b -> decode enc_utf8sig errs (BOM_UTF8 ++ b) = Some t.
  Hypothesis H_unl : forall n t, no_cr t = true -> unl (with_nl n t) = t.
  Notation codec_ok' := (codec_ok decode encode).

  Notation dispatch_str' := (dispatch_str is_url).
  Notation dispatch' := (dispatch absolute is_url).
  Notation get_encoding' := (get_encoding chardet_installed chardet_detect).
  Notation adhoc' := (adhoc_test_encoding readline_ok).
  Notation choose' := (choose_encoding chardet_installed chardet_detect readline_ok).
  Notation owc' := (open_with_codecs fs decode chardet_installed chardet_detect readline_ok locale_encoding unl).
  Notation open_file' := (open_file fs absolute is_url decode chardet_installed chardet_detect readline_ok locale_encoding unl).
  Notation py_open' := (py_open fs decode locale_encoding unl).

  (* ---- dispatch ------------------------------------------------------------------------- *)
  Lemma dispatch_obj : forall t, dispatch' (RObj t) = ChPassthrough t.
  Proof. reflexivity. Qed.

  Lemma dispatch_path : forall p, dispatch' (RPath p) = dispatch' (RStr (absolute p)).
  Proof. reflexivity. Qed.

  Lemma dispatch_str_table : forall s,
    dispatch' (RStr s) =
      match splitlines s with
      | [] => ChIndexError
      | first :: rest =>
          if is_url first then ChUrl first
          else if Nat.leb 2 (List.length (first :: rest)) then ChContent s
          else ChFilename first
      end.
  Proof.
    intros s. unfold dispatch, dispatch_str.
    destruct (splitlines s) as [|f [|g r]]; try reflexivity.
  Qed.

  Lemma dispatch_empty : forall s, dispatch' (RStr s) = ChIndexError <-> s = [].
  Proof.
    intros s. split; intros H.
    - apply splitlines_nil_iff. unfold dispatch, dispatch_str in H.
      destruct (splitlines s) as [|f [|g r]]; [reflexivity | |];
        destruct (is_url f); discriminate H.
    - subst s. reflexivity.
  Qed.

  Lemma dispatch_content : forall s,
    (2 <= List.length (splitlines s))%nat -> is_url (hd [] (splitlines s)) = false ->
    dispatch' (RStr s) = ChContent s.
  Proof.
    clear H_bom H_unl encode. intros s Hlen Hurl. unfold dispatch, dispatch_str.
    destruct (splitlines s) as [|f [|g r]]; simpl in Hlen, Hurl; try lia.
    rewrite Hurl. reflexivity.
  Qed.

  Lemma dispatch_one_line : forall s l,
    splitlines s = [l] -> is_url l = false -> dispatch' (RStr s) = ChFilename l.
  Proof.
    intros s l Hs Hurl. unfold dispatch, dispatch_str. rewrite Hs, Hurl. reflexivity.
  Qed.

  Lemma dispatch_filename : forall p,
    p <> [] -> no_linebreak p = true -> is_url p = false -> dispatch' (RStr p) = ChFilename p.
  Proof.
    intros p Hne Hnl Hurl. apply dispatch_one_line; [apply splitlines_one; assumption | exact Hurl].
  Qed.

  (* ---- encoding choice -------------------------------------------------------------------- *)
  Lemma choose_encoding_table : forall k b,
    choose' k b =
      if has_bom b then COk (Some enc_utf8sig)
      else if enc_truthy (kw_encoding k) then COk (kw_encoding k)
      else if auto_truthy (kw_auto k) then
        match get_encoding' (kw_auto k) (read_n (nbytes_of (kw_nchars k)) b) with
        | CErr x => CErr x
        | COk e => if enc_truthy e then COk e else COk (adhoc' b)
        end
      else COk (adhoc' b).
  Proof.
    intros k b. unfold choose_encoding, step_bom.
    destruct (has_bom b) eqn:Hb.
    - reflexivity.
    - unfold step_detect; simpl.
      destruct (enc_truthy (kw_encoding k)) eqn:He.
      + rewrite andb_false_r. unfold step_adhoc; simpl. rewrite He, andb_false_r. reflexivity.
      + destruct (auto_truthy (kw_auto k)) eqn:Ha; simpl.
        * destruct (get_encoding' (kw_auto k) (read_n (nbytes_of (kw_nchars k)) b)) as [e|x];
            [|reflexivity].
          unfold step_adhoc; simpl. destruct (enc_truthy e); reflexivity.
        * unfold step_adhoc; simpl. rewrite Ha, He. reflexivity.
  Qed.

  Lemma get_encoding_table : forall a raw,
    get_encoding' a raw =
      match a with
      | AutoTrue => COk (if chardet_installed then chardet_detect raw else None)
      | AutoStr s =>
          if str_eqb (List.map ascii_lower s) (s2l "chardet") then
            if chardet_installed then COk (chardet_detect raw) else CErr EImportError
          else CErr EUnboundLocalError
      | AutoFalse => CErr EAttributeError
      end.
  Proof. intros [| |s] raw; simpl; try reflexivity. destruct chardet_installed; reflexivity. Qed.

  Lemma adhoc_table : forall b,
    adhoc' b =
      if readline_ok (s2l "ascii") b then Some (s2l "ascii")
      else if readline_ok (s2l "windows-1252") b then Some (s2l "windows-1252")
      else if readline_ok (s2l "latin-1") b then Some (s2l "latin-1")
      else None.
  Proof. reflexivity. Qed.

  Lemma choose_bom : forall k b, has_bom b = true -> choose' k b = COk (Some enc_utf8sig).
  Proof. intros k b H. rewrite choose_encoding_table, H. reflexivity. Qed.

  Lemma choose_explicit : forall k b enc,
    has_bom b = false -> kw_encoding k = Some enc -> enc <> [] -> choose' k b = COk (Some enc).
  Proof.
    intros k b enc Hb He Hne. rewrite choose_encoding_table, Hb, He.
    destruct enc; [congruence | reflexivity].
  Qed.

  Lemma choose_chardet : forall k b enc,
    has_bom b = false -> enc_truthy (kw_encoding k) = false -> kw_auto k = AutoTrue ->
    chardet_installed = true ->
    chardet_detect (read_n (nbytes_of (kw_nchars k)) b) = Some enc -> enc <> [] ->
    choose' k b = COk (Some enc).
  Proof.
    intros k b enc Hb He Ha Hi Hd Hne. rewrite choose_encoding_table, Hb, He, Ha. simpl.
    rewrite Hi, Hd. destruct enc; [congruence | reflexivity].
  Qed.

  Lemma choose_chardet_none : forall k b,
    has_bom b = false -> enc_truthy (kw_encoding k) = false -> kw_auto k = AutoTrue ->
    (chardet_installed = false \/ chardet_detect (read_n (nbytes_of (kw_nchars k)) b) = None) ->
    choose' k b = COk (adhoc' b).
  Proof.
    intros k b Hb He Ha Hd. rewrite choose_encoding_table, Hb, He, Ha. simpl.
    destruct Hd as [Hd|Hd]; [rewrite Hd; reflexivity|].
    destruct chardet_installed; [rewrite Hd|]; reflexivity.
  Qed.

  Lemma choose_no_autodetect : forall k b,
    has_bom b = false -> enc_truthy (kw_encoding k) = false -> auto_truthy (kw_auto k) = false ->
    choose' k b = COk (adhoc' b).
  Proof. intros k b Hb He Ha. rewrite choose_encoding_table, Hb, He, Ha. reflexivity. Qed.

  (* ---- what a file on disk delivers ------------------------------------------------------- *)
  Lemma owc_explicit : forall p k b enc t',
    fs p = Some b -> has_bom b = false -> kw_encoding k = Some enc -> enc <> [] ->
    decode enc (kw_errors k) b = Some t' ->
    owc' p k = COk (unl t', Some enc).
  Proof.
    intros p k b enc t' Hfs Hb He Hne Hd. unfold open_with_codecs. rewrite Hfs.
    rewrite (choose_explicit k b enc Hb He Hne). unfold io_open_text. rewrite Hd. reflexivity.
  Qed.

  Lemma owc_bom : forall p k b t',
    fs p = Some (BOM_UTF8 ++ b) ->
    decode enc_utf8sig (kw_errors k) (BOM_UTF8 ++ b) = Some t' ->
    owc' p k = COk (unl t', Some enc_utf8sig).
  Proof.
    intros p k b t' Hfs Hd. unfold open_with_codecs. rewrite Hfs.
    rewrite (choose_bom k _ (has_bom_prefix b)). unfold io_open_text. rewrite Hd. reflexivity.
  Qed.

  (* ---- C10 (a): every channel delivers the same text ------------------------------------- *)
  Lemma deliver_content : forall t k,
    (2 <= List.length (splitlines t))%nat -> is_url (hd [] (splitlines t)) = false ->
    open_file' (RStr t) k = COk (t, None).
  Proof.
    intros t k Hlen Hurl. unfold open_file. rewrite (dispatch_content t Hlen Hurl). reflexivity.
  Qed.

  Lemma deliver_obj : forall t k, open_file' (RObj t) k = COk (t, None).
  Proof. reflexivity. Qed.

  Lemma deliver_file_explicit : forall t n enc p q b k,
    no_cr t = true ->
    p <> [] -> no_linebreak p = true -> is_url p = false -> absolute q = p ->
    codec_ok' enc -> enc <> [] ->
    encode enc (with_nl n t) = Some b -> fs p = Some b -> has_bom b = false ->
    kw_encoding k = Some enc ->
    open_file' (RStr p) k = COk (t, Some enc) /\
    open_file' (RPath q) k = COk (t, Some enc) /\
    py_open' p enc = COk t.
  Proof.
    intros t n enc p q b k Hcr Hne Hnl Hurl Habs Hcodec Henc Hb Hfs Hbom Hk.
    assert (Hs : open_file' (RStr p) k = COk (t, Some enc)).
    { unfold open_file. rewrite (dispatch_filename p Hne Hnl Hurl).
      rewrite (owc_explicit p k b enc (with_nl n t) Hfs Hbom Hk Henc (Hcodec _ _ _ Hb)).
      rewrite (H_unl n t Hcr). reflexivity. }
    split; [exact Hs|]. split.
    - unfold open_file in *. rewrite dispatch_path, Habs. exact Hs.
    - unfold py_open, io_open_text. rewrite Hfs, (Hcodec _ _ _ Hb), (H_unl n t Hcr). reflexivity.
  Qed.

  Lemma deliver_file_bom : forall t n p q b k,
    no_cr t = true ->
    p <> [] -> no_linebreak p = true -> is_url p = false -> absolute q = p ->
    encode enc_utf8 (with_nl n t) = Some b -> fs p = Some (BOM_UTF8 ++ b) ->
    open_file' (RStr p) k = COk (t, Some enc_utf8sig) /\
    open_file' (RPath q) k = COk (t, Some enc_utf8sig) /\
    py_open' p enc_utf8sig = COk t.
  Proof.
    intros t n p q b k Hcr Hne Hnl Hurl Habs Hb Hfs.
    assert (Hs : open_file' (RStr p) k = COk (t, Some enc_utf8sig)).
    { unfold open_file. rewrite (dispatch_filename p Hne Hnl Hurl).
      rewrite (owc_bom p k b (with_nl n t) Hfs (H_bom _ _ _ Hb)).
      rewrite (H_unl n t Hcr). reflexivity. }
    split; [exact Hs|]. split.
    - unfold open_file in *. rewrite dispatch_path, Habs. exact Hs.
    - unfold py_open, io_open_text. rewrite Hfs, (H_bom _ _ _ Hb), (H_unl n t Hcr). reflexivity.
  Qed.

  (* a CRLF *string* is content too, and is delivered untranslated *)
  Lemma deliver_content_crlf : forall t k,
    no_cr t = true ->
    (2 <= List.length (splitlines t))%nat -> is_url (hd [] (splitlines t)) = false ->
    open_file' (RStr (with_nl CRLF t)) k = COk (with_nl CRLF t, None).
  Proof.
    intros t k Hcr Hlen Hurl. apply deliver_content; rewrite (splitlines_crlf t Hcr); assumption.
  Qed.

  Lemma channels_deliver : forall t n p q k,
    (2 <= List.length (splitlines t))%nat -> is_url (hd [] (splitlines t)) = false ->
    no_cr t = true ->
    p <> [] -> no_linebreak p = true -> is_url p = false -> absolute q = p ->
    (open_file' (RStr t) k = COk (t, None) /\ open_file' (RObj t) k = COk (t, None))
    /\
    (forall enc b, codec_ok' enc -> enc <> [] ->
       encode enc (with_nl n t) = Some b -> fs p = Some b -> has_bom b = false ->
       kw_encoding k = Some enc ->
       open_file' (RStr p) k = COk (t, Some enc) /\
       open_file' (RPath q) k = COk (t, Some enc) /\
       py_open' p enc = COk t)
    /\
    (forall b, encode enc_utf8 (with_nl n t) = Some b -> fs p = Some (BOM_UTF8 ++ b) ->
       open_file' (RStr p) k = COk (t, Some enc_utf8sig) /\
       open_file' (RPath q) k = COk (t, Some enc_utf8sig) /\
       py_open' p enc_utf8sig = COk t).
  Proof.
    intros t n p q k Hlen Hurl Hcr Hne Hnl Hpurl Habs. split; [|split].
    - split; [apply deliver_content; assumption | reflexivity].
    - intros enc b Hcodec Henc Hb Hfs Hbom Hk.
      exact (deliver_file_explicit t n enc p q b k Hcr Hne Hnl Hpurl Habs Hcodec Henc Hb Hfs Hbom Hk).
    - intros b Hb Hfs.
      exact (deliver_file_bom t n p q b k Hcr Hne Hnl Hpurl Habs Hb Hfs).
  Qed.

  Lemma dispatch_table : forall r,
    dispatch' r =
      match r with
      | RObj t => ChPassthrough t
      | RPath p => dispatch' (RStr (absolute p))
      | RStr s =>
          match splitlines s with
          | [] => ChIndexError
          | first :: rest =>
              if is_url first then ChUrl first
              else if Nat.leb 2 (List.length (first :: rest)) then ChContent s
              else ChFilename first
          end
      end.
  Proof. intros [s|p|t]; [apply dispatch_str_table | reflexivity | reflexivity]. Qed.

  (* ---- corollary: any function of the delivered text gives equal results ------------------ *)
  Section Parse.
    Variable R : Type.
    Variable parse : str -> R.
    Definition via (r : file_ref) (k : kwargs) : option R :=
      option_map parse (text_of (open_file' r k)).

    Lemma parse_in_memory : forall t k,
      (2 <= List.length (splitlines t))%nat -> is_url (hd [] (splitlines t)) = false ->
      via (RStr t) k = Some (parse t) /\ via (RObj t) k = Some (parse t).
    Proof.
      intros t k Hlen Hurl. unfold via. rewrite (deliver_content t k Hlen Hurl). split; reflexivity.
    Qed.

    Lemma parse_file_explicit : forall t n enc p q b k,
      no_cr t = true ->
      p <> [] -> no_linebreak p = true -> is_url p = false -> absolute q = p ->
      codec_ok' enc -> enc <> [] ->
      encode enc (with_nl n t) = Some b -> fs p = Some b -> has_bom b = false ->
      kw_encoding k = Some enc ->
      via (RStr p) k = Some (parse t) /\ via (RPath q) k = Some (parse t).
    Proof.
      intros t n enc p q b k Hcr Hne Hnl Hurl Habs Hcodec Henc Hb Hfs Hbom Hk. unfold via.
      destruct (deliver_file_explicit t n enc p q b k Hcr Hne Hnl Hurl Habs Hcodec Henc Hb Hfs Hbom Hk)
        as [H1 [H2 _]].
      rewrite H1, H2. split; reflexivity.
    Qed.

    Lemma parse_file_bom : forall t n p q b k,
      no_cr t = true ->
      p <> [] -> no_linebreak p = true -> is_url p = false -> absolute q = p ->
      encode enc_utf8 (with_nl n t) = Some b -> fs p = Some (BOM_UTF8 ++ b) ->
      via (RStr p) k = Some (parse t) /\ via (RPath q) k = Some (parse t).
    Proof.
      intros t n p q b k Hcr Hne Hnl Hurl Habs Hb Hfs. unfold via.
      destruct (deliver_file_bom t n p q b k Hcr Hne Hnl Hurl Habs Hb Hfs) as [H1 [H2 _]].
      rewrite H1, H2. split; reflexivity.
    Qed.

    (* the in-memory CRLF string needs the parser's own LF<->CRLF invariance (property C09) *)
    Lemma parse_crlf_string : forall t k,
      no_cr t = true ->
      (2 <= List.length (splitlines t))%nat -> is_url (hd [] (splitlines t)) = false ->
      parse (with_nl CRLF t) = parse t ->
      via (RStr (with_nl CRLF t)) k = Some (parse t) /\ via (RObj (with_nl CRLF t)) k = Some (parse t).
    Proof.
      intros t k Hcr Hlen Hurl HC09. unfold via.
      rewrite (deliver_content_crlf t k Hcr Hlen Hurl). simpl. rewrite HC09. split; reflexivity.
    Qed.

    Lemma channels_parse : forall t n p q k,
      (2 <= List.length (splitlines t))%nat -> is_url (hd [] (splitlines t)) = false ->
      no_cr t = true ->
      p <> [] -> no_linebreak p = true -> is_url p = false -> absolute q = p ->
      (via (RStr t) k = Some (parse t) /\ via (RObj t) k = Some (parse t))
      /\
      (forall enc b, codec_ok' enc -> enc <> [] ->
         encode enc (with_nl n t) = Some b -> fs p = Some b -> has_bom b = false ->
         kw_encoding k = Some enc ->
         via (RStr p) k = Some (parse t) /\ via (RPath q) k = Some (parse t))
      /\
      (forall b, encode enc_utf8 (with_nl n t) = Some b -> fs p = Some (BOM_UTF8 ++ b) ->
         via (RStr p) k = Some (parse t) /\ via (RPath q) k = Some (parse t))
      /\
      (parse (with_nl CRLF t) = parse t ->
         via (RStr (with_nl CRLF t)) k = Some (parse t) /\
         via (RObj (with_nl CRLF t)) k = Some (parse t)).
    Proof.
      intros t n p q k Hlen Hurl Hcr Hne Hnl Hpurl Habs. split; [|split; [|split]].
      - apply parse_in_memory; assumption.
      - intros enc b Hcodec Henc Hb Hfs Hbom Hk.
        exact (parse_file_explicit t n enc p q b k Hcr Hne Hnl Hpurl Habs Hcodec Henc Hb Hfs Hbom Hk).
      - intros b Hb Hfs. exact (parse_file_bom t n p q b k Hcr Hne Hnl Hpurl Habs Hb Hfs).
      - intros HC09. exact (parse_crlf_string t k Hcr Hlen Hurl HC09).
    Qed.
  End Parse.
End ChannelsProofs.

(* the newline hypothesis is satisfiable: the concrete translation meets it *)
Lemma unl_impl_spec : forall n t, no_cr t = true -> unl_impl (with_nl n t) = t.
Proof. exact unl_impl_with_nl. Qed.
