(* Proofs.NumProofs — SectionParser.num converts exactly the plain decimal literals.
   Goes through the generated regex ASTs (Gen/Regexes.v) via RegexFacts.m_ok. *)
From Coq Require Import List NArith ZArith Bool Lia ZifyBool ZifyN.
Import ListNotations.
Require Import PyStr Regex RegexFacts NumLit Regexes Num NumSpec.
Open Scope N_scope.

(* ---------- small list / string facts ------------------------------------------------ *)
Lemma all_digits_forallb s : all_digits s = forallb is_digit s.
Proof. induction s as [|c s IH]; cbn; [reflexivity|]. rewrite IH. reflexivity. Qed.

Lemma forallb_range_digits s : forallb (cmatch (CRange 48 57)) s = all_digits s.
Proof. rewrite all_digits_forallb. reflexivity. Qed.

Lemma digits1_iff s : digits1 s = true <-> s <> [] /\ all_digits s = true.
Proof.
  destruct s as [|c s]; cbn.
  - split; [discriminate | intros [H _]; congruence].
  - split; [intros H; split; [discriminate|exact H] | intros [_ H]; exact H].
Qed.

Lemma all_digits_app a b : all_digits (a ++ b) = all_digits a && all_digits b.
Proof. rewrite !all_digits_forallb. apply forallb_app. Qed.

Lemma udigits_tail_digits s : all_digits s = true -> udigits_tail s false = true.
Proof. induction s as [|c s IH]; cbn; [reflexivity|]. intros H. apply andb_true_iff in H as [Hc Hs]. rewrite Hc. auto. Qed.

Lemma udigits_digits1 s : digits1 s = true -> udigits s = true.
Proof. destruct s as [|c s]; cbn; [discriminate|]. intros H. apply andb_true_iff in H as [Hc Hs]. rewrite Hc. cbn. apply udigits_tail_digits. exact Hs. Qed.

Lemma udigits_tail_alpha s : forall b, udigits_tail s b = true -> forallb is_dig_or_us s = true.
Proof.
  induction s as [|c s IH]; intros b; cbn; [reflexivity|]. unfold is_dig_or_us at 1.
  destruct (is_digit c); cbn.
  - apply IH.
  - destruct (c =? ch_us); [|discriminate]. intros H. apply andb_true_iff in H as [_ H]. eapply IH. exact H.
Qed.

Lemma udigits_alpha s : udigits s = true -> forallb is_dig_or_us s = true.
Proof.
  destruct s as [|c s]; cbn; [discriminate|]. intros H. apply andb_true_iff in H as [Hc H].
  unfold is_dig_or_us at 1. rewrite Hc. cbn. eapply udigits_tail_alpha. exact H.
Qed.

Lemma span_by_all f a b :
  forallb f a = true -> (match b with [] => True | c :: _ => f c = false end) ->
  span_by f (a ++ b) = (a, b).
Proof.
  induction a as [|c a IH]; cbn; intros Ha Hb.
  - destruct b as [|c b]; cbn; [reflexivity|]. rewrite Hb. reflexivity.
  - apply andb_true_iff in Ha as [Hc Ha]. rewrite Hc. rewrite (IH Ha Hb). reflexivity.
Qed.

Lemma digits_dig_or_us s : all_digits s = true -> forallb is_dig_or_us s = true.
Proof. induction s as [|c s IH]; cbn; [reflexivity|]. intros H. apply andb_true_iff in H as [Hc H]. unfold is_dig_or_us at 1. rewrite Hc. cbn. auto. Qed.

(* strip is the identity on strings without white space at either end *)
Lemma lstrip_by_head f c s : f c = false -> lstrip_by f (c :: s) = c :: s.
Proof. intros H. cbn. rewrite H. reflexivity. Qed.

Definition nosp (s : str) : bool := forallb (fun c => negb (is_space c)) s.

Lemma lstrip_nosp s : nosp s = true -> lstrip_by is_space s = s.
Proof. destruct s as [|c s]; cbn; [reflexivity|]. intros H. apply andb_true_iff in H as [Hc _]. apply negb_true_iff in Hc. rewrite Hc. reflexivity. Qed.

Lemma nosp_rev s : nosp s = true -> nosp (rev s) = true.
Proof.
  unfold nosp. rewrite !forallb_forall. intros H x Hx. apply H. apply in_rev. exact Hx.
Qed.

Lemma strip_nosp s : nosp s = true -> strip s = s.
Proof.
  intros H. unfold strip, strip_by, rstrip_by. rewrite (lstrip_nosp s H).
  rewrite (lstrip_nosp (rev s) (nosp_rev s H)). apply rev_involutive.
Qed.

Lemma nosp_app a b : nosp (a ++ b) = nosp a && nosp b.
Proof. apply forallb_app. Qed.

Lemma digit_not_space c : is_digit c = true -> is_space c = false.
Proof. unfold is_digit, is_space. lia. Qed.

Lemma digits_nosp s : all_digits s = true -> nosp s = true.
Proof.
  unfold nosp. induction s as [|c s IH]; cbn [all_digits forallb]; [reflexivity|]. intros H.
  apply andb_true_iff in H as [Hc H]. rewrite (IH H), (digit_not_space c Hc). reflexivity.
Qed.

(* ---------- the comma substitution --------------------------------------------------- *)
Lemma sub1 n : (S n - n = 1)%nat. Proof. lia. Qed.

Lemma comma_m p s :
  m rx_sub_comma (mkst p s []) kdone =
  match s with
  | a :: b :: c :: s'' =>
      if is_digit a && (b =? 44) && is_digit c
      then Some (mkst (c :: b :: a :: p) s'' [(102%nat, [c]); (101%nat, [a])]) else None
  | _ => None
  end.
Proof.
  unfold rx_sub_comma. destruct s as [|a [|b [|c s'']]]; cbn [m pre rem caps cmatch List.length].
  - reflexivity.
  - destruct (is_digit a); reflexivity.
  - destruct (is_digit a); cbn; [|reflexivity]. destruct (b =? 44); reflexivity.
  - destruct (is_digit a); cbn [andb]; [|reflexivity].
    destruct (b =? 44); cbn [andb]; [|reflexivity].
    destruct (is_digit c); [|reflexivity].
    unfold kdone. replace (S (S (S (List.length s''))) - S (S (List.length s'')))%nat with 1%nat by lia. rewrite sub1. reflexivity.
Qed.

Lemma comma_sub_fuel : forall fuel s p, (List.length s < fuel)%nat ->
  sub_fuel fuel rx_sub_comma tpl_sub_comma p s = comma_to_dot s.
Proof.
  induction fuel as [|f IH]; intros s p Hlen; [lia|].
  cbn [sub_fuel]. rewrite comma_m.
  destruct s as [|a [|b [|c s'']]].
  - reflexivity.
  - cbn. destruct f; [cbn in Hlen; lia|]. reflexivity.
  - cbn [comma_to_dot]. rewrite (IH [b] (a :: p)); [reflexivity|cbn in *; lia].
  - cbn [comma_to_dot]. destruct (is_digit a && (b =? 44) && is_digit c) eqn:Hm.
    + cbn [rem pre caps List.length].
      replace (S (S (S (List.length s''))) - List.length s'')%nat with 3%nat by lia.
      cbn [expand tpl_sub_comma flat_map group group_opt Nat.eqb app].
      rewrite (IH s'' (c :: b :: a :: p)); [reflexivity|cbn in *; lia].
    + rewrite (IH (b :: c :: s'') (a :: p)); [reflexivity|cbn in *; lia].
Qed.

Lemma comma_sub_spec s : comma_sub s = comma_to_dot s.
Proof. unfold comma_sub, re_sub. apply comma_sub_fuel. lia. Qed.

(* ---------- the literal guard -------------------------------------------------------- *)
Lemma sign_cls_iff c : cmatch (COr (CChar 43) (CChar 45)) c = true <-> c = 43 \/ c = 45.
Proof. cbn. rewrite orb_true_iff, !N.eqb_eq. tauto. Qed.
Lemma e_cls_iff c : cmatch (COr (CChar 101) (CChar 69)) c = true <-> c = 101 \/ c = 69.
Proof. cbn. rewrite orb_true_iff, !N.eqb_eq. tauto. Qed.

Lemma L_sign p s t : L (Opt (Cls (COr (CChar 43) (CChar 45)))) p s t <-> sign_opt s.
Proof.
  cbn [L]. unfold sign_opt. split.
  - intros [(c & -> & Hc)| ->]; [|auto]. apply sign_cls_iff in Hc as [-> | ->]; auto.
  - intros [-> | [-> | ->]]; [right; reflexivity| |]; left; eexists; split; try reflexivity; reflexivity.
Qed.

Definition guard_ast : re :=
  Seq (Opt (Cls (COr (CChar 43) (CChar 45))))
   (Seq (Grp 101 (Alt (Seq (Plus (CRange 48 57)) (Seq (Opt (Cls (CChar 46))) (Star (CRange 48 57))))
                      (Seq (Cls (CChar 46)) (Plus (CRange 48 57)))))
        (Opt (Grp 102 (Seq (Cls (COr (CChar 101) (CChar 69)))
                        (Seq (Opt (Cls (COr (CChar 43) (CChar 45)))) (Plus (CRange 48 57))))))).

(* the pattern in the source today is the one this proof was written for *)
Lemma guard_is_current : rx_numeric_literal = guard_ast /\ has_numeric_literal_guard = true.
Proof. split; reflexivity. Qed.

Lemma L_mantissa p s t :
  L (Alt (Seq (Plus (CRange 48 57)) (Seq (Opt (Cls (CChar 46))) (Star (CRange 48 57))))
         (Seq (Cls (CChar 46)) (Plus (CRange 48 57)))) p s t <-> mantissa s.
Proof.
  cbn [L]. unfold mantissa. setoid_rewrite forallb_range_digits. split.
  - intros [(s1 & s2 & -> & (Hn & Hd) & (s3 & s4 & -> & Hdot & Hf)) | (s1 & s2 & -> & (c & -> & Hc) & (Hn & Hd))].
    + destruct Hdot as [(c & -> & Hc) | ->].
      * cbn in Hc. apply N.eqb_eq in Hc. subst c. right; left. exists s1, s4. cbn [app].
        rewrite digits1_iff. auto.
      * left. cbn [app]. rewrite digits1_iff. split.
        -- destruct s1; [congruence|discriminate].
        -- rewrite all_digits_app, Hd, Hf. reflexivity.
    + cbn in Hc. apply N.eqb_eq in Hc. subst c. right; right. exists s2. cbn [app].
      rewrite digits1_iff. auto.
  - intros [H | [(ip & fp & -> & Hi & Hf) | (fp & -> & Hf)]].
    + apply digits1_iff in H as [Hn Hd]. left. exists s, []. rewrite app_nil_r. repeat split; auto.
      exists [], []. cbn. auto.
    + apply digits1_iff in Hi as [Hn Hd]. left. exists ip, (46 :: fp). repeat split; auto.
      exists [46], fp. repeat split; auto. left. exists 46. auto.
    + apply digits1_iff in Hf as [Hn Hd]. right. exists [46], fp. repeat split; auto. exists 46. auto.
Qed.

Lemma L_exponent p s t :
  L (Opt (Grp 102 (Seq (Cls (COr (CChar 101) (CChar 69)))
                    (Seq (Opt (Cls (COr (CChar 43) (CChar 45)))) (Plus (CRange 48 57)))))) p s t
  <-> exponent_opt s.
Proof.
  cbn [L]. unfold exponent_opt. setoid_rewrite forallb_range_digits. split.
  - intros [(s1 & s2 & -> & (c & -> & Hc) & (s3 & s4 & -> & Hs & (Hn & Hd))) | ->]; [|auto].
    right. apply e_cls_iff in Hc. exists c, s3, s4. cbn [app]. rewrite digits1_iff.
    repeat split; auto. apply (L_sign (rev [c] ++ p) s3 (s4 ++ t)). exact Hs.
  - intros [-> | (e & sg & ds & -> & He & Hs & Hd)]; [auto|]. left.
    apply digits1_iff in Hd as [Hn Hd]. exists [e], (sg ++ ds). repeat split.
    + exists e. split; [reflexivity|]. apply e_cls_iff. exact He.
    + exists sg, ds. repeat split; auto. apply (L_sign (rev [e] ++ p) sg (ds ++ t)). exact Hs.
Qed.

Lemma guard_iff x : is_some (re_fullmatch guard_ast x) = true <-> plain_decimal x.
Proof.
  change (is_some (re_fullmatch guard_ast x)) with (ok (re_fullmatch guard_ast x)).
  rewrite fullmatch_ok. unfold guard_ast. unfold plain_decimal.
  cbn [L]. split.
  - intros (sg & r & -> & Hs & (mn & ex & -> & Hm & He)).
    exists sg, mn, ex. split; [reflexivity|]. split; [|split].
    + apply (L_sign [] sg ((mn ++ ex) ++ [])). exact Hs.
    + apply (L_mantissa (rev sg ++ []) mn (ex ++ [])). exact Hm.
    + apply (L_exponent (rev mn ++ rev sg ++ []) ex []). exact He.
  - intros (sg & mn & ex & -> & Hs & Hm & He).
    exists sg, (mn ++ ex). split; [reflexivity|]. split.
    + apply (L_sign [] sg ((mn ++ ex) ++ [])). exact Hs.
    + exists mn, ex. split; [reflexivity|]. split.
      * apply (L_mantissa (rev sg ++ []) mn (ex ++ [])). exact Hm.
      * apply (L_exponent (rev mn ++ rev sg ++ []) ex []). exact He.
Qed.

(* ---------- what int()/float() make of a plain decimal literal ------------------------ *)
Lemma nosp_cons c s : nosp (c :: s) = negb (is_space c) && nosp s.
Proof. reflexivity. Qed.

Lemma sign_nosp sg : sign_opt sg -> nosp sg = true.
Proof. intros [-> | [-> | ->]]; reflexivity. Qed.

Lemma mantissa_nosp mn : mantissa mn -> nosp mn = true.
Proof.
  intros [H | [(ip & fp & -> & Hi & Hf) | (fp & -> & Hf)]].
  - apply digits1_iff in H as [_ H]. apply digits_nosp. exact H.
  - apply digits1_iff in Hi as [_ Hi]. rewrite nosp_app. rewrite (digits_nosp _ Hi).
    rewrite nosp_cons, (digits_nosp _ Hf). reflexivity.
  - apply digits1_iff in Hf as [_ Hf]. rewrite nosp_cons, (digits_nosp _ Hf). reflexivity.
Qed.

Lemma exponent_nosp ex : exponent_opt ex -> nosp ex = true.
Proof.
  intros [-> | (e & sg & ds & -> & He & Hs & Hd)]; [reflexivity|].
  apply digits1_iff in Hd as [_ Hd].
  rewrite nosp_cons, nosp_app, (sign_nosp _ Hs), (digits_nosp _ Hd). destruct He as [-> | ->]; reflexivity.
Qed.

Lemma plain_decimal_strip x : plain_decimal x -> strip x = x.
Proof.
  intros (sg & mn & ex & -> & Hs & Hm & He). apply strip_nosp.
  rewrite !nosp_app, (sign_nosp _ Hs), (mantissa_nosp _ Hm), (exponent_nosp _ He). reflexivity.
Qed.

(* first character of a mantissa is a digit or the dot: never a sign *)
Definition starts_dig_or_dot (s : str) : Prop :=
  match s with c :: _ => is_digit c = true \/ c = 46 | [] => False end.

Lemma split_sign_app sg rest : sign_opt sg -> starts_dig_or_dot rest ->
  split_sign (sg ++ rest) = (is_neg sg, rest).
Proof.
  intros Hs Hr. destruct rest as [|c rest]; [destruct Hr|].
  destruct Hs as [-> | [-> | ->]]; cbn; try reflexivity.
  destruct Hr as [Hd | ->]; [|reflexivity].
  unfold is_digit in Hd. apply andb_true_iff in Hd as [H1 H2]. apply N.leb_le in H1, H2.
  unfold ch_minus, ch_plus.
  destruct (N.eqb_spec c 45); [lia|]. destruct (N.eqb_spec c 43); [lia|]. reflexivity.
Qed.

Lemma digits1_starts ds rest : digits1 ds = true -> starts_dig_or_dot (ds ++ rest).
Proof. destruct ds as [|c ds]; cbn; [discriminate|]. intros H. apply andb_true_iff in H as [H _]. left. exact H. Qed.

Lemma mantissa_starts mn rest : mantissa mn -> starts_dig_or_dot (mn ++ rest).
Proof.
  intros [H | [(ip & fp & -> & Hi & Hf) | (fp & -> & Hf)]].
  - apply digits1_starts. exact H.
  - rewrite <- app_assoc. apply digits1_starts. exact Hi.
  - cbn. right. reflexivity.
Qed.

Lemma forallb_false_in {A} (f : A -> bool) l x : In x l -> f x = false -> forallb f l = false.
Proof.
  intros Hin Hf. destruct (forallb f l) eqn:E; [|reflexivity].
  rewrite forallb_forall in E. rewrite (E x Hin) in Hf. discriminate.
Qed.

Lemma udigits_false_in s x : In x s -> is_dig_or_us x = false -> udigits s = false.
Proof.
  intros Hin Hx. destruct (udigits s) eqn:E; [|reflexivity].
  apply udigits_alpha in E. rewrite (forallb_false_in _ _ _ Hin Hx) in E. discriminate.
Qed.

Lemma parse_exp_ok ex : exponent_opt ex ->
  exists ev, parse_exp ex = Some ev.
Proof.
  intros [-> | (e & sg & ds & -> & He & Hs & Hd)]; [exists 0%Z; reflexivity|].
  cbn [parse_exp]. assert (Hie : is_e e = true) by (destruct He as [-> | ->]; reflexivity).
  rewrite Hie. rewrite (split_sign_app sg ds Hs).
  2:{ rewrite <- (app_nil_r ds). apply digits1_starts. exact Hd. }
  rewrite (udigits_digits1 _ Hd). eexists. reflexivity.
Qed.

Lemma exponent_head ex : exponent_opt ex ->
  match ex with [] => True | c :: _ => is_dig_or_us c = false end.
Proof. intros [-> | (e & sg & ds & -> & [-> | ->] & _)]; [exact I| |]; reflexivity. Qed.

Lemma exponent_head_notdot ex : exponent_opt ex ->
  match ex with [] => True | c :: _ => (c =? ch_dot) = false end.
Proof. intros [-> | (e & sg & ds & -> & [-> | ->] & _)]; [exact I| |]; reflexivity. Qed.

Lemma py_float_dec_plain x : plain_decimal x -> exists d, py_float_dec x = Some d.
Proof.
  intros Hx. unfold py_float_dec. rewrite (plain_decimal_strip x Hx).
  destruct Hx as (sg & mn & ex & -> & Hs & Hm & He).
  rewrite (split_sign_app sg (mn ++ ex) Hs (mantissa_starts mn ex Hm)).
  destruct (parse_exp_ok ex He) as (ev & Hev).
  pose proof (exponent_head ex He) as Hh. pose proof (exponent_head_notdot ex He) as Hnd.
  destruct Hm as [H | [(ip & fp & -> & Hi & Hf) | (fp & -> & Hf)]].
  - pose proof H as H'. apply digits1_iff in H' as [Hn Hd].
    rewrite (span_by_all is_dig_or_us mn ex (digits_dig_or_us _ Hd) Hh).
    rewrite (udigits_digits1 _ H).
    destruct ex as [|c ex'].
    + eexists. reflexivity.
    + rewrite Hnd, Hev. eexists. reflexivity.
  - pose proof Hi as Hi'. apply digits1_iff in Hi' as [Hn Hd].
    rewrite <- app_assoc. cbn [app].
    rewrite (span_by_all is_dig_or_us ip (46 :: fp ++ ex) (digits_dig_or_us _ Hd)); [|reflexivity].
    change (46 =? ch_dot) with true. cbv iota.
    rewrite (span_by_all is_dig_or_us fp ex (digits_dig_or_us _ Hf) Hh).
    rewrite (udigits_digits1 _ Hi).
    assert (Hokf : match fp with [] => true | _ => udigits fp end = true).
    { destruct fp as [|c fp']; [reflexivity|]. apply udigits_digits1. exact Hf. }
    assert (Hne : match ip, fp with [], [] => false | _, _ => true end = true).
    { destruct ip; [congruence|reflexivity]. }
    destruct ip as [|i0 ip']; [congruence|].
    rewrite Hokf. cbn [andb]. rewrite Hev. eexists. reflexivity.
  - pose proof Hf as Hf'. apply digits1_iff in Hf' as [Hn Hd]. cbn [app].
    change (span_by is_dig_or_us (46 :: fp ++ ex)) with (@nil char, 46 :: fp ++ ex).
    change (46 =? ch_dot) with true. cbv iota.
    rewrite (span_by_all is_dig_or_us fp ex (digits_dig_or_us _ Hd) Hh).
    rewrite (udigits_digits1 _ Hf). destruct fp as [|f0 fp']; [congruence|].
    cbn [andb]. rewrite Hev. eexists. reflexivity.
Qed.

Lemma py_int_lit_integer x z : plain_integer x z -> py_int_lit x = Some z.
Proof.
  intros (sg & ds & -> & Hs & Hd & ->). unfold py_int_lit.
  assert (Hp : plain_decimal (sg ++ ds)).
  { exists sg, ds, []. rewrite app_nil_r. repeat split; auto. left. exact Hd. left. reflexivity. }
  rewrite (plain_decimal_strip _ Hp).
  rewrite (split_sign_app sg ds Hs).
  2:{ rewrite <- (app_nil_r ds). apply digits1_starts. exact Hd. }
  rewrite (udigits_digits1 _ Hd). reflexivity.
Qed.

Lemma py_int_lit_other x : plain_decimal x -> (forall z, ~ plain_integer x z) -> py_int_lit x = None.
Proof.
  intros Hx Hni. unfold py_int_lit. rewrite (plain_decimal_strip x Hx).
  destruct Hx as (sg & mn & ex & -> & Hs & Hm & He).
  rewrite (split_sign_app sg (mn ++ ex) Hs (mantissa_starts mn ex Hm)).
  assert (Hbad : exists c, In c (mn ++ ex) /\ is_dig_or_us c = false).
  { destruct Hm as [H | [(ip & fp & -> & Hi & Hf) | (fp & -> & Hf)]].
    - destruct He as [-> | (e & sg2 & ds & -> & Hee & _)].
      + exfalso. eapply Hni. exists sg, mn. rewrite app_nil_r. repeat split; eauto.
      + exists e. split; [apply in_or_app; right; left; reflexivity|]. destruct Hee as [-> | ->]; reflexivity.
    - exists 46. split; [|reflexivity]. apply in_or_app; left. apply in_or_app; right. left. reflexivity.
    - exists 46. split; [|reflexivity]. left. reflexivity. }
  destruct Hbad as (c & Hin & Hc). rewrite (udigits_false_in _ _ Hin Hc). reflexivity.
Qed.

(* ---------- the theorems about num ----------------------------------------------------- *)
Lemma num_unfold s :
  num s =
  let x := comma_to_dot s in
  if negb (is_some (re_fullmatch guard_ast x)) then VStr s
  else match py_int_lit x with
       | Some z => if in_int64 z then VInt z else float_path s x
       | None => float_path s x
       end.
Proof.
  unfold num. rewrite comma_sub_spec. destruct guard_is_current as [-> ->]. reflexivity.
Qed.

Theorem num_text s : ~ plain_decimal (comma_to_dot s) -> num s = VStr s.
Proof.
  intros H. rewrite num_unfold. cbv zeta.
  destruct (is_some (re_fullmatch guard_ast (comma_to_dot s))) eqn:E; [|reflexivity].
  apply guard_iff in E. contradiction.
Qed.

Theorem num_int s z : plain_integer (comma_to_dot s) z -> in_int64 z = true -> num s = VInt z.
Proof.
  intros H Hr. rewrite num_unfold. cbv zeta.
  assert (Hp : plain_decimal (comma_to_dot s)).
  { destruct H as (sg & ds & E & Hs & Hd & _). exists sg, ds, []. rewrite app_nil_r.
    repeat split; auto. left; exact Hd. left; reflexivity. }
  apply guard_iff in Hp. rewrite Hp. cbn [negb].
  rewrite (py_int_lit_integer _ _ H), Hr. reflexivity.
Qed.

Theorem num_float s :
  plain_decimal (comma_to_dot s) ->
  (forall z, plain_integer (comma_to_dot s) z -> in_int64 z = false) ->
  exists d, py_float_dec (comma_to_dot s) = Some d /\
            num s = if dec_overflows d then VStr s else VFloat (comma_to_dot s).
Proof.
  intros Hp Hni. rewrite num_unfold. cbv zeta.
  pose proof Hp as Hg. apply guard_iff in Hg. rewrite Hg. cbn [negb].
  destruct (py_float_dec_plain _ Hp) as (d & Hd). exists d. split; [exact Hd|].
  unfold float_path. rewrite Hd.
  destruct (py_int_lit (comma_to_dot s)) as [z|] eqn:Hi; [|reflexivity].
  assert (Hz : in_int64 z = false).
  { destruct (in_int64 z) eqn:Hr; [|reflexivity]. exfalso.
    (* py_int_lit succeeded: the literal is an integer literal *)
    assert (Hcases : (exists z', plain_integer (comma_to_dot s) z') \/ (forall z', ~ plain_integer (comma_to_dot s) z')).
    { destruct Hp as (sg & mn & ex & E & Hs & Hm & He).
      destruct Hm as [H | [(ip & fp & -> & Hi' & Hf) | (fp & -> & Hf)]].
      - destruct He as [-> | (e & sg2 & ds & -> & Hee & Hs2 & Hd2)].
        + left. eexists. exists sg, mn. rewrite app_nil_r in E. repeat split; eauto.
        + right. intros z' Hz'. rewrite (py_int_lit_integer _ _ Hz') in Hi.
          assert (Hnone : py_int_lit (comma_to_dot s) = None).
          { apply py_int_lit_other.
            - exists sg, mn, (e :: sg2 ++ ds). repeat split; auto. left; exact H.
              right. exists e, sg2, ds. auto.
            - intros z'' (sg' & ds' & E' & Hs' & Hd' & _).
              (* the string contains e, an integer literal does not *)
              assert (Hine : In e (comma_to_dot s)).
              { rewrite E. apply in_or_app; right. apply in_or_app; right. left. reflexivity. }
              rewrite E' in Hine. apply in_app_or in Hine as [Hin | Hin].
              + destruct Hs' as [-> | [-> | ->]]; cbn in Hin; destruct Hee as [-> | ->]; intuition discriminate.
              + apply digits1_iff in Hd' as [_ Hd']. rewrite all_digits_forallb, forallb_forall in Hd'.
                specialize (Hd' e Hin). destruct Hee as [-> | ->]; discriminate. }
          rewrite (py_int_lit_integer _ _ Hz') in Hnone. discriminate.
      - right. intros z' (sg' & ds' & E' & Hs' & Hd' & _).
        assert (Hin : In 46 (comma_to_dot s)).
        { rewrite E. apply in_or_app; right. apply in_or_app; left. apply in_or_app; right. left. reflexivity. }
        rewrite E' in Hin. apply in_app_or in Hin as [Hin | Hin].
        + destruct Hs' as [-> | [-> | ->]]; cbn in Hin; intuition discriminate.
        + apply digits1_iff in Hd' as [_ Hd']. rewrite all_digits_forallb, forallb_forall in Hd'.
          specialize (Hd' 46 Hin). discriminate.
      - right. intros z' (sg' & ds' & E' & Hs' & Hd' & _).
        assert (Hin : In 46 (comma_to_dot s)).
        { rewrite E. apply in_or_app; right. apply in_or_app; left. left. reflexivity. }
        rewrite E' in Hin. apply in_app_or in Hin as [Hin | Hin].
        + destruct Hs' as [-> | [-> | ->]]; cbn in Hin; intuition discriminate.
        + apply digits1_iff in Hd' as [_ Hd']. rewrite all_digits_forallb, forallb_forall in Hd'.
          specialize (Hd' 46 Hin). discriminate. }
    destruct Hcases as [(z' & Hz') | Hnone].
    - pose proof (py_int_lit_integer _ _ Hz') as Hi2. rewrite Hi in Hi2. injection Hi2 as ->.
      rewrite (Hni _ Hz') in Hr. discriminate.
    - rewrite (py_int_lit_other _ Hp Hnone) in Hi. discriminate. }
  rewrite Hz. reflexivity.
Qed.
