(* Proofs.FuncsPins — the hand-written model functions ARE the Python functions.

   Gen/Funcs.v is re-translated from /repo on every run (translators/funcs.py: a small,
   fail-closed translator from a Python subset to Gallina).  Each theorem below says that a
   model function equals the generated definition for ALL inputs, so an edit of the Python
   function changes Gen/Funcs.v and breaks the theorem (and every Props file that restates
   it) unless the edit leaves the function's meaning unchanged.

     configure_patterns_pin   Model/HeaderLine.configure_patterns  = reader.configure_metadata_patterns
     section_type_pin         Model/Sections.section_type          = reader.determine_section_type
     strip_brackets_pin       Model/SectionParse.strip_brackets    = SectionParser.strip_brackets
     useful_pin, useful_of_pin        SectionParse.useful / Items.useful_of = HeaderItem.useful_mnemonic
     mn_compare_pin, mnemonic_compare_pin   SectionParse.mn_compare / Items.mnemonic_compare
                                                                    = SectionItems.mnemonic_compare
     standardize_pin          Model/Writer.standardize             = writer.standardize_value
     route_pin                Model/Read.route                     = the section-letter chain of LASFile.read
     order_of_pin             Model/Writer.order_of                = writer.get_section_order_function
     format_item_pin          Model/Writer.format_item             = writer.get_formatter_function
     widths_pin               the two widths of Writer.section_lines = writer.get_section_widths (+ HeaderItem.__getitem__)
     num_pin                  Model/Num.num                        = SectionParser.num (np.int64 / np.float64 / np.isfinite
                                                                      are operations of num_ops, read by num_hval_ops)
     curves_pin, params_pin, metadata_pin   SectionParse.build_item = SectionParser.curves / params / metadata
     parser_init_pin, parser_call_pin   kind_of_title / parser_entry = SectionParser.__init__; the parser it builds,
                                                                      applied to a line, is build_item
     header_fields_pin        HeaderLine.read_header_line's use of the groups = the m.groupdict() loop of read_header_line
     json_value_pin, json_sample_pin   Export.json_of_value / json_of_sample = las._json_value + json's own dispatch
     section_contains_pin, section_getitem_pin   Items.contains / getitem (str key) = SectionItems.__contains__ / __getitem__
     read_header_line_pin     HeaderLine.read_header_line          = the whole of reader.read_header_line (pattern=None)
     steering_pin             Read.update_steering                 = the steering block of LASFile.read
     bind_pin, n_columns_pin  Read.null_columns / bind_columns / data_for_curves, read_one_data's column count
                                                                    = the column-binding block / reader_n_columns of LASFile.read
     lnf_pin, col_fmt_pin, left_spacing_pin, field_text_pin, data_rows_pin
                              Writer.field_width / col_fmt / field_text / row_text (+ wrap) = the data section of writer.write
     assign_pin, append_pin, insert_pin, set_item_pin, delitem_pin
                              Items.assign_suffixes / append / insert / set_item / delitem (str key)
                                                                    = SectionItems' mutators as list-to-list functions
                              (FuncsPinSteering, FuncsPinBind, FuncsPinWriteData; FuncsPinMutators imports Items: not
                               re-exported here, like FuncsPinSection)
     inspect_pin              DataRead.inspect (inspect_loop / all_equal / drop_hyphen_subs) on Sections.body_lines
                                                                    = the whole of reader.inspect_data_section, the file object
                                                                      being the list of the lines that remain
     inspect_twice_pin, read_policy_tables   DataRead.inspect_twice = the inspect / accept / inspect-again statements of
                                                                      LASFile.read; default_subs / comma_delim_subs = what
                                                                      defaults.READ_POLICIES and READ_SUBS hold
     engine_items_pin, engine_array_pin      DataRead.normal_items   = the generator `items` of the normal engine (the list it
                                                                      yields) / np.array of it over Sections.body_lines
     parse_section_pin        SectionParse.parse_section (parse_body) on Sections.body_lines
                                                                    = the whole of reader.parse_header_items_section (with the
                                                                      translated SectionParser.__init__ / __call__, read_line)
     version_section_pin, well_section_pin, curves_section_pin, params_section_pin
                              Writer.title_line + Writer.section_lines over Writer.standardize-d items
                                                                    = the block of writer.write that emits each header section
     line_splitter_pin        DataRead.split_line                  = what reader.define_line_splitter returns
     open_with_codecs_pin     Channels.open_with_codecs (choose_encoding, io_open_text)
                                                                    = reader.open_with_codecs over the model's world
                              (FuncsPinInspect, FuncsPinEngine, FuncsPinParseSection, FuncsPinWriteHeader, FuncsPinCodecs: not
                               re-exported here)

   One file per pinned function or group (FuncsPinConfigure, FuncsPinSectionType, FuncsPinRoute,
   FuncsPinSectionParse, FuncsPinItems, FuncsPinStandardize, FuncsPinWriter, FuncsPinNum, FuncsPinParser, FuncsPinParserInit,
   FuncsPinHeaderLine, FuncsPinJson, FuncsPinSection; shared lemmas in FuncsPinsLib), so
   that a property depends only on the pins of the functions it relies on; this file
   re-exports them all.

   What the generated side means is fixed by the prelude of Gen/Funcs.v (pyo_find, pyo_slice,
   pyo_item, ... : Python's find / slicing / indexing rules over code-point lists). *)
Require Export FuncsPinsLib FuncsPinConfigure FuncsPinSectionType FuncsPinSectionParse FuncsPinItems
  FuncsPinStandardize FuncsPinRoute FuncsPinWriter FuncsPinNum FuncsPinParser FuncsPinParserInit FuncsPinHeaderLine
  FuncsPinJson FuncsPinSteering FuncsPinBind FuncsPinWriteData.
(* FuncsPinSection is not re-exported here: Model/Items.v and Funcs.v both have fields named it_unit / it_value /
   it_descr; import it on its own. *)
