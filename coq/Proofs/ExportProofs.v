(* Proofs.ExportProofs — lemmas about Model/Export.v (C18). *)
From Coq Require Import List NArith ZArith Bool String QArith Lia ZifyBool ZifyN ZifyNat Arith.
Import ListNotations.
Require Import PyStr Tables Export.
Open Scope string_scope.
Open Scope list_scope.
Open Scope N_scope.

(* ------------------------------------------------------------------------------------ *)
(* strings *)
Lemma str_eqb_refl : forall a : list N, str_eqb a a = true.
Proof. induction a as [|x a IH]; simpl; [reflexivity|]. rewrite N.eqb_refl, IH. reflexivity. Qed.

Lemma str_eqb_eq : forall a b : list N, str_eqb a b = true <-> a = b.
Proof.
  induction a as [|x a IH]; intros [|y b]; simpl; split; intro H; try reflexivity; try discriminate.
  - apply andb_true_iff in H. destruct H as [H1 H2]. apply N.eqb_eq in H1. apply IH in H2. subst. reflexivity.
  - injection H as -> ->. rewrite N.eqb_refl. simpl. apply str_eqb_refl.
Qed.

Lemma str_eqb_neq : forall a b : list N, str_eqb a b = false <-> a <> b.
Proof.
  intros a b. split; intro H.
  - intro E. apply str_eqb_eq in E. congruence.
  - destruct (str_eqb a b) eqn:E; [|reflexivity]. apply str_eqb_eq in E. contradiction.
Qed.

Lemma str_eqb_sym : forall a b : list N, str_eqb a b = str_eqb b a.
Proof.
  intros a b. destruct (str_eqb a b) eqn:E.
  - apply str_eqb_eq in E. subst. symmetry. apply str_eqb_refl.
  - symmetry. apply str_eqb_neq. apply str_eqb_neq in E. congruence.
Qed.

(* ------------------------------------------------------------------------------------ *)
(* generic list facts *)
Lemma nth_error_seq : forall n s i, (i < n)%nat -> nth_error (seq s n) i = Some (s + i)%nat.
Proof.
  induction n as [|n IH]; intros s i Hi; [lia|].
  destruct i as [|i]; simpl.
  - f_equal. lia.
  - rewrite IH by lia. f_equal. lia.
Qed.

Lemma nth_error_map_some : forall {A B : Type} (f : A -> B) l i y,
  nth_error (map f l) i = Some y -> exists x, nth_error l i = Some x /\ y = f x.
Proof.
  intros A B f l. induction l as [|a l IH]; intros [|i] y H; simpl in *; try discriminate.
  - injection H as <-. eauto.
  - eauto.
Qed.

Lemma nth_error_map_of : forall {A B : Type} (f : A -> B) l i x,
  nth_error l i = Some x -> nth_error (map f l) i = Some (f x).
Proof.
  intros A B f l. induction l as [|a l IH]; intros [|i] x H; simpl in *; try discriminate.
  - injection H as <-. reflexivity.
  - eauto.
Qed.

Lemma flat_map_ext_in : forall {A B : Type} (f g : A -> list B) l,
  (forall x, In x l -> f x = g x) -> flat_map f l = flat_map g l.
Proof.
  intros A B f g l. induction l as [|a l IH]; intro H; simpl; [reflexivity|].
  rewrite H by (left; reflexivity). rewrite IH; [reflexivity|]. intros x Hx. apply H. right. exact Hx.
Qed.

Lemma flat_map_map : forall {A B C : Type} (g : A -> B) (f : B -> list C) l,
  flat_map f (map g l) = flat_map (fun x => f (g x)) l.
Proof. intros A B C g f l. induction l as [|a l IH]; simpl; [reflexivity|]. rewrite IH. reflexivity. Qed.

Lemma option_id_match : forall {A : Type} (o : option A), match o with Some x => Some x | None => None end = o.
Proof. intros A [x|]; reflexivity. Qed.

(* ------------------------------------------------------------------------------------ *)
(* dict *)
Lemma in_dict_set : forall {A : Type} k (v : A) d a b,
  In (a, b) (dict_set k v d) -> b = v \/ In (a, b) d.
Proof.
  intros A k v d. induction d as [|[k' v'] t IH]; intros a b H; simpl in H.
  - destruct H as [H|[]]. injection H as _ <-. left. reflexivity.
  - destruct (str_eqb k' k) eqn:E.
    + destruct H as [H|H]; [injection H as _ <-; left; reflexivity|]. right. right. exact H.
    + destruct H as [H|H]; [right; left; exact H|]. apply IH in H. destruct H as [H|H]; [left; exact H|right; right; exact H].
Qed.

Lemma in_dict_of_rev : forall {A : Type} (kvs : list (list N * A)) a b,
  In (a, b) (dict_of_rev kvs) -> exists a', In (a', b) kvs.
Proof.
  intros A kvs. induction kvs as [|[k v] t IH]; intros a b H; simpl in H; [contradiction|].
  apply in_dict_set in H. destruct H as [->|H].
  - exists k. left. reflexivity.
  - apply IH in H. destruct H as [a' H]. exists a'. right. exact H.
Qed.

Lemma in_dict_of : forall {A : Type} (kvs : list (list N * A)) a b,
  In (a, b) (dict_of kvs) -> exists a', In (a', b) kvs.
Proof.
  intros A kvs a b H. unfold dict_of in H. apply in_dict_of_rev in H. destruct H as [a' H].
  exists a'. apply in_rev. exact H.
Qed.

Lemma dict_get_set : forall {A : Type} k (v : A) d q,
  dict_get q (dict_set k v d) = if str_eqb k q then Some v else dict_get q d.
Proof.
  intros A k v d q. induction d as [|[k' v'] t IH]; simpl.
  - reflexivity.
  - destruct (str_eqb k' k) eqn:E; simpl.
    + apply str_eqb_eq in E. subst k'. destruct (str_eqb k q); reflexivity.
    + rewrite IH. destruct (str_eqb k' q) eqn:E2; [|reflexivity].
      apply str_eqb_eq in E2. subst k'. rewrite str_eqb_sym, E. reflexivity.
Qed.

Lemma dict_get_of_rev : forall {A : Type} (l : list (list N * A)) k v,
  NoDup (map fst l) -> In (k, v) l -> dict_get k (dict_of_rev l) = Some v.
Proof.
  intros A l. induction l as [|[k1 v1] t IH]; intros k v Hnd Hin; simpl in *; [contradiction|].
  rewrite dict_get_set. inversion Hnd as [|? ? Hnot Hnd']; subst.
  destruct Hin as [Hin|Hin].
  - injection Hin as -> ->. rewrite str_eqb_refl. reflexivity.
  - destruct (str_eqb k1 k) eqn:E.
    + apply str_eqb_eq in E. subst k1. exfalso. apply Hnot. apply in_map_iff. exists (k, v). split; [reflexivity|exact Hin].
    + apply IH; assumption.
Qed.

Lemma dict_get_of : forall {A : Type} (l : list (list N * A)) k v,
  NoDup (map fst l) -> In (k, v) l -> dict_get k (dict_of l) = Some v.
Proof.
  intros A l k v Hnd Hin. unfold dict_of. apply dict_get_of_rev.
  - rewrite map_rev. apply NoDup_rev. exact Hnd.
  - apply in_rev. rewrite rev_involutive. exact Hin.
Qed.

Lemma dict_get_map : forall {A B : Type} (f : A -> B) (d : list (list N * A)) k,
  dict_get k (map (fun kv => (fst kv, f (snd kv))) d) = option_map f (dict_get k d).
Proof.
  intros A B f d k. induction d as [|[k' v] t IH]; simpl; [reflexivity|].
  destruct (str_eqb k' k); [reflexivity|exact IH].
Qed.

(* ------------------------------------------------------------------------------------ *)
(* JSON *)
Lemma json_of_float_strict : forall f, atom_strict (json_of_float f) = true.
Proof. intros [id| | |]; reflexivity. Qed.
Lemma json_of_value_strict : forall v, atom_strict (json_of_value v) = true.
Proof. intros [s|z|z|f|]; simpl; try reflexivity. apply json_of_float_strict. Qed.
Lemma json_of_sample_strict : forall x, atom_strict (json_of_sample x) = true.
Proof. intros [f|s]; simpl; [apply json_of_float_strict|reflexivity]. Qed.

Lemma json_section_strict : forall s, sect_strict (json_section s) = true.
Proof.
  intros [t|l]; simpl; [reflexivity|].
  induction (dictview l) as [|[k v] d IH]; simpl; [reflexivity|].
  rewrite json_of_value_strict. exact IH.
Qed.

Lemma to_json_strict : forall l, strict_json (to_json l) = true.
Proof.
  intro l. unfold strict_json, to_json. cbn [jmeta jdata]. apply andb_true_iff. split.
  - apply forallb_forall. intros [n s] Hin. apply in_map_iff in Hin. destruct Hin as [[n' s'] [E _]].
    injection E as <- <-. simpl. apply json_section_strict.
  - apply forallb_forall. intros [k col] Hin. apply in_dict_of in Hin. destruct Hin as [k' Hin].
    apply in_map_iff in Hin. destruct Hin as [c [E _]]. injection E as _ <-. simpl.
    apply forallb_forall. intros a Ha. apply in_map_iff in Ha. destruct Ha as [x [<- _]]. apply json_of_sample_strict.
Qed.

(* the keys of a standard section carry the values of its items *)
Lemma json_dict_values : forall its,
  NoDup (map session its) ->
  forall it, In it its ->
    dict_get (session it) (map (fun kv => (fst kv, json_of_value (snd kv))) (dictview its))
    = Some (json_of_value (value it)).
Proof.
  intros its Hnd it Hin. rewrite dict_get_map. unfold dictview.
  rewrite (dict_get_of _ (session it) (value it)).
  - reflexivity.
  - rewrite map_map. simpl. exact Hnd.
  - apply in_map_iff. exists it. split; [reflexivity|exact Hin].
Qed.

Definition std_items (l : las) : list (list N * list item) :=
  [ (s2l "Version", version l); (s2l "Well", well l); (s2l "Curves", curves l); (name_params, params l) ].

Lemma to_json_values : forall l,
  (forall name its, In (name, its) (std_items l) -> NoDup (map session its) ->
     exists d, dict_get name (jmeta (to_json l)) = Some (JDict d) /\
               forall it, In it its -> dict_get (session it) d = Some (json_of_value (value it)))
  /\ dict_get (s2l "Other") (jmeta (to_json l)) = Some (JText (other l))
  /\ (NoDup (map session (curves l)) ->
      forall c, In c (curves l) ->
        dict_get (session c) (jdata (to_json l)) = Some (map json_of_sample (data c))).
Proof.
  intro l. split; [|split].
  - intros name its Hin Hnd. unfold std_items in Hin. simpl in Hin.
    destruct Hin as [E|[E|[E|[E|[]]]]]; injection E as <- <-;
      (eexists; split; [reflexivity|]);
      intros it Hit; apply json_dict_values; assumption.
  - reflexivity.
  - intros Hnd c Hc. unfold to_json. cbn [jdata].
    apply dict_get_of.
    + rewrite map_map. simpl. exact Hnd.
    + apply in_map_iff. exists c. split; [reflexivity|exact Hc].
Qed.

(* ------------------------------------------------------------------------------------ *)
(* the data matrix *)
Definition rect (n : nat) (cols : list (list sample)) : Prop :=
  forall d, In d cols -> List.length d = n.

Lemma same_len_rect : forall n cols, rect n cols -> same_len cols = true.
Proof.
  intros n [|c t] H; simpl; [reflexivity|].
  apply forallb_forall. intros d Hd. apply Nat.eqb_eq.
  rewrite (H d) by (right; exact Hd). rewrite (H c) by (left; reflexivity). reflexivity.
Qed.

Lemma data_rows_rect : forall n c cols, rect n (c :: cols) ->
  data_rows (c :: cols) = Ok (map (fun i => row_at i (c :: cols)) (seq 0 n)).
Proof.
  intros n c cols H. unfold data_rows. rewrite (same_len_rect n) by exact H.
  rewrite (H c) by (left; reflexivity). reflexivity.
Qed.

Lemma cell_at_some : forall i (d : list sample), (i < List.length d)%nat ->
  exists x, nth_error d i = Some x /\ cell_at i d = [x].
Proof.
  intros i d Hi. unfold cell_at. destruct (nth_error d i) as [x|] eqn:E.
  - exists x. split; reflexivity.
  - apply nth_error_None in E. lia.
Qed.

(* row i holds, in curve order, the sample of every curve at depth step i *)
Lemma row_at_spec : forall i cols, (forall d, In d cols -> (i < List.length d)%nat) ->
  Forall2 (fun d x => nth_error d i = Some x) cols (row_at i cols).
Proof.
  intros i cols. induction cols as [|d t IH]; intro H; unfold row_at; simpl.
  - constructor.
  - destruct (cell_at_some i d) as [x [Hx Hc]]; [apply H; left; reflexivity|].
    rewrite Hc. simpl. constructor; [exact Hx|]. apply IH. intros d' Hd'. apply H. right. exact Hd'.
Qed.

Lemma row_at_nth : forall i cols, (forall d, In d cols -> (i < List.length d)%nat) ->
  forall j, nth_error (row_at i cols) j =
            match nth_error cols j with Some d => nth_error d i | None => None end.
Proof.
  intros i cols. induction cols as [|d t IH]; intros H j; unfold row_at; simpl.
  - destruct j; reflexivity.
  - destruct (cell_at_some i d) as [x [Hx Hc]]; [apply H; left; reflexivity|].
    rewrite Hc. simpl. destruct j as [|j]; simpl.
    + symmetry. exact Hx.
    + apply IH. intros d' Hd'. apply H. right. exact Hd'.
Qed.

Lemma cells_seq : forall d : list sample,
  flat_map (fun i => cell_at i d) (seq 0 (List.length d)) = d.
Proof.
  induction d as [|x d IH]; simpl; [reflexivity|].
  unfold cell_at at 1. simpl. f_equal.
  rewrite <- seq_shift. rewrite flat_map_map. exact IH.
Qed.

(* M[:, j] of the matrix built from equally long columns is column j *)
Lemma column_of_rows : forall n cols rows, rect n cols -> data_rows cols = Ok rows ->
  forall j d, nth_error cols j = Some d -> column_of j rows = d.
Proof.
  intros n cols rows Hrect Hrows j d Hj.
  destruct cols as [|c t]; [destruct j; discriminate|].
  rewrite (data_rows_rect n) in Hrows by exact Hrect. injection Hrows as <-.
  unfold column_of. rewrite flat_map_map.
  assert (Hd : List.length d = n). { apply Hrect. eapply nth_error_In. exact Hj. }
  transitivity (flat_map (fun i => cell_at i d) (seq 0 n)); [|rewrite <- Hd; apply cells_seq].
  apply flat_map_ext_in. intros i Hi. apply in_seq in Hi.
  change (cell_at i c ++ row_at i t) with (row_at i (c :: t)).
  unfold cell_at at 1. rewrite row_at_nth.
  - rewrite Hj. reflexivity.
  - intros d' Hd'. rewrite (Hrect d' Hd'). lia.
Qed.

Lemma rect_map_data : forall n (cs : list item),
  (forall c, In c cs -> List.length (data c) = n) -> rect n (map data cs).
Proof.
  intros n cs H d Hd. apply in_map_iff in Hd. destruct Hd as [c [<- Hc]]. apply H. exact Hc.
Qed.

(* ------------------------------------------------------------------------------------ *)
(* to_csv *)
Lemma forall2_map_fields : forall (str_of : fid -> list N) i (cs : list item) row,
  Forall2 (fun d x => nth_error d i = Some x) (map data cs) row ->
  Forall2 (fun c f => exists x, nth_error (data c) i = Some x /\ f = field_of str_of x)
          cs (map (field_of str_of) row).
Proof.
  intros str_of i cs. induction cs as [|c t IH]; intros row H; simpl in H; inversion H; subst; simpl.
  - constructor.
  - constructor; [eexists; split; [eassumption|reflexivity]|]. apply IH. assumption.
Qed.

Lemma to_csv_rows : forall str_of l o n,
  (forall c, In c (curves l) -> List.length (data c) = n) ->
  exists rows,
    to_csv str_of l o = Ok (csv_header (curves l) o ++ rows)
    /\ List.length rows = (match curves l with [] => 0 | _ => n end)%nat
    /\ forall i row, nth_error rows i = Some row ->
         Forall2 (fun c f => exists x, nth_error (data c) i = Some x /\ f = field_of str_of x)
                 (curves l) row.
Proof.
  intros str_of l o n Hn. unfold to_csv.
  destruct (curves l) as [|c cs] eqn:Ecs.
  - simpl. exists []. split; [reflexivity|]. split; [reflexivity|]. intros [|i] row H; discriminate.
  - assert (Hrect : rect n (map data (c :: cs))) by (apply rect_map_data; exact Hn).
    simpl map in *. rewrite (data_rows_rect n) by exact Hrect.
    eexists. split; [reflexivity|]. split.
    + rewrite !map_length, seq_length. reflexivity.
    + intros i row Hrow.
      apply nth_error_map_some in Hrow. destruct Hrow as [r [Hr ->]].
      apply nth_error_map_some in Hr. destruct Hr as [i' [Hi' ->]].
      assert (Hlt : (i < n)%nat).
      { rewrite <- (seq_length n 0). apply nth_error_Some. congruence. }
      rewrite nth_error_seq in Hi' by exact Hlt. injection Hi' as <-. simpl.
      apply (forall2_map_fields str_of i (c :: cs)).
      apply row_at_spec. intros d Hd. rewrite (Hrect d Hd). exact Hlt.
Qed.

(* the header rows, case by case (names / units: what was requested) *)
Definition requested (s : sel) (dflt : list (list N)) : list (list N) :=
  match s with SelTrue => dflt | SelFalse => [] | SelList x => x end.

Lemma csv_header_spec : forall cs o,
  let mn := requested (o_mnemonics o) (map orig cs) in
  let un := requested (o_units o) (map unit_ cs) in
  csv_header cs o =
    (match mn with
     | [] => []
     | _ => [ match o_loc o, un with
              | LocSquare, _ :: _ => zip_with (bracketed 91 93) mn un
              | LocRound, _ :: _ => zip_with (bracketed 40 41) mn un
              | _, _ => mn
              end ]
     end)
    ++ (match un, o_loc o with
        | _ :: _, LocLine => [un]
        | _, _ => []
        end).
Proof.
  intros cs o. unfold csv_header, requested.
  destruct (o_mnemonics o), (o_units o), (o_loc o); simpl;
    repeat match goal with |- context [nonempty ?x] => destruct x; simpl end; reflexivity.
Qed.

(* ------------------------------------------------------------------------------------ *)
(* df *)
Lemma mapi_from_ext : forall {A B : Type} (f : nat -> A -> B) (g : A -> B) l n,
  (forall j x, nth_error l j = Some x -> f (n + j)%nat x = g x) -> mapi_from f n l = map g l.
Proof.
  intros A B f g l. induction l as [|a l IH]; intros n H; simpl; [reflexivity|].
  rewrite <- (H 0%nat a eq_refl). rewrite Nat.add_0_r. f_equal.
  apply IH. intros j x Hj. rewrite <- (H (S j) x Hj). f_equal. lia.
Qed.

Lemma df_view_spec : forall l n,
  (forall c, In c (curves l) -> List.length (data c) = n) ->
  df_view l =
    match curves l with
    | [] => Ok {| df_index_name := None; df_index := []; df_cols := [] |}
    | c0 :: rest => Ok {| df_index_name := Some (session c0); df_index := data c0;
                          df_cols := map (fun c => (session c, data c)) rest |}
    end.
Proof.
  intros l n Hn. unfold df_view.
  destruct (curves l) as [|c0 rest] eqn:Ecs; [reflexivity|].
  assert (Hrect : rect n (map data (c0 :: rest))) by (apply rect_map_data; exact Hn).
  destruct (data_rows (map data (c0 :: rest))) as [rows|e] eqn:Erows.
  2:{ simpl map in *. rewrite (data_rows_rect n) in Erows by exact Hrect. discriminate. }
  rewrite (mapi_from_ext _ (fun c => (session c, data c))).
  - simpl. rewrite str_eqb_refl. reflexivity.
  - intros j x Hj. simpl. f_equal.
    apply (column_of_rows n (map data (c0 :: rest)) rows Hrect Erows).
    apply nth_error_map_of. exact Hj.
Qed.

(* ------------------------------------------------------------------------------------ *)
(* set_data_from_df (df ()) *)
Section RoundTrip.
Variable upper : list N -> list N.

Lemma assign_aux_id : forall ci all its seen,
  (forall it, In it its -> (count_cmp upper ci (useful (orig it)) all <= 1)%nat) ->
  assign_aux upper ci all seen its = its.
Proof.
  intros ci all its. induction its as [|it t IH]; intros seen H; simpl; [reflexivity|].
  assert (E : Nat.ltb 1 (count_cmp upper ci (useful (orig it)) all) = false).
  { apply Nat.ltb_ge. apply H. left. reflexivity. }
  rewrite E. f_equal. apply IH. intros it' Hit'. apply H. right. exact Hit'.
Qed.

Definition renamed (c : item) : item := rename (session c) (set_samples (data c) c).

Lemma set_cols_df : forall rows suf j,
  (forall k c, nth_error suf k = Some c -> column_of (j + k)%nat rows = data c) ->
  set_cols (map session suf) rows j suf = Ok (map renamed suf).
Proof.
  intros rows suf. induction suf as [|c t IH]; intros j H; simpl; [reflexivity|].
  rewrite (IH (S j)).
  - unfold renamed at 2. rewrite <- (H 0%nat c eq_refl). rewrite Nat.add_0_r. reflexivity.
  - intros k c' Hk. rewrite <- (H (S k) c' Hk). f_equal. lia.
Qed.

Lemma useful_nonblank : forall s, blank s = false -> useful s = s.
Proof. intros s H. unfold useful. rewrite H. reflexivity. Qed.

Definition names_ok (ci : bool) (cs : list item) : Prop :=
  (forall c, In c cs -> blank (session c) = false) /\
  (forall c, In c cs -> (count_cmp upper ci (session c) (map session cs) <= 1)%nat).

Lemma map_useful_renamed : forall cs,
  (forall c, In c cs -> blank (session c) = false) ->
  map (fun it => useful (orig it)) (map renamed cs) = map session cs.
Proof.
  intros cs H. rewrite map_map. apply map_ext_in. intros c Hc. simpl. apply useful_nonblank. apply H. exact Hc.
Qed.

Lemma roundtrip_rows : forall l n d,
  (0 < n)%nat ->
  curves l <> [] ->
  (forall c, In c (curves l) -> List.length (data c) = n) ->
  names_ok (curves_ci l) (curves l) ->
  df_view l = Ok d ->
  exists l', set_data_from_df upper d l = Ok l'
    /\ map session (curves l') = map session (curves l)
    /\ map data (curves l') = map data (curves l)
    /\ map orig (curves l') = map session (curves l)
    /\ version l' = version l /\ well l' = well l /\ params l' = params l /\ other l' = other l
    /\ extra l' = extra l /\ index_unit l' = index_unit l.
Proof.
  intros l n d Hn Hne Hlen [Hblank Hcount] Hdf.
  rewrite (df_view_spec l n Hlen) in Hdf.
  destruct (curves l) as [|c0 rest] eqn:Ecs; [contradiction|]. injection Hdf as <-.
  unfold set_data_from_df. cbn [df_index_name df_index df_cols].
  rewrite !map_map. cbn [fst snd].
  change (data c0 :: map (fun x => data x) rest) with (map data (c0 :: rest)).
  change (session c0 :: map (fun x => session x) rest) with (map session (c0 :: rest)).
  assert (Hrect : rect n (map data (c0 :: rest))) by (apply rect_map_data; exact Hlen).
  unfold set_data.
  destruct (data_rows (map data (c0 :: rest))) as [rows|e] eqn:Erows.
  2:{ simpl map in *. rewrite (data_rows_rect n) in Erows by exact Hrect. discriminate. }
  assert (Hrows : nonempty rows = true).
  { simpl map in Erows. rewrite (data_rows_rect n) in Erows by exact Hrect. injection Erows as <-.
    destruct n; [lia|]. reflexivity. }
  rewrite Hrows. rewrite Ecs. cbn [nonempty map andb].
  change (session c0 :: map session rest) with (map session (c0 :: rest)).
  change (data c0 :: map data rest) with (map data (c0 :: rest)).
  rewrite !map_length. rewrite Nat.eqb_refl.
  rewrite Nat.sub_diag. cbn [repeat]. rewrite app_nil_r.
  rewrite (set_cols_df rows (c0 :: rest) 0).
  2:{ intros k c Hk. simpl. apply (column_of_rows n (map data (c0 :: rest)) rows Hrect Erows).
      apply nth_error_map_of. exact Hk. }
  eexists. split; [reflexivity|].
  unfold with_curves. cbn [curves version well params other extra index_unit].
  unfold assign_suffixes. rewrite map_useful_renamed by exact Hblank.
  rewrite assign_aux_id.
  - repeat split.
    + rewrite map_map. apply map_ext_in. intros c Hc. simpl. apply useful_nonblank. apply Hblank. exact Hc.
    + rewrite map_map. reflexivity.
    + rewrite map_map. reflexivity.
  - intros it Hit. apply in_map_iff in Hit. destruct Hit as [c [<- Hc]]. simpl.
    rewrite useful_nonblank by (apply Hblank; exact Hc). apply Hcount. exact Hc.
Qed.

(* no depth steps: nothing is renamed or re-assigned; names survive when the section is in the
   state assign_duplicate_suffixes leaves it in (an invariant of SectionItems: C13) *)
Lemma roundtrip_norows : forall l d,
  (forall c, In c (curves l) -> List.length (data c) = 0%nat) ->
  assign_suffixes upper (curves_ci l) (curves l) = curves l ->
  df_view l = Ok d ->
  exists l', set_data_from_df upper d l = Ok l' /\ curves l' = curves l.
Proof.
  intros l d Hlen Hinv Hdf.
  rewrite (df_view_spec l 0%nat Hlen) in Hdf.
  destruct (curves l) as [|c0 rest] eqn:Ecs; injection Hdf as <-.
  - unfold set_data_from_df. cbn. rewrite Ecs. rewrite Hinv.
    eexists. split; [reflexivity|]. reflexivity.
  - unfold set_data_from_df. cbn [df_index_name df_index df_cols].
    rewrite !map_map. cbn [fst snd].
    change (data c0 :: map (fun x => data x) rest) with (map data (c0 :: rest)).
    assert (Hrect : rect 0%nat (map data (c0 :: rest))) by (apply rect_map_data; exact Hlen).
    unfold set_data. simpl map. rewrite (data_rows_rect 0%nat) by exact Hrect.
    cbn [seq map nonempty andb]. rewrite Ecs. rewrite Hinv.
    eexists. split; [reflexivity|]. reflexivity.
Qed.
End RoundTrip.

(* ------------------------------------------------------------------------------------ *)
(* Excel *)
Lemma xl_get_app : forall a b r c,
  xl_get (a ++ b) r c = match xl_get b r c with Some x => Some x | None => xl_get a r c end.
Proof.
  induction a as [|[[r' c'] v] a IH]; intros b r c; simpl.
  - destruct (xl_get b r c); reflexivity.
  - rewrite IH. destruct (xl_get b r c); reflexivity.
Qed.

Lemma xl_get_outside : forall ws r c,
  (forall r' c' v, In (r', c', v) ws -> r' <> r \/ c' <> c) -> xl_get ws r c = None.
Proof.
  induction ws as [|[[r' c'] v] ws IH]; intros r c H; simpl; [reflexivity|].
  rewrite IH by (intros r2 c2 v2 Hin; apply (H r2 c2 v2); right; exact Hin).
  destruct (H r' c' v (or_introl eq_refl)) as [Hr|Hc].
  - apply Nat.eqb_neq in Hr. rewrite Hr. reflexivity.
  - apply Nat.eqb_neq in Hc. rewrite Hc. rewrite andb_false_r. reflexivity.
Qed.

Lemma item_writes_row : forall nm n it c,
  xl_get (item_writes nm n it) n c = nth_error (item_cells nm it) c.
Proof.
  intros nm n it c. unfold item_writes, item_cells.
  destruct c as [|[|[|[|[|c]]]]]; cbn; rewrite ?Nat.eqb_refl; cbn; try reflexivity.
  destruct c; reflexivity.
Qed.

Lemma item_writes_rows : forall nm n it r' c' v, In (r', c', v) (item_writes nm n it) -> r' = n.
Proof.
  intros nm n it r' c' v H. unfold item_writes in H. simpl in H.
  repeat (destruct H as [H|H]; [injection H as <- _ _; reflexivity|]). contradiction.
Qed.

Opaque item_writes.

Lemma sect_writes_snd : forall nm its n, snd (sect_writes nm n its) = (n + List.length its)%nat.
Proof.
  intros nm its. induction its as [|it t IH]; intro n; simpl; [lia|]. rewrite IH. lia.
Qed.

Lemma sect_writes_rows : forall nm its n r' c' v,
  In (r', c', v) (fst (sect_writes nm n its)) -> (n <= r' < n + List.length its)%nat.
Proof.
  intros nm its. induction its as [|it t IH]; intros n r' c' v H; simpl in H; [contradiction|].
  apply in_app_or in H. destruct H as [H|H].
  - apply item_writes_rows in H. subst. simpl. lia.
  - apply IH in H. simpl. lia.
Qed.

Lemma sect_writes_none : forall nm its n r c,
  (r < n \/ n + List.length its <= r)%nat -> xl_get (fst (sect_writes nm n its)) r c = None.
Proof.
  intros nm its n r c H. apply xl_get_outside. intros r' c' v Hin.
  apply sect_writes_rows in Hin. left. lia.
Qed.

Lemma sect_writes_get : forall nm its n k it c,
  nth_error its k = Some it ->
  xl_get (fst (sect_writes nm n its)) (n + k) c = nth_error (item_cells nm it) c.
Proof.
  intros nm its. induction its as [|it0 t IH]; intros n k it c Hk; [destruct k; discriminate|].
  simpl. rewrite xl_get_app. destruct k as [|k]; simpl in Hk.
  - injection Hk as ->. rewrite sect_writes_none by lia. rewrite Nat.add_0_r. apply item_writes_row.
  - replace (n + S k)%nat with (S n + k)%nat by lia. rewrite (IH (S n) k it c Hk).
    destruct (nth_error (item_cells nm it) c) eqn:E; [reflexivity|].
    apply xl_get_outside. intros r' c' v Hin. apply item_writes_rows in Hin. left. lia.
Qed.

Definition tagged (ss : list (list N * list item)) : list (list N * item) :=
  flat_map (fun s => map (pair (fst s)) (snd s)) ss.

Lemma sections_writes_rows : forall ss n r' c' v,
  In (r', c', v) (sections_writes n ss) -> (n <= r' < n + List.length (tagged ss))%nat.
Proof.
  induction ss as [|[nm its] t IH]; intros n r' c' v H; simpl in H; [contradiction|].
  apply in_app_or in H. unfold tagged. simpl. rewrite app_length, map_length.
  destruct H as [H|H].
  - apply sect_writes_rows in H. lia.
  - apply IH in H. rewrite sect_writes_snd in H. unfold tagged in H. lia.
Qed.

Lemma sections_writes_get : forall ss n k nm it c,
  nth_error (tagged ss) k = Some (nm, it) ->
  xl_get (sections_writes n ss) (n + k) c = nth_error (item_cells nm it) c.
Proof.
  induction ss as [|[nm0 its] t IH]; intros n k nm it c Hk; [destruct k; discriminate|].
  simpl. rewrite xl_get_app. rewrite sect_writes_snd.
  unfold tagged in Hk. simpl in Hk.
  destruct (Nat.ltb k (List.length its)) eqn:Elt.
  - apply Nat.ltb_lt in Elt.
    rewrite nth_error_app1 in Hk by (rewrite map_length; exact Elt).
    apply nth_error_map_some in Hk. destruct Hk as [it' [Hit' E]]. injection E as -> ->.
    rewrite (xl_get_outside (sections_writes _ t)).
    + apply sect_writes_get. exact Hit'.
    + intros r' c' v Hin. apply sections_writes_rows in Hin. left. lia.
  - apply Nat.ltb_ge in Elt.
    rewrite nth_error_app2 in Hk by (rewrite map_length; exact Elt). rewrite map_length in Hk.
    replace (n + k)%nat with ((n + List.length its) + (k - List.length its))%nat by lia.
    rewrite (IH _ _ nm it c Hk).
    destruct (nth_error (item_cells nm it) c) eqn:E; [reflexivity|].
    apply sect_writes_none. lia.
Qed.

Definition title_cells : list xcell :=
  [ XStr (s2l "Section"); XStr (s2l "Mnemonic"); XStr (s2l "Unit"); XStr (s2l "Value"); XStr (s2l "Description") ].

Definition header_items (l : las) : list (list N * item) := tagged (header_sections l).

Lemma excel_header_spec : forall l,
  (forall c, xl_get (excel_header_writes l) 0 c = nth_error title_cells c)
  /\ (forall k nm it c, nth_error (header_items l) k = Some (nm, it) ->
        xl_get (excel_header_writes l) (S k) c = nth_error (item_cells nm it) c)
  /\ (forall r c, (List.length (header_items l) < r)%nat -> xl_get (excel_header_writes l) r c = None).
Proof.
  intro l. unfold excel_header_writes, header_items. split; [|split].
  - intro c. rewrite xl_get_app. rewrite xl_get_outside.
    + unfold title_writes, title_cells. destruct c as [|[|[|[|[|c]]]]]; try reflexivity.
      destruct c; reflexivity.
    + intros r' c' v Hin. apply sections_writes_rows in Hin. left. lia.
  - intros k nm it c Hk. rewrite xl_get_app.
    change (S k) with (1 + k)%nat. rewrite (sections_writes_get _ 1 k nm it c Hk).
    destruct (nth_error (item_cells nm it) c) eqn:E; [reflexivity|].
    apply xl_get_outside. intros r' c' v Hin. unfold title_writes in Hin. simpl in Hin.
    repeat (destruct Hin as [Hin|Hin]; [injection Hin as <- _ _; left; lia|]). contradiction.
  - intros r c Hr. rewrite xl_get_app. rewrite xl_get_outside.
    + apply xl_get_outside. intros r' c' v Hin. unfold title_writes in Hin. simpl in Hin.
      repeat (destruct Hin as [Hin|Hin]; [injection Hin as <- _ _; left; lia|]). contradiction.
    + intros r' c' v Hin. apply sections_writes_rows in Hin. left. lia.
Qed.

(* Curves sheet *)
Lemma col_writes_in : forall i d j r' c' v,
  In (r', c', v) (col_writes i j d) -> c' = i /\ (j < r' <= j + List.length d)%nat.
Proof.
  intros i d. induction d as [|x t IH]; intros j r' c' v H; simpl in H; [contradiction|].
  destruct H as [H|H].
  - injection H as <- <- _. simpl. split; [reflexivity|lia].
  - apply IH in H. simpl. destruct H as [H1 H2]. split; [exact H1|lia].
Qed.

Lemma col_writes_get : forall i d j k x,
  nth_error d k = Some x -> xl_get (col_writes i j d) (S (j + k)) i = Some (xcell_of_sample x).
Proof.
  intros i d. induction d as [|x0 t IH]; intros j k x Hk; [destruct k; discriminate|].
  simpl. destruct k as [|k]; simpl in Hk.
  - injection Hk as ->. rewrite xl_get_outside.
    + rewrite Nat.add_0_r, !Nat.eqb_refl. reflexivity.
    + intros r' c' v Hin. apply col_writes_in in Hin. left. lia.
  - replace (S (j + S k)) with (S (S j + k)) by lia. rewrite (IH (S j) k x Hk). reflexivity.
Qed.

Lemma curves_writes_in : forall cs i r' c' v,
  In (r', c', v) (curves_writes i cs) ->
  exists m c0, nth_error cs m = Some c0 /\ c' = (i + m)%nat /\ (r' <= List.length (data c0))%nat.
Proof.
  induction cs as [|c0 t IH]; intros i r' c' v H; simpl in H; [contradiction|].
  destruct H as [H|H]; [|apply in_app_or in H; destruct H as [H|H]].
  - injection H as <- <- _. exists 0%nat, c0. split; [reflexivity|]. split; lia.
  - apply col_writes_in in H. destruct H as [-> H]. exists 0%nat, c0. split; [reflexivity|]. split; lia.
  - apply IH in H. destruct H as [m [c1 [H1 [H2 H3]]]]. exists (S m), c1. split; [exact H1|]. split; [lia|exact H3].
Qed.

Lemma curves_writes_get : forall cs i m c0,
  nth_error cs m = Some c0 ->
  xl_get (curves_writes i cs) 0 (i + m) = Some (XStr (session c0))
  /\ (forall k x, nth_error (data c0) k = Some x ->
        xl_get (curves_writes i cs) (S k) (i + m) = Some (xcell_of_sample x))
  /\ (forall r, (List.length (data c0) < r)%nat -> xl_get (curves_writes i cs) r (i + m) = None).
Proof.
  induction cs as [|c t IH]; intros i m c0 Hm; [destruct m; discriminate|].
  cbn [curves_writes]. destruct m as [|m]; simpl in Hm.
  - injection Hm as ->. rewrite Nat.add_0_r.
    assert (Hrest : forall r, xl_get (curves_writes (S i) t) r i = None).
    { intro r. apply xl_get_outside. intros r' c' v Hin. apply curves_writes_in in Hin.
      destruct Hin as [m [c1 [_ [-> _]]]]. right. lia. }
    split; [|split].
    + rewrite xl_get_app, Hrest. cbn [xl_get]. rewrite xl_get_outside.
      * rewrite !Nat.eqb_refl. reflexivity.
      * intros r' c' v Hin. apply col_writes_in in Hin. left. lia.
    + intros k x Hk. rewrite xl_get_app, Hrest. cbn [xl_get].
      change (S k) with (S (0 + k)). rewrite (col_writes_get i (data c0) 0 k x Hk). reflexivity.
    + intros r Hr. rewrite xl_get_app, Hrest. cbn [xl_get]. rewrite xl_get_outside.
      * destruct r; [lia|]. reflexivity.
      * intros r' c' v Hin. apply col_writes_in in Hin. left. lia.
  - replace (i + S m)%nat with (S i + m)%nat by lia.
    destruct (IH (S i) m c0 Hm) as [H0 [H1 H2]].
    assert (Hfirst : forall r, xl_get ((0%nat, i, XStr (session c)) :: col_writes i 0 (data c)) r (S i + m) = None).
    { intro r. apply xl_get_outside. intros r' c' v [Hin|Hin].
      - injection Hin as _ <- _. right. lia.
      - apply col_writes_in in Hin. right. lia. }
    split; [|split].
    + rewrite xl_get_app, H0. reflexivity.
    + intros k x Hk. rewrite xl_get_app, (H1 k x Hk). reflexivity.
    + intros r Hr. rewrite xl_get_app, (H2 r Hr). apply Hfirst.
Qed.

Lemma curves_writes_outside : forall cs i r c,
  (c < i \/ i + List.length cs <= c)%nat -> xl_get (curves_writes i cs) r c = None.
Proof.
  intros cs i r c H. apply xl_get_outside. intros r' c' v Hin. apply curves_writes_in in Hin.
  destruct Hin as [m [c1 [Hm [-> _]]]]. right.
  assert (m < List.length cs)%nat by (apply nth_error_Some; congruence). lia.
Qed.

Lemma excel_curves_spec : forall l,
  (forall i c0, nth_error (curves l) i = Some c0 ->
     xl_get (excel_curve_writes l) 0 i = Some (XStr (session c0))
     /\ (forall j x, nth_error (data c0) j = Some x ->
           xl_get (excel_curve_writes l) (S j) i = Some (xcell_of_sample x))
     /\ (forall r, (List.length (data c0) < r)%nat -> xl_get (excel_curve_writes l) r i = None))
  /\ (forall r i, (List.length (curves l) <= i)%nat -> xl_get (excel_curve_writes l) r i = None).
Proof.
  intro l. unfold excel_curve_writes. split.
  - intros i c0 Hi. apply (curves_writes_get (curves l) 0 i c0 Hi).
  - intros r i Hi. apply curves_writes_outside. lia.
Qed.

(* ------------------------------------------------------------------------------------ *)
(* index unit detection *)
Section Units.
Variable upper : list N -> list N.

(* a listed spelling, or anything that upper-cases to the same text as a listed spelling *)
Definition spelled (u : list N) (ps : list (list N)) : Prop :=
  exists p, In p ps /\ (u = p \/ upper u = upper p).

Lemma unit_matches_iff : forall u ps, unit_matches upper u ps = true <-> spelled u ps.
Proof.
  intros u ps. unfold unit_matches, spelled. rewrite orb_true_iff, !existsb_exists. split.
  - intros [[p [Hp E]]|[p [Hp E]]]; apply str_eqb_eq in E; exists p; auto.
  - intros [p [Hp [E|E]]]; [left|right]; exists p; (split; [exact Hp|]); apply str_eqb_eq; exact E.
Qed.

Lemma class_matched_iff : forall units ps,
  class_matched upper units ps = true <-> exists u, In u units /\ spelled u ps.
Proof.
  intros units ps. unfold class_matched. rewrite existsb_exists.
  split; intros [u [Hu H]]; exists u; (split; [exact Hu|]); apply unit_matches_iff; exact H.
Qed.

Lemma filter_single : forall {A : Type} (f : A -> bool) (l : list A) (x : A),
  NoDup l -> In x l -> f x = true -> (forall y, In y l -> f y = true -> y = x) -> filter f l = [x].
Proof.
  intros A f l x. induction l as [|a l IH]; intros Hnd Hin Hfx Huniq; [contradiction|].
  inversion Hnd as [|? ? Hnot Hnd']; subst. simpl.
  destruct Hin as [->|Hin].
  - rewrite Hfx. f_equal.
    destruct (filter f l) as [|y t] eqn:E; [reflexivity|].
    assert (Hy : In y (filter f l)) by (rewrite E; left; reflexivity).
    apply filter_In in Hy. destruct Hy as [Hy1 Hy2].
    assert (y = x) by (apply Huniq; [right; exact Hy1|exact Hy2]). subst. contradiction.
  - destruct (f a) eqn:Efa.
    + assert (a = x) by (apply Huniq; [left; reflexivity|exact Efa]). subst. contradiction.
    + apply IH; try assumption. intros y Hy Hfy. apply Huniq; [right; exact Hy|exact Hfy].
Qed.

(* exactly one class has a matching unit: that class is the index unit *)
Lemma detect_some : forall table units k ps,
  NoDup table -> In (k, ps) table ->
  (exists u, In u units /\ spelled u ps) ->
  (forall k' ps', In (k', ps') table -> (exists u, In u units /\ spelled u ps') -> (k', ps') = (k, ps)) ->
  detect_unit upper table units = Some k.
Proof.
  intros table units k ps Hnd Hin Hm Hu. unfold detect_unit, matched_classes.
  rewrite (filter_single _ table (k, ps)); try assumption.
  - reflexivity.
  - apply class_matched_iff. exact Hm.
  - intros [k' ps'] Hy Hf. apply Hu; [exact Hy|]. apply class_matched_iff. exact Hf.
Qed.

(* two classes with different keys both have a matching unit: undefined *)
Lemma detect_conflict : forall table units k1 ps1 k2 ps2,
  In (k1, ps1) table -> In (k2, ps2) table -> k1 <> k2 ->
  (exists u, In u units /\ spelled u ps1) -> (exists u, In u units /\ spelled u ps2) ->
  detect_unit upper table units = None.
Proof.
  intros table units k1 ps1 k2 ps2 H1 H2 Hne M1 M2. unfold detect_unit, matched_classes.
  assert (F1 : In (k1, ps1) (filter (fun kp => class_matched upper units (snd kp)) table)).
  { apply filter_In. split; [exact H1|]. apply class_matched_iff. exact M1. }
  assert (F2 : In (k2, ps2) (filter (fun kp => class_matched upper units (snd kp)) table)).
  { apply filter_In. split; [exact H2|]. apply class_matched_iff. exact M2. }
  destruct (filter (fun kp => class_matched upper units (snd kp)) table) as [|a [|b t]]; simpl.
  - reflexivity.
  - destruct F1 as [F1|[]]. destruct F2 as [F2|[]]. subst a. injection F2 as E _. congruence.
  - reflexivity.
Qed.

(* no class has a matching unit: undefined *)
Lemma detect_none : forall table units,
  (forall k ps, In (k, ps) table -> ~ exists u, In u units /\ spelled u ps) ->
  detect_unit upper table units = None.
Proof.
  intros table units H. unfold detect_unit, matched_classes.
  destruct (filter (fun kp => class_matched upper units (snd kp)) table) as [|[k ps] t] eqn:E; [reflexivity|].
  exfalso. assert (Hin : In (k, ps) (filter (fun kp => class_matched upper units (snd kp)) table)) by (rewrite E; left; reflexivity).
  apply filter_In in Hin. destruct Hin as [Hin Hf]. apply (H k ps Hin). apply class_matched_iff. exact Hf.
Qed.
End Units.

(* facts about the DEPTH_UNITS table of today's source (re-checked whenever Gen/Tables.v changes) *)
Definition is_ascii (s : list N) : bool := forallb (fun c => c <? 128) s.
Definition ascii_up (s : list N) : list N := map ascii_upper s.
Definition ascii_agree (upper : list N -> list N) : Prop :=
  forall s, is_ascii s = true -> upper s = ascii_up s.

Fixpoint nodup_keys (l : list (list N)) : bool :=
  match l with
  | [] => true
  | k :: t => negb (existsb (str_eqb k) t) && nodup_keys t
  end.

Lemma nodup_keys_sound : forall l, nodup_keys l = true -> NoDup l.
Proof.
  induction l as [|k t IH]; intro H; [constructor|].
  simpl in H. apply andb_true_iff in H. destruct H as [H1 H2]. constructor; [|apply IH; exact H2].
  intro Hin. apply negb_true_iff in H1.
  assert (existsb (str_eqb k) t = true) by (apply existsb_exists; exists k; split; [exact Hin|apply str_eqb_refl]).
  congruence.
Qed.

Lemma depth_units_keys_nodup : NoDup (map fst depth_units).
Proof. apply nodup_keys_sound. vm_compute. reflexivity. Qed.

Lemma depth_units_nodup : NoDup depth_units.
Proof.
  pose proof depth_units_keys_nodup as H. revert H. generalize depth_units.
  induction l as [|a l IH]; intro H; [constructor|].
  simpl in H. inversion H as [|? ? Hnot Hnd]; subst. constructor; [|apply IH; exact Hnd].
  intro Hin. apply Hnot. apply in_map. exact Hin.
Qed.

Lemma depth_units_key_inj : forall k ps ps',
  In (k, ps) depth_units -> In (k, ps') depth_units -> ps = ps'.
Proof.
  pose proof depth_units_keys_nodup as H. revert H. generalize depth_units.
  induction l as [|[k0 p0] l IH]; intros Hnd k ps ps' H1 H2; [contradiction|].
  simpl in Hnd. inversion Hnd as [|? ? Hnot Hnd']; subst.
  destruct H1 as [H1|H1], H2 as [H2|H2].
  - congruence.
  - injection H1 as -> ->. exfalso. apply Hnot. apply in_map_iff. exists (k, ps'). split; [reflexivity|exact H2].
  - injection H2 as -> ->. exfalso. apply Hnot. apply in_map_iff. exists (k, ps). split; [reflexivity|exact H1].
  - eapply IH; eassumption.
Qed.

(* ------------------------------------------------------------------------------------ *)
(* depth_m / depth_ft *)
Lemma k3048_nonzero : ~ (k3048 == 0)%Q.
Proof. unfold k3048, Qeq. simpl. lia. Qed.

Lemma depth_kind_consistent : forall k xs, k <> KUnknown ->
  exists m f, depth_m_kind k xs = Ok m /\ depth_ft_kind k xs = Ok f
              /\ Forall2 Qeq m (map (fun y => Qmult y k3048) f).
Proof.
  intros k xs Hk. destruct k; [| | |contradiction]; simpl; eexists; eexists; (split; [reflexivity|]); (split; [reflexivity|]).
  - induction xs as [|x xs IH]; simpl; constructor; [|exact IH].
    symmetry. rewrite Qmult_comm. apply Qmult_div_r. exact k3048_nonzero.
  - induction xs as [|x xs IH]; simpl; constructor; [reflexivity|exact IH].
  - induction xs as [|x xs IH]; simpl; constructor; [reflexivity|exact IH].
Qed.

Lemma iu_contains_ascii : forall upper, ascii_agree upper ->
  forall k code, is_ascii k = true -> is_ascii code = true ->
  iu_contains upper (Some k) code = iu_contains ascii_up (Some k) code.
Proof.
  intros upper H k code Hk Hc. unfold iu_contains. destruct k as [|c k]; [reflexivity|].
  rewrite (H code Hc), (H (c :: k) Hk). reflexivity.
Qed.

Lemma unit_kind_ascii : forall upper, ascii_agree upper ->
  forall k, is_ascii k = true -> unit_kind_of upper (Some k) = unit_kind_of ascii_up (Some k).
Proof.
  intros upper H k Hk. unfold unit_kind_of.
  rewrite !(iu_contains_ascii upper H k) by (exact Hk || reflexivity). reflexivity.
Qed.

Definition kind_known (k : unit_kind) : bool := match k with KUnknown => false | _ => true end.

Lemma depth_units_kinds :
  forallb (fun kp => is_ascii (fst kp) && kind_known (unit_kind_of ascii_up (Some (fst kp)))) depth_units = true.
Proof. vm_compute. reflexivity. Qed.

Lemma depth_consistent : forall upper, ascii_agree upper ->
  forall k ps, In (k, ps) depth_units ->
  forall xs, exists m f,
    depth_m upper (Some k) xs = Ok m /\ depth_ft upper (Some k) xs = Ok f
    /\ Forall2 Qeq m (map (fun y => Qmult y k3048) f).
Proof.
  intros upper Hup k ps Hin xs.
  pose proof depth_units_kinds as H. rewrite forallb_forall in H. specialize (H (k, ps) Hin).
  simpl in H. apply andb_true_iff in H. destruct H as [Ha Hk].
  unfold depth_m, depth_ft. rewrite (unit_kind_ascii upper Hup k Ha).
  apply depth_kind_consistent. intro E. rewrite E in Hk. discriminate.
Qed.

(* ------------------------------------------------------------------------------------ *)
(* the statements of Props/C18.v about the index unit, on today's table *)
Lemma json_value_map :
  (forall s, json_of_value (HStr s) = JStr s)
  /\ (forall z, json_of_value (HInt z) = JInt z)
  /\ (forall z, json_of_value (HNpInt z) = JInt z)
  /\ (forall id, json_of_value (HFloat (Fin id)) = JNum id)
  /\ json_of_value (HFloat FNaN) = JNull
  /\ json_of_value HNone = JNull
  /\ (forall id, json_of_sample (SNum (Fin id)) = JNum id)
  /\ json_of_sample (SNum FNaN) = JNull
  /\ (forall s, json_of_sample (SText s) = JStr s).
Proof. repeat split; reflexivity. Qed.

Lemma read_index_unit_detect : forall upper l,
  read_index_unit upper None l = detect_unit upper depth_units (check_units upper l).
Proof. reflexivity. Qed.

Lemma units_recognised : forall upper l k ps,
  In (k, ps) depth_units ->
  (exists u, In u (check_units upper l) /\ spelled upper u ps) ->
  (forall k' ps', In (k', ps') depth_units ->
     (exists u, In u (check_units upper l) /\ spelled upper u ps') -> k' = k) ->
  read_index_unit upper None l = Some k.
Proof.
  intros upper l k ps Hin Hm Hu. rewrite read_index_unit_detect.
  apply (detect_some upper depth_units _ k ps depth_units_nodup Hin Hm).
  intros k' ps' Hin' Hm'. assert (k' = k) by (apply (Hu k' ps'); assumption). subst k'.
  f_equal. apply (depth_units_key_inj k); assumption.
Qed.

Lemma units_conflict : forall upper l k1 ps1 k2 ps2,
  In (k1, ps1) depth_units -> In (k2, ps2) depth_units -> k1 <> k2 ->
  (exists u, In u (check_units upper l) /\ spelled upper u ps1) ->
  (exists u, In u (check_units upper l) /\ spelled upper u ps2) ->
  read_index_unit upper None l = None.
Proof.
  intros upper l k1 ps1 k2 ps2 H1 H2 Hne M1 M2. rewrite read_index_unit_detect.
  exact (detect_conflict upper depth_units _ k1 ps1 k2 ps2 H1 H2 Hne M1 M2).
Qed.

Lemma units_unrecognised : forall upper l,
  (forall k ps, In (k, ps) depth_units -> ~ exists u, In u (check_units upper l) /\ spelled upper u ps) ->
  read_index_unit upper None l = None.
Proof. intros. rewrite read_index_unit_detect. apply detect_none. assumption. Qed.

Lemma ascii_case_spelled : forall upper, ascii_agree upper ->
  forall ps p u, In p ps -> is_ascii p = true -> is_ascii u = true -> ascii_up u = ascii_up p ->
  spelled upper u ps.
Proof.
  intros upper H ps p u Hp Ap Au E. exists p. split; [exact Hp|]. right.
  rewrite (H u Au), (H p Ap). exact E.
Qed.

Lemma listed_spelled : forall upper ps p, In p ps -> spelled upper p ps.
Proof. intros upper ps p Hp. exists p. split; [exact Hp|left; reflexivity]. Qed.

(* the places looked at: STRT, STOP, STEP of ~Well (first item whose session mnemonic compares
   equal) and the first curve *)
Lemma check_units_places : forall upper l u,
  In u (check_units upper l) <->
  (exists key it, In key [s2l "STRT"; s2l "STOP"; s2l "STEP"]
                  /\ find_item upper (well_ci l) key (well l) = Some it /\ u = unit_ it)
  \/ (exists c t, curves l = c :: t /\ u = unit_ c).
Proof.
  intros upper l u. unfold check_units. rewrite in_app_iff, in_flat_map. split.
  - intros [[key [Hk Hin]]|Hin].
    + left. destruct (find_item upper (well_ci l) key (well l)) as [it|] eqn:E; [|contradiction].
      destruct Hin as [<-|[]]. exists key, it. auto.
    + right. destruct (curves l) as [|c t]; [contradiction|]. destruct Hin as [<-|[]]. eauto.
  - intros [[key [it [Hk [E ->]]]]|[c [t [E ->]]]].
    + left. exists key. split; [exact Hk|]. rewrite E. left. reflexivity.
    + right. rewrite E. left. reflexivity.
Qed.

(* ------------------------------------------------------------------------------------ *)
(* all checked places carry spellings of ONE class: that class is detected, provided upper-casing
   does not identify spellings of different classes of the table *)
Definition classes_disjoint (upper : list N -> list N) : Prop :=
  forall k ps k' ps' p p',
    In (k, ps) depth_units -> In (k', ps') depth_units -> In p ps -> In p' ps' ->
    upper p = upper p' -> k = k'.

Lemma spelled_same_upper : forall upper u ps, spelled upper u ps -> exists p, In p ps /\ upper u = upper p.
Proof. intros upper u ps [p [Hp [->|E]]]; exists p; auto. Qed.

Lemma units_recognised_all : forall upper, classes_disjoint upper ->
  forall l k ps, In (k, ps) depth_units ->
  check_units upper l <> [] ->
  (forall v, In v (check_units upper l) -> spelled upper v ps) ->
  read_index_unit upper None l = Some k.
Proof.
  intros upper Hdis l k ps Hin Hne Hall.
  apply (units_recognised upper l k ps Hin).
  - destruct (check_units upper l) as [|u t] eqn:E; [contradiction|].
    exists u. split; [left; reflexivity|]. apply Hall. left. reflexivity.
  - intros k' ps' Hin' [v [Hv Hs']].
    destruct (spelled_same_upper upper v ps' Hs') as [p' [Hp' E']].
    destruct (spelled_same_upper upper v ps (Hall v Hv)) as [p [Hp E]].
    apply (Hdis k' ps' k ps p' p Hin' Hin Hp' Hp). congruence.
Qed.

(* today's table: ASCII spellings of different classes differ after ASCII upper-casing, and the
   non-ASCII spellings all belong to one class *)
Definition pair_cond (p p' : list N) : bool :=
  if is_ascii p && is_ascii p' then str_eqb (ascii_up p) (ascii_up p')
  else negb (is_ascii p) && negb (is_ascii p').
Definition table_disjoint_check : bool :=
  forallb (fun e1 => forallb (fun e2 =>
    forallb (fun p => forallb (fun p' => implb (pair_cond p p') (str_eqb (fst e1) (fst e2))) (snd e2)) (snd e1))
    depth_units) depth_units.
Lemma table_disjoint_today : table_disjoint_check = true.
Proof. vm_compute. reflexivity. Qed.

Lemma is_ascii_ascii_up : forall s, is_ascii s = true -> is_ascii (ascii_up s) = true.
Proof.
  induction s as [|c s IH]; intro H; [reflexivity|].
  simpl in *. apply andb_true_iff in H. destruct H as [H1 H2]. rewrite (IH H2), andb_true_r.
  unfold ascii_upper. destruct ((97 <=? c) && (c <=? 122)) eqn:E; lia.
Qed.

(* str.upper keeps a non-ASCII character in each non-ASCII spelling of the table
   (true of CPython for today's table: the two Cyrillic spellings) *)
Definition nonascii_kept (upper : list N -> list N) : Prop :=
  forall k ps p, In (k, ps) depth_units -> In p ps -> is_ascii p = false -> is_ascii (upper p) = false.

Lemma classes_disjoint_today : forall upper, ascii_agree upper -> nonascii_kept upper -> classes_disjoint upper.
Proof.
  intros upper Hag Hna k ps k' ps' p p' Hin Hin' Hp Hp' E.
  pose proof table_disjoint_today as T. unfold table_disjoint_check in T.
  rewrite forallb_forall in T. specialize (T (k, ps) Hin).
  rewrite forallb_forall in T. specialize (T (k', ps') Hin').
  rewrite forallb_forall in T. specialize (T p Hp).
  rewrite forallb_forall in T. specialize (T p' Hp'). simpl in T.
  assert (C : pair_cond p p' = true).
  { unfold pair_cond. destruct (is_ascii p) eqn:A, (is_ascii p') eqn:A'; simpl.
    - apply str_eqb_eq. rewrite <- (Hag p A), <- (Hag p' A'). exact E.
    - exfalso. pose proof (Hna k' ps' p' Hin' Hp' A') as N'. rewrite <- E, (Hag p A) in N'.
      rewrite (is_ascii_ascii_up p A) in N'. discriminate.
    - exfalso. pose proof (Hna k ps p Hin Hp A) as N'. rewrite E, (Hag p' A') in N'.
      rewrite (is_ascii_ascii_up p' A') in N'. discriminate.
    - reflexivity. }
  rewrite C in T. simpl in T. apply str_eqb_eq. exact T.
Qed.
