(* Proofs.ExportProofs — lemmas about Model/Export.v (C18). *)
From Coq Require Import List NArith ZArith Bool String QArith Lia ZifyBool ZifyN ZifyNat Arith.
Import ListNotations.
Require Import PyStr Tables Export.
Open Scope string_scope.
Open Scope list_scope.
Open Scope N_scope.

(* ------------------------------------------------------------------------------------ *)
(* strings *)
Lemma str_eqb_refl : forall a : list N, str_eqb a a = true.
Proof. induction a as [|x a IH]; simpl; [reflexivity|]. rewrite N.eqb_refl, IH. reflexivity. Qed.

Lemma str_eqb_eq : forall a b : list N, str_eqb a b = true <-> a = b.
Proof.
  induction a as [|x a IH]; intros [|y b]; simpl; split; intro H; try reflexivity; try discriminate.
  - apply andb_true_iff in H. destruct H as [H1 H2]. apply N.eqb_eq in H1. apply IH in H2. subst. reflexivity.
  - injection H as -> ->. rewrite N.eqb_refl. simpl. apply str_eqb_refl.
Qed.

Lemma str_eqb_neq : forall a b : list N, str_eqb a b = false <-> a <> b.
Proof.
  intros a b. split; intro H.
  - intro E. apply str_eqb_eq in E. congruence.
  - destruct (str_eqb a b) eqn:E; [|reflexivity]. apply str_eqb_eq in E. contradiction.
Qed.

(* ------------------------------------------------------------------------------------ *)
(* generic list facts *)
Lemma nth_error_seq : forall n s i, (i < n)%nat -> nth_error (seq s n) i = Some (s + i)%nat.
Proof.
  induction n as [|n IH]; intros s i Hi; [lia|].
  destruct i as [|i]; simpl.
  - f_equal. lia.
  - rewrite IH by lia. f_equal. lia.
Qed.

Lemma nth_error_map_some : forall {A B : Type} (f : A -> B) l i y,
  nth_error (map f l) i = Some y -> exists x, nth_error l i = Some x /\ y = f x.
Proof.
  intros A B f l. induction l as [|a l IH]; intros [|i] y H; simpl in *; try discriminate.
  - injection H as <-. eauto.
  - eauto.
Qed.

Lemma nth_error_map_of : forall {A B : Type} (f : A -> B) l i x,
  nth_error l i = Some x -> nth_error (map f l) i = Some (f x).
Proof.
  intros A B f l. induction l as [|a l IH]; intros [|i] x H; simpl in *; try discriminate.
  - injection H as <-. reflexivity.
  - eauto.
Qed.

Lemma flat_map_ext_in : forall {A B : Type} (f g : A -> list B) l,
  (forall x, In x l -> f x = g x) -> flat_map f l = flat_map g l.
Proof.
  intros A B f g l. induction l as [|a l IH]; intro H; simpl; [reflexivity|].
  rewrite H by (left; reflexivity). rewrite IH; [reflexivity|]. intros x Hx. apply H. right. exact Hx.
Qed.

Lemma flat_map_map : forall {A B C : Type} (g : A -> B) (f : B -> list C) l,
  flat_map f (map g l) = flat_map (fun x => f (g x)) l.
Proof. intros A B C g f l. induction l as [|a l IH]; simpl; [reflexivity|]. rewrite IH. reflexivity. Qed.

Lemma option_id_match : forall {A : Type} (o : option A), match o with Some x => Some x | None => None end = o.
Proof. intros A [x|]; reflexivity. Qed.

(* ------------------------------------------------------------------------------------ *)
(* dict *)
Lemma in_dict_set : forall {A : Type} k (v : A) d a b,
  In (a, b) (dict_set k v d) -> b = v \/ In (a, b) d.
Proof.
  intros A k v d. induction d as [|[k' v'] t IH]; intros a b H; simpl in H.
  - destruct H as [H|[]]. injection H as _ <-. left. reflexivity.
  - destruct (str_eqb k' k) eqn:E.
    + destruct H as [H|H]; [injection H as _ <-; left; reflexivity|]. right. right. exact H.
    + destruct H as [H|H]; [right; left; exact H|]. apply IH in H. destruct H as [H|H]; [left; exact H|right; right; exact H].
Qed.

Lemma in_dict_of_rev : forall {A : Type} (kvs : list (list N * A)) a b,
  In (a, b) (dict_of_rev kvs) -> exists a', In (a', b) kvs.
Proof.
  intros A kvs. induction kvs as [|[k v] t IH]; intros a b H; simpl in H; [contradiction|].
  apply in_dict_set in H. destruct H as [->|H].
  - exists k. left. reflexivity.
  - apply IH in H. destruct H as [a' H]. exists a'. right. exact H.
Qed.

Lemma in_dict_of : forall {A : Type} (kvs : list (list N * A)) a b,
  In (a, b) (dict_of kvs) -> exists a', In (a', b) kvs.
Proof.
  intros A kvs a b H. unfold dict_of in H. apply in_dict_of_rev in H. destruct H as [a' H].
  exists a'. apply in_rev. exact H.
Qed.

Lemma dict_get_set : forall {A : Type} k (v : A) d q,
  dict_get q (dict_set k v d) = if str_eqb k q then Some v else dict_get q d.
Proof.
  intros A k v d q. induction d as [|[k' v'] t IH]; simpl.
  - reflexivity.
  - destruct (str_eqb k' k) eqn:E; simpl.
    + apply str_eqb_eq in E. subst k'. destruct (str_eqb k q); reflexivity.
    + rewrite IH. destruct (str_eqb k' q) eqn:E2; [|reflexivity].
      apply str_eqb_eq in E2. subst k'. rewrite E. reflexivity.
Qed.

Lemma dict_get_of_rev : forall {A : Type} (l : list (list N * A)) k v,
  NoDup (map fst l) -> In (k, v) l -> dict_get k (dict_of_rev l) = Some v.
Proof.
  intros A l. induction l as [|[k1 v1] t IH]; intros k v Hnd Hin; simpl in *; [contradiction|].
  rewrite dict_get_set. inversion Hnd as [|? ? Hnot Hnd']; subst.
  destruct Hin as [Hin|Hin].
  - injection Hin as -> ->. rewrite str_eqb_refl. reflexivity.
  - destruct (str_eqb k1 k) eqn:E.
    + apply str_eqb_eq in E. subst k1. exfalso. apply Hnot. apply in_map_iff. exists (k, v). split; [reflexivity|exact Hin].
    + apply IH; assumption.
Qed.

Lemma dict_get_of : forall {A : Type} (l : list (list N * A)) k v,
  NoDup (map fst l) -> In (k, v) l -> dict_get k (dict_of l) = Some v.
Proof.
  intros A l k v Hnd Hin. unfold dict_of. apply dict_get_of_rev.
  - rewrite map_rev. apply NoDup_rev. exact Hnd.
  - apply in_rev. rewrite rev_involutive. exact Hin.
Qed.

Lemma dict_get_map : forall {A B : Type} (f : A -> B) (d : list (list N * A)) k,
  dict_get k (map (fun kv => (fst kv, f (snd kv))) d) = option_map f (dict_get k d).
Proof.
  intros A B f d k. induction d as [|[k' v] t IH]; simpl; [reflexivity|].
  destruct (str_eqb k' k); [reflexivity|exact IH].
Qed.

(* ------------------------------------------------------------------------------------ *)
(* JSON *)
Lemma json_of_float_strict : forall f, atom_strict (json_of_float f) = true.
Proof. intros [id| | |]; reflexivity. Qed.
Lemma json_of_value_strict : forall v, atom_strict (json_of_value v) = true.
Proof. intros [s|z|z|f|]; simpl; try reflexivity. apply json_of_float_strict. Qed.
Lemma json_of_sample_strict : forall x, atom_strict (json_of_sample x) = true.
Proof. intros [f|s]; simpl; [apply json_of_float_strict|reflexivity]. Qed.

Lemma json_section_strict : forall s, sect_strict (json_section s) = true.
Proof.
  intros [t|l]; simpl; [reflexivity|].
  induction (dictview l) as [|[k v] d IH]; simpl; [reflexivity|].
  rewrite json_of_value_strict. exact IH.
Qed.

Lemma to_json_strict : forall l, strict_json (to_json l) = true.
Proof.
  intro l. unfold strict_json, to_json. simpl jmeta. simpl jdata. apply andb_true_iff. split.
  - apply forallb_forall. intros [n s] Hin. apply in_map_iff in Hin. destruct Hin as [[n' s'] [E _]].
    injection E as <- <-. simpl. apply json_section_strict.
  - apply forallb_forall. intros [k col] Hin. apply in_dict_of in Hin. destruct Hin as [k' Hin].
    apply in_map_iff in Hin. destruct Hin as [c [E _]]. injection E as _ <-. simpl.
    apply forallb_forall. intros a Ha. apply in_map_iff in Ha. destruct Ha as [x [<- _]]. apply json_of_sample_strict.
Qed.

(* the keys of a standard section carry the values of its items *)
Lemma json_dict_values : forall its,
  NoDup (map session its) ->
  forall it, In it its ->
    dict_get (session it) (map (fun kv => (fst kv, json_of_value (snd kv))) (dictview its))
    = Some (json_of_value (value it)).
Proof.
  intros its Hnd it Hin. rewrite dict_get_map. unfold dictview.
  rewrite (dict_get_of _ (session it) (value it)).
  - reflexivity.
  - rewrite map_map. simpl. exact Hnd.
  - apply in_map_iff. exists it. split; [reflexivity|exact Hin].
Qed.

Definition std_items (l : las) : list (list N * list item) :=
  [ (s2l "Version", version l); (s2l "Well", well l); (s2l "Curves", curves l); (s2l "Parameter", params l) ].

Lemma to_json_values : forall l,
  (forall name its, In (name, its) (std_items l) -> NoDup (map session its) ->
     exists d, dict_get name (jmeta (to_json l)) = Some (JDict d) /\
               forall it, In it its -> dict_get (session it) d = Some (json_of_value (value it)))
  /\ dict_get (s2l "Other") (jmeta (to_json l)) = Some (JText (other l))
  /\ (NoDup (map session (curves l)) ->
      forall c, In c (curves l) ->
        dict_get (session c) (jdata (to_json l)) = Some (map json_of_sample (data c))).
Proof.
  intro l. split; [|split].
  - intros name its Hin Hnd. unfold std_items in Hin. simpl in Hin.
    destruct Hin as [E|[E|[E|[E|[]]]]]; injection E as <- <-;
      (exists (map (fun kv => (fst kv, json_of_value (snd kv))) (dictview its)); split; [reflexivity|]);
      intros it Hit; apply json_dict_values; assumption.
  - reflexivity.
  - intros Hnd c Hc. unfold to_json. simpl jdata.
    apply dict_get_of.
    + rewrite map_map. simpl. exact Hnd.
    + apply in_map_iff. exists c. split; [reflexivity|exact Hc].
Qed.
