(* Proofs.KeysClosedForm — the closed form of the session mnemonics (ItemsSpec.spec_keys) is an
   invariant of "growing" histories: the suffix rule re-numbers only the group of the NEW item on
   append / insert / replace and never on delete, so keys = spec_keys (originals) holds after
   appends, inserts, in-place updates and set_data, and may fail after a delete or a replacement
   (grows / igrows say which operations are meant).  The main lemma canon_insert_at generalises
   ItemsInvProofs.canon_append from "append at the end" to "insert at position k". *)
From Coq Require Import List NArith ZArith Bool Arith Lia String.
Import ListNotations.
Require Import PyStr Items ItemsSpec ItemsProofs ItemsInvProofs Curves CurvesSpec CurvesProofs CurvesInvProofs.
Open Scope N_scope.

(* ======================================================================================= *)
(* counting names around an insertion point                                                  *)

Definition hit (tr : bool) (u m : list N) : nat :=
  if mnemonic_compare tr (useful_of m) u then 1%nat else 0%nat.

Lemma names_count_cons : forall tr u m l,
  names_count tr u (m :: l) = (hit tr u m + names_count tr u l)%nat.
Proof.
  intros. unfold names_count, hit. cbn [filter].
  destruct (mnemonic_compare tr (useful_of m) u); reflexivity.
Qed.

Lemma names_count_nil : forall tr u, names_count tr u [] = 0%nat.
Proof. reflexivity. Qed.

Lemma names_count_insert_at : forall tr u m l k,
  names_count tr u (insert_at k m l) = (names_count tr u l + hit tr u m)%nat.
Proof.
  intros tr u m. induction l as [|a l IH]; intro k.
  - destruct k; cbn [insert_at]; rewrite names_count_cons, names_count_nil; lia.
  - destruct k as [|k]; cbn [insert_at].
    + rewrite names_count_cons. lia.
    + rewrite !names_count_cons, IH. lia.
Qed.

Lemma names_count_firstn_insert_at : forall tr u m l k n, (k <= List.length l)%nat ->
  names_count tr u (firstn n (insert_at k m l)) =
  (names_count tr u (firstn (if (n <=? k)%nat then n else Nat.pred n) l)
   + (if (k <? n)%nat then hit tr u m else 0))%nat.
Proof.
  intros tr u m. induction l as [|a l IH]; intros k n Hk.
  - cbn [List.length] in Hk. assert (k = 0%nat) by lia. subst k. cbn [insert_at].
    rewrite firstn_nil. destruct n as [|n]; [reflexivity|].
    cbn [firstn]. rewrite firstn_nil, names_count_cons, names_count_nil.
    replace (0 <? S n)%nat with true by (symmetry; apply Nat.ltb_lt; lia). lia.
  - destruct k as [|k]; cbn [insert_at].
    + destruct n as [|n]; [reflexivity|].
      replace (S n <=? 0)%nat with false by (symmetry; apply Nat.leb_gt; lia).
      replace (0 <? S n)%nat with true by (symmetry; apply Nat.ltb_lt; lia).
      cbn [firstn Nat.pred]. rewrite names_count_cons. lia.
    + destruct n as [|n]; [reflexivity|].
      cbn [firstn]. rewrite names_count_cons, IH by (cbn [List.length] in Hk; lia).
      change (S n <=? S k)%nat with (n <=? k)%nat. change (S k <? S n)%nat with (k <? n)%nat.
      destruct (n <=? k)%nat eqn:E.
      * cbn [firstn]. rewrite names_count_cons. lia.
      * apply Nat.leb_gt in E. destruct n as [|n']; [lia|].
        cbn [Nat.pred firstn]. rewrite names_count_cons. lia.
Qed.

Lemma hit_false : forall tr u m, mnemonic_compare tr (useful_of m) u = false -> hit tr u m = 0%nat.
Proof. intros tr u m H. unfold hit. rewrite H. reflexivity. Qed.

Lemma hit_le : forall tr u m, (hit tr u m <= 1)%nat.
Proof. intros. unfold hit. destruct (mnemonic_compare _ _ _); lia. Qed.

(* ======================================================================================= *)
(* Items level                                                                               *)

Lemma keys_canon : forall s, keys s = spec_keys (transforms s) (origs s) -> canon (transforms s) (origs s) s.
Proof.
  intros s H. split; [reflexivity|]. split; [reflexivity|].
  intros n it E.
  assert (nth_error (keys s) n = Some (sess it)) as K.
  { unfold keys. rewrite nth_error_map, E. reflexivity. }
  rewrite H in K. unfold spec_keys in K. rewrite spec_keys_aux_nth in K.
  unfold origs at 2 in K. rewrite nth_error_map, E in K. cbn in K. inversion K. reflexivity.
Qed.

Lemma canon_retarget : forall tr names s, canon tr names s -> canon tr (origs s) s.
Proof. intros tr names s [O [T C]]. subst names. split; [reflexivity|]. split; assumption. Qed.

Lemma spec_sess_single : forall tr names n m,
  (names_count tr (useful_of m) names <= 1)%nat -> spec_sess tr names n m = useful_of m.
Proof.
  intros tr names n m H. unfold spec_sess.
  replace (Nat.ltb 1 (names_count tr (useful_of m) names)) with false; [reflexivity|].
  symmetry. apply Nat.ltb_ge. exact H.
Qed.

Lemma canon_insert_at : forall tr names s x k,
  canon tr names s -> sess x = useful x -> (k <= List.length (items s))%nat ->
  canon tr (insert_at k (orig x) names) (assign_suffixes (useful x) (with_items s (insert_at k x (items s)))).
Proof.
  intros tr names s x k [O [T C]] Sx Hk. set (m := orig x).
  assert (List.length names = List.length (items s)) as Ln by (rewrite <- O; unfold origs; apply map_length).
  assert (useful x = useful_of m) as Ux by reflexivity.
  split; [rewrite assign_orig; unfold origs; cbn [with_items items]; rewrite map_insert_at; fold (origs s); rewrite O; reflexivity|].
  split; [rewrite assign_transforms; exact T|].
  intros n it' H. apply numbering_after in H. destruct H as [it [E [P S]]]. rewrite T in S.
  assert (orig it' = orig it) as Oi by (unfold payload in P; inversion P; reflexivity).
  rewrite S, Oi. clear S P Oi it'.
  set (raw := insert_at k x (items s)) in *.
  assert (List.map orig raw = insert_at k m names) as Mr.
  { unfold raw. rewrite map_insert_at. fold (origs s). rewrite O. reflexivity. }
  (* where the item at position n of the raw list comes from *)
  assert ((n = k /\ it = x) \/
          (n <> k /\ nth_error (items s) (if (n <=? k)%nat then n else Nat.pred n) = Some it)) as Src.
  { unfold raw in E. rewrite insert_at_nth in E by exact Hk.
    destruct (n <? k)%nat eqn:E1.
    - right. apply Nat.ltb_lt in E1. split; [lia|].
      replace (n <=? k)%nat with true by (symmetry; apply Nat.leb_le; lia). exact E.
    - apply Nat.ltb_ge in E1. destruct (n =? k)%nat eqn:E2.
      + left. apply Nat.eqb_eq in E2. inversion E. auto.
      + right. apply Nat.eqb_neq in E2. split; [exact E2|].
        replace (n <=? k)%nat with false by (symmetry; apply Nat.leb_gt; lia). exact E. }
  unfold numbered, rank. rewrite Ux.
  rewrite !group_count_names. rewrite <- firstn_map, Mr.
  set (u := useful_of (orig it)). change (useful it) with u.
  rewrite <- Ln in Hk.
  destruct (in_group tr (useful_of m) it) eqn:G.
  - (* it belongs to the group of the new item *)
    unfold in_group in G. change (useful it) with u in G. cbn [andb].
    unfold spec_sess. fold u.
    rewrite (names_count_cong tr u (useful_of m) (insert_at k m names) G).
    rewrite (names_count_cong tr u (useful_of m) (firstn n (insert_at k m names)) G).
    destruct (Nat.ltb 1 (names_count tr (useful_of m) (insert_at k m names))) eqn:C1; [reflexivity|].
    apply Nat.ltb_ge in C1. rewrite names_count_insert_at in C1.
    destruct Src as [[_ ->]|[_ Src]]; [exact Sx|].
    rewrite (C _ it Src). apply spec_sess_single. fold u.
    rewrite (names_count_cong tr u (useful_of m) names G). lia.
  - (* another group: nothing changes, and the new name does not count for it *)
    cbn [andb]. unfold in_group in G. change (useful it) with u in G.
    assert (mnemonic_compare tr (useful_of m) u = false) as G' by (rewrite cmp_sym; exact G).
    destruct Src as [[_ ->]|[Nk Src]].
    { unfold u in G. fold m in G. rewrite cmp_refl in G. discriminate. }
    rewrite (C _ it Src). unfold spec_sess. fold u.
    rewrite names_count_insert_at, names_count_firstn_insert_at by exact Hk.
    rewrite (hit_false tr u m G'), Nat.add_0_r.
    replace (if (k <? n)%nat then 0%nat else 0%nat) with 0%nat by (destruct (k <? n)%nat; reflexivity).
    rewrite Nat.add_0_r. reflexivity.
Qed.

Lemma canon_insert : forall tr names s i x, canon tr names s -> sess x = useful x ->
  canon tr (py_insert i (orig x) names) (insert s i x).
Proof.
  intros tr names s i x H Sx. unfold insert, py_insert.
  assert (List.length names = List.length (items s)) as Ln.
  { destruct H as [O _]. rewrite <- O. unfold origs. apply map_length. }
  rewrite Ln. apply canon_insert_at; [assumption|assumption|apply py_clamp_le].
Qed.

Lemma canon_append_item : forall tr names s x, canon tr names s -> sess x = useful x ->
  canon tr (names ++ [orig x]) (append s x).
Proof.
  intros tr names s x H Sx. unfold append.
  assert (List.length names = List.length (items s)) as Ln.
  { destruct H as [O _]. rewrite <- O. unfold origs. apply map_length. }
  rewrite <- (insert_at_end (items s)), <- (insert_at_end names), Ln.
  apply canon_insert_at; [assumption|assumption|apply Nat.le_refl].
Qed.

Definition semi_canon (tr : bool) (names : list (list N)) (s : section) : Prop :=
  origs s = names /\ transforms s = tr /\
  forall n it, nth_error (items s) n = Some it -> sess it = spec_sess tr names n (orig it) \/ sess it = useful it.

Lemma canon_semi : forall tr names s, canon tr names s -> semi_canon tr names s.
Proof. intros tr names s [O [T C]]. split; [assumption|]. split; [assumption|]. intros n it E. left. auto. Qed.

(* one run of the suffix rule on a semi-canonical section *)
Lemma assign_step_canon : forall tr names t s, semi_canon tr names s ->
  semi_canon tr names (assign_suffixes t s) /\
  forall n it', nth_error (items (assign_suffixes t s)) n = Some it' ->
    exists it, nth_error (items s) n = Some it /\ orig it' = orig it /\
      (sess it = spec_sess tr names n (orig it) -> sess it' = spec_sess tr names n (orig it')) /\
      (in_group tr t it = true -> sess it' = spec_sess tr names n (orig it')).
Proof.
  intros tr names t s [O [T C]].
  assert (forall n it', nth_error (items (assign_suffixes t s)) n = Some it' ->
    exists it, nth_error (items s) n = Some it /\ orig it' = orig it /\
      (sess it = spec_sess tr names n (orig it) -> sess it' = spec_sess tr names n (orig it')) /\
      (in_group tr t it = true -> sess it' = spec_sess tr names n (orig it')) /\
      (sess it' = spec_sess tr names n (orig it') \/ sess it' = useful it')) as Main.
  { intros n it' H. rewrite assign_nth in H.
    destruct (nth_error (items s) n) as [it|] eqn:E; [|discriminate]. cbn [option_map] in H.
    inversion H; subst it'. clear H. exists it. split; [reflexivity|]. split; [reflexivity|].
    cbn [orig sess set_sess]. change (useful (set_sess it _)) with (useful it).
    rewrite T. unfold numbered, rank. rewrite !group_count_names. rewrite <- firstn_map.
    fold (origs s). rewrite O.
    set (u := useful_of (orig it)). change (useful it) with u.
    destruct (in_group tr t it) eqn:G.
    - unfold in_group in G. change (useful it) with u in G. cbn [andb].
      assert (spec_sess tr names n (orig it) =
              if Nat.ltb 1 (names_count tr t names)
              then u ++ suffix (S (names_count tr t (firstn n names))) else u) as SP.
      { unfold spec_sess. fold u. rewrite (names_count_cong tr u t names G).
        rewrite (names_count_cong tr u t (firstn n names) G). reflexivity. }
      destruct (Nat.ltb 1 (names_count tr t names)) eqn:C1.
      + split; [intros _; symmetry; exact SP|]. split; [intros _; symmetry; exact SP|]. left. symmetry. exact SP.
      + assert (sess it = u) as Su.
        { destruct (C n it E) as [K|K]; [rewrite K, SP; reflexivity|exact K]. }
        rewrite SP, Su. auto.
    - cbn [andb]. split; [auto|]. split; [discriminate|]. apply (C n it E). }
  split.
  - split; [rewrite assign_orig; exact O|]. split; [rewrite assign_transforms; exact T|].
    intros n it' H. destruct (Main n it' H) as [it [_ [_ [_ [_ K]]]]]. exact K.
  - intros n it' H. destruct (Main n it' H) as [it [E [Oi [A [B _]]]]]. exists it. auto.
Qed.

Lemma fold_assign_canon : forall tr names ts s done,
  semi_canon tr names s ->
  (forall n it, nth_error (items s) n = Some it -> In (useful it) done -> sess it = spec_sess tr names n (orig it)) ->
  let s' := fold_left (fun acc t => assign_suffixes t acc) ts s in
  semi_canon tr names s' /\
  (forall n it, nth_error (items s') n = Some it -> In (useful it) (done ++ ts) -> sess it = spec_sess tr names n (orig it)).
Proof.
  intros tr names. induction ts as [|t ts IH]; intros s done HS HD; cbn [fold_left].
  - rewrite app_nil_r. auto.
  - destruct (assign_step_canon tr names t s HS) as [HS1 St].
    specialize (IH (assign_suffixes t s) (done ++ [t]) HS1).
    rewrite <- app_assoc in IH. cbn [app] in IH. apply IH.
    intros n it' E Hin. destruct (St n it' E) as [it [E0 [Oi [A B]]]].
    assert (useful it' = useful it) as Ui by (unfold useful; rewrite Oi; reflexivity).
    apply in_app_or in Hin. destruct Hin as [Hin|[Hin|[]]].
    + apply A. apply (HD n it E0). rewrite <- Ui. exact Hin.
    + apply B. unfold in_group. rewrite <- Ui, <- Hin. apply cmp_refl.
Qed.

Lemma canon_assign_all : forall tr names s, semi_canon tr names s -> canon tr names (assign_all s).
Proof.
  intros tr names s HS. unfold assign_all.
  destruct (fold_assign_canon tr names (List.map useful (items s)) s [] HS) as [[O [T _]] K].
  { intros n it _ []. }
  cbn [app] in K. split; [exact O|]. split; [exact T|].
  intros n it E. apply (K n it E).
  (* the item at position n has the original of position n of s *)
  assert (nth_error names n = Some (orig it)) as N1.
  { rewrite <- O. unfold origs. rewrite nth_error_map, E. reflexivity. }
  destruct HS as [O0 _]. rewrite <- O0 in N1. unfold origs in N1. rewrite nth_error_map in N1.
  destruct (nth_error (items s) n) as [it0|] eqn:E0; [|discriminate]. cbn in N1. inversion N1 as [N2].
  apply in_map_iff. exists it0. split; [unfold useful; rewrite N2; reflexivity|]. eapply nth_error_In; eauto.
Qed.

Lemma numbering_replace : forall s k a s', set_item s k (make a) = IOk s' ->
  (exists p, (p < List.length (items s))%nat /\
     forall n it', nth_error (items s') n = Some it' ->
       exists it, nth_error (replace_at p (make a) (items s)) n = Some it /\ payload it' = payload it /\
                  sess it' = numbered (transforms s) (useful (make a)) (replace_at p (make a) (items s)) n it)
  \/ s' = append s (make a).
Proof.
  intros s k a s' H. destruct k as [m|z]; cbn [set_item] in H.
  - destruct (find_ix _ _) as [p|] eqn:F; inversion H; subst s'; [|right; reflexivity].
    left. exists p. split; [eapply find_ix_lt; eauto|]. intros n it' E. apply numbering_after. exact E.
  - destruct (py_index _ _) as [p|] eqn:F; inversion H; subst s'.
    left. exists p. split; [eapply py_index_lt; eauto|]. intros n it' E. apply numbering_after. exact E.
Qed.

Lemma numbering_delete : forall s k s', delitem s k = IOk s' ->
  exists p, lookup_ix s k = IOk p /\ items s' = remove_at p (items s) /\ keys s' = remove_at p (keys s).
Proof.
  intros s k s' H. unfold delitem in H. destruct (lookup_ix s k) as [p|e]; inversion H; subst s'.
  exists p. split; [reflexivity|]. split; [reflexivity|]. unfold keys. cbn [with_items items]. apply map_remove_at.
Qed.

Lemma fold_assign_payload : forall ts s,
  List.map payload (items (fold_left (fun acc t => assign_suffixes t acc) ts s)) = List.map payload (items s).
Proof. induction ts as [|t ts IH]; intro s; cbn [fold_left]; [reflexivity|]. rewrite IH. apply assign_payload. Qed.

Lemma assign_all_payload : forall s, List.map payload (items (assign_all s)) = List.map payload (items s).
Proof. intro s. unfold assign_all. apply fold_assign_payload. Qed.

Lemma numbering_assign_all : forall s, (forall it, In it (items s) -> sess it = useful it) ->
  keys (assign_all s) = spec_keys (transforms s) (origs s) /\ origs (assign_all s) = origs s /\
  List.map payload (items (assign_all s)) = List.map payload (items s).
Proof.
  intros s F.
  assert (canon (transforms s) (origs s) (assign_all s)) as K.
  { apply canon_assign_all. split; [reflexivity|]. split; [reflexivity|].
    intros n it E. right. apply F. eapply nth_error_In; eauto. }
  split; [apply canon_keys; exact K|]. split; [apply K|apply assign_all_payload].
Qed.

Lemma numbering_assign_all_canon : forall s, keys s = spec_keys (transforms s) (origs s) ->
  keys (assign_all s) = spec_keys (transforms s) (origs s).
Proof. intros s H. apply canon_keys. apply canon_assign_all. apply canon_semi. apply keys_canon. exact H. Qed.

(* ======================================================================================= *)
(* Curves level                                                                              *)

Definition grows (s : section) (o : Curves.op) : bool :=
  match o with
  | ODelete _ _ | OReplace _ _ => false
  | OSetItem k (VItem _) => match key_index (keys s) k with Some _ => false | None => true end
  | _ => true
  end.
Fixpoint grows_all (s : section) (ops : list Curves.op) : bool :=
  match ops with [] => true | o :: r => grows s o && grows_all (Curves.step_keep s o) r end.

(* an in-place edit that keeps both names *)
Lemma canon_update_at : forall tr names s n (f : item -> item),
  (forall it, orig (f it) = orig it) -> (forall it, sess (f it) = sess it) ->
  canon tr names s -> canon tr names (with_items s (update_at n f (items s))).
Proof.
  intros tr names s n f Fo Fs [O [T C]].
  split; [unfold origs; cbn [with_items items]; rewrite update_at_map by exact Fo; exact O|].
  split; [exact T|].
  intros m it E. cbn [with_items items] in E. rewrite update_at_nth in E.
  destruct (m =? n)%nat.
  - destruct (nth_error (items s) m) as [it0|] eqn:E0; [|discriminate]. cbn [option_map] in E.
    inversion E; subst it. rewrite Fs, Fo. apply (C m it0 E0).
  - apply (C m it E).
Qed.

Lemma extend_transforms : forall k s, transforms (extend s k) = transforms s.
Proof.
  induction k as [|k IH]; intro s; cbn [extend]; [reflexivity|].
  rewrite IH. unfold append. rewrite assign_transforms. reflexivity.
Qed.

Lemma insert_curve_canon : forall tr names s i a, canon tr names s ->
  canon tr (py_insert i (c_mnem a) names) (insert s i (new_curve a)).
Proof. intros tr names s i a H. apply (canon_insert tr names s i (new_curve a) H). reflexivity. Qed.

Lemma update_at_ix_canon : forall tr names s z u s', canon tr names s ->
  update_at_ix s z u = IOk s' -> canon tr names s'.
Proof.
  intros tr names s z u s' H E. unfold update_at_ix in E.
  destruct (lookup_ix s (KInt z)) as [n|e]; inversion E; subst s'.
  apply canon_update_at; auto.
Qed.

Lemma set_data_canon : forall tr names s a l t s', canon tr names s ->
  set_data s a l t = IOk s' -> canon tr (origs s') s'.
Proof.
  intros tr names s a l t s' H E.
  assert (canon tr (origs (assign_all s)) (assign_all s)) as KA.
  { eapply canon_retarget. apply canon_assign_all. apply canon_semi. exact H. }
  unfold set_data in E. destruct a as [d|cols0].
  - destruct t; [discriminate|]. destruct d; [|discriminate]. inversion E; subst s'. exact KA.
  - set (cols := if t then firstn (List.length (items s)) cols0 else cols0) in E.
    destruct (size_pos cols); [|inversion E; subst s'; exact KA].
    destruct (Nat.ltb (List.length cols) (List.length (items s))) eqn:Lt; [discriminate|].
    inversion E; subst s'. clear E. apply Nat.ltb_ge in Lt.
    set (s1 := extend s (List.length cols - List.length (items s))).
    destruct (set_data_lengths s cols l Lt) as [Ln Lc]. fold s1 in Ln, Lc.
    eapply canon_retarget. apply canon_assign_all.
    split; [reflexivity|]. split.
    + cbn [with_items transforms]. unfold s1. rewrite extend_transforms. apply H.
    + intros n it En. right. cbn [with_items items] in En. apply nth_error_In in En.
      apply (bind_cols_fresh (items s1) (names_for s1 l) cols); [assumption|lia|assumption].
Qed.

Theorem step_canon : forall s o, canon (transforms s) (origs s) s -> grows s o = true ->
  canon (transforms s) (origs (Curves.step_keep s o)) (Curves.step_keep s o).
Proof.
  intros s o HC G. unfold Curves.step_keep.
  destruct o as [a|ix a|x|ix x|mn ix|mn ix u|ix a|k v|a l t]; cbn [Curves.step].
  - unfold append_curve, insert_curve. cbn [insert_curve_item].
    eapply canon_retarget. apply insert_curve_canon. exact HC.
  - unfold insert_curve. cbn [insert_curve_item].
    eapply canon_retarget. apply insert_curve_canon. exact HC.
  - destruct x as [a|]; unfold append_curve_item; cbn [insert_curve_item]; [|exact HC].
    eapply canon_retarget. apply insert_curve_canon. exact HC.
  - destruct x as [a|]; cbn [insert_curve_item]; [|exact HC].
    eapply canon_retarget. apply insert_curve_canon. exact HC.
  - discriminate.
  - unfold update_curve. destruct (resolve_addr (keys s) mn ix) as [z|e]; [|exact HC].
    destruct (update_at_ix s z u) as [s'|e] eqn:E; [|exact HC].
    eapply canon_retarget. eapply update_at_ix_canon; eauto.
  - discriminate.
  - destruct v as [d|a]; cbn [setitem].
    + destruct (key_index (keys s) k) as [n|] eqn:K.
      * unfold update_curve. cbn [resolve_addr]. rewrite K.
        destruct (update_at_ix s (Z.of_nat n) _) as [s'|e] eqn:E; [|exact HC].
        eapply canon_retarget. eapply update_at_ix_canon; eauto.
      * unfold append_curve, insert_curve. cbn [insert_curve_item].
        eapply canon_retarget. apply insert_curve_canon. exact HC.
    + cbn [grows] in G. destruct (negb (str_eqb k (sess (new_curve a)))); [exact HC|].
      destruct (key_index (keys s) k) as [n|]; [discriminate|].
      unfold append_curve_item. cbn [insert_curve_item].
      eapply canon_retarget. apply insert_curve_canon. exact HC.
  - destruct (set_data s a l t) as [s'|e] eqn:E; [|exact HC].
    eapply set_data_canon; eauto.
Qed.

Lemma step_canon_transforms : forall s o, canon (transforms s) (origs s) s -> grows s o = true ->
  transforms (Curves.step_keep s o) = transforms s.
Proof. intros s o HC G. apply (step_canon s o HC G). Qed.

Theorem run_canon : forall ops s, canon (transforms s) (origs s) s -> grows_all s ops = true ->
  canon (transforms s) (origs (Curves.run s ops)) (Curves.run s ops).
Proof.
  induction ops as [|o ops IH]; intros s HC G; unfold Curves.run in *; cbn [fold_left]; [exact HC|].
  cbn [grows_all] in G. apply andb_true_iff in G. destruct G as [G1 G2].
  pose proof (step_canon s o HC G1) as H1. pose proof (step_canon_transforms s o HC G1) as T1.
  rewrite <- T1. apply IH; [rewrite T1; exact H1|exact G2].
Qed.

Lemma origs_abs : forall s, origs s = List.map e_name (abs s).
Proof. intro s. unfold origs, abs. rewrite map_map. reflexivity. Qed.

Theorem keys_closed_form : forall ops s, keys s = spec_keys (transforms s) (origs s) -> grows_all s ops = true ->
  keys (Curves.run s ops) =
  spec_keys (transforms s) (List.map e_name (fold_left spec_keep (resolved s ops) (abs s))).
Proof.
  intros ops s H G. rewrite <- refinement, <- origs_abs.
  apply canon_keys. apply run_canon; [apply keys_canon; exact H|exact G].
Qed.

Lemma read_curves_snoc : forall tr l a, read_curves tr (l ++ [a]) = append (read_curves tr l) (new_curve a).
Proof. intros. unfold read_curves. rewrite fold_left_app. reflexivity. Qed.

Lemma read_curves_canon_aux : forall tr l, canon tr (List.map c_mnem l) (read_curves tr l).
Proof.
  intros tr l. induction l as [|a l IH] using rev_ind.
  - split; [reflexivity|split; [reflexivity|]]. intros n it H. destruct n; discriminate.
  - rewrite read_curves_snoc, map_app. cbn [List.map].
    apply (canon_append_item tr (List.map c_mnem l) (read_curves tr l) (new_curve a) IH). reflexivity.
Qed.

Lemma read_curves_canon : forall tr l, keys (read_curves tr l) = spec_keys tr (List.map c_mnem l) /\ origs (read_curves tr l) = List.map c_mnem l /\ transforms (read_curves tr l) = tr.
Proof.
  intros tr l. pose proof (read_curves_canon_aux tr l) as K.
  split; [apply canon_keys; exact K|]. split; apply K.
Qed.

(* ======================================================================================= *)
(* the Items state machine                                                                   *)

Definition igrows (o : Items.op) : bool := match o with OpAppend _ | OpInsert _ _ | OpSetValue _ _ | OpGetAdd _ _ => true | OpDelete _ | OpReplace _ _ => false end.

Lemma istep_canon : forall tr s o, canon tr (origs s) s -> igrows o = true ->
  canon tr (origs (Items.step s o)) (Items.step s o).
Proof.
  intros tr s o HC G. unfold Items.step.
  destruct o as [a|i a|k|k a|k v|m d]; cbn [exec]; try discriminate.
  - eapply canon_retarget. apply canon_append_item; [exact HC|reflexivity].
  - eapply canon_retarget. apply canon_insert; [exact HC|reflexivity].
  - unfold set_item_value. destruct (lookup_ix s k) as [n|e]; [|exact HC].
    eapply canon_retarget. apply canon_update_at; [reflexivity|reflexivity|exact HC].
  - unfold get. destruct (contains s m).
    + destruct (getitem s (KStr m)); cbn [ires_map fst]; exact HC.
    + cbn [ires_map fst]. destruct (get_default_fresh s m d) as [F _].
      eapply canon_retarget. apply canon_append_item; [exact HC|exact F].
Qed.

Lemma ifold_canon : forall ops tr s, canon tr (origs s) s -> forallb igrows ops = true ->
  canon tr (origs (fold_left Items.step ops s)) (fold_left Items.step ops s).
Proof.
  induction ops as [|o ops IH]; intros tr s HC G; cbn [fold_left]; [exact HC|].
  cbn [forallb] in G. apply andb_true_iff in G. destruct G as [G1 G2].
  apply IH; [apply istep_canon; assumption|exact G2].
Qed.

Theorem items_keys_closed_form : forall ops tr, forallb igrows ops = true ->
  let s := fold_left Items.step ops (empty_section tr) in keys s = spec_keys tr (origs s).
Proof.
  intros ops tr G s. apply canon_keys. unfold s. apply ifold_canon; [|exact G].
  split; [reflexivity|split; [reflexivity|]]. intros n it H. destruct n; discriminate.
Qed.
