(* Proofs.FuncsPinItems — useful_of and mnemonic_compare of Model/Items.v ARE
   HeaderItem.useful_mnemonic and SectionItems.mnemonic_compare (Gen/Funcs.v).
   Restated as C13_useful_current, C13_compare_current. *)
From Coq Require Import List Arith NArith ZArith Bool Lia ZifyBool ZifyN ZifyNat String.
Import ListNotations.
Require Import PyStr Funcs Items.
Open Scope list_scope.
Open Scope N_scope.

Theorem useful_of_pin : forall orig, Items.useful_of orig = py_useful_mnemonic orig.
Proof.
  intros orig. unfold Items.useful_of, Items.is_blank, py_useful_mnemonic.
  destruct (strip orig); reflexivity.
Qed.

Theorem mnemonic_compare_pin : forall transforms one two,
  Items.mnemonic_compare transforms one two = py_mnemonic_compare transforms one two.
Proof.
  intros tr a b. unfold Items.mnemonic_compare, py_mnemonic_compare, Items.upper, pyo_upper.
  destruct tr; [destruct (str_eqb (map ascii_upper a) (map ascii_upper b))|destruct (str_eqb a b)]; reflexivity.
Qed.
