(* Proofs.ReadDataShape — the data pipeline of LASFile.read at the level of `read` (audit D1, D2):
   * both engines return, whenever they return, columns of one common length
     (numpy_engine_rect, normal_engine_rect; no hypothesis on the body: ragged lines, text
     tokens, comments, WRAP YES, any delimiter, any sniffed column count);
   * read_one_data = engine ; null_columns (nulleq of the NULL held) ; bind_columns ;
     data_for_curves, for every data section (read_one_data_shape), so after ANY successful
     read the data array is rectangular and has one column per curve (read_rectangular) --
     several ~A sections included: each one replaces the array and may add curves;
   * the array is null_columns of the last data section's engine output under Read.nulleq of
     the NULL value the first pass ended with (read_data_null), hence the cell-wise iff
     (read_cell_nan_iff); that value is None or the value of an item found under NULL in a
     ~W-lettered header section of the text (first_pass_null_source);
   * a missing / text / None NULL nulls nothing (nulleq_not_numeric, null_columns_never). *)
From Coq Require Import List Arith NArith Bool Lia String.
Import ListNotations.
Require Import PyStr Regex Regexes NumLit Num HeaderLine Tables SectionParse Sections DataRead Read.
Require Import DataReadProofs ItemsBindProofs ReadProofs ReadInvProofs ReadCongr.
Open Scope string_scope.
Open Scope list_scope.
Open Scope N_scope.

(* ---- rectangular lists of columns ----------------------------------------------------------- *)
Definition rect {A} (n : nat) (cols : list (list A)) : Prop := Forall (fun c => List.length c = n) cols.

Lemma transpose_n_rect : forall n (rows : list (list (list N))), rect (List.length rows) (transpose_n n rows).
Proof.
  unfold rect. induction n as [|n IH]; intros rows; cbn [transpose_n]; constructor.
  - apply map_length.
  - specialize (IH (map (@tl _) rows)). rewrite map_length in IH. exact IH.
Qed.

Lemma rect_map {A B} (f : list A -> list B) n cols :
  (forall c, List.length (f c) = List.length c) -> rect n cols -> rect n (map f cols).
Proof.
  intros Hf H. unfold rect in *. apply Forall_forall. intros c Hc. apply in_map_iff in Hc as (c0 & <- & Hin).
  rewrite Hf. rewrite Forall_forall in H. apply H. exact Hin.
Qed.

Lemma rect_nth {A} n (cols : list (list A)) j : rect n cols -> (j < List.length cols)%nat -> List.length (nth j cols []) = n.
Proof. intros H Hj. unfold rect in H. rewrite Forall_forall in H. apply H. apply nth_In. exact Hj. Qed.

Section Engines.
Variable fhex : list N -> option (list N).
Variable fstr : list N -> list N.

Lemma column_cells_length mixed col : List.length (column_cells fhex fstr mixed col) = List.length col.
Proof.
  unfold column_cells. destruct mixed; cbn [negb]; [|apply map_length].
  destruct col as [|first col]; [reflexivity|].
  destruct (is_float_tok fhex first && forallb (is_float_tok fhex) (first :: col)); rewrite !map_length; reflexivity.
Qed.

(* D2: the numpy engine returns the columns of a rectangular array, whenever it returns *)
Theorem numpy_engine_rect body cols : numpy_engine fhex body = Some cols ->
  rect (List.length (genfromtxt_rows body)) cols /\
  List.length cols = List.length (hd [] (genfromtxt_rows body)) /\ genfromtxt_rows body <> [].
Proof.
  unfold numpy_engine. destruct (genfromtxt_rows body) as [|r0 rows] eqn:E; [discriminate|].
  destruct (_ && _); [|discriminate]. intros H. injection H as <-. split; [|split].
  - apply rect_map; [intros c; apply map_length|]. apply transpose_n_rect.
  - rewrite map_length, transpose_n_length. reflexivity.
  - discriminate.
Qed.

(* D2: so does the normal engine, for every delimiter, substitution list, requested column
   count and body (an empty result is the empty list of columns) *)
Theorem normal_engine_rect d subs n body cols : normal_engine fhex fstr d subs n body = DOk cols ->
  cols = [] \/
  exists rows, reshape n (normal_items d subs body) = Some rows /\ rect (List.length rows) cols /\ List.length cols = n.
Proof.
  unfold normal_engine.
  destruct (match normal_items d subs body with [] => 0%nat | _ :: _ => n end) as [|k] eqn:Ek.
  - intros H. injection H as <-. left. reflexivity.
  - assert (En : n = S k) by (destruct (normal_items d subs body); [discriminate|exact Ek]).
    rewrite <- En. destruct (reshape n (normal_items d subs body)) as [rows|]; [|discriminate].
    intros H. injection H as <-. right. exists rows. split; [reflexivity|]. split.
    + apply rect_map; [apply column_cells_length|]. apply transpose_n_rect.
    + rewrite map_length. apply transpose_n_length.
Qed.

Corollary normal_engine_rect_ex d subs n body cols : normal_engine fhex fstr d subs n body = DOk cols ->
  exists r, rect r cols.
Proof.
  intros H. destruct (normal_engine_rect d subs n body cols H) as [->|(rows & _ & Hr & _)].
  - exists 0%nat. constructor.
  - exists (List.length rows). exact Hr.
Qed.

End Engines.

(* ---- NULL -> NaN keeps the shape; a NULL that is not a number nulls nothing ---------------- *)
Lemma null_columns_rect f strict n : forall cols k, rect n cols -> rect n (null_columns f strict k cols).
Proof.
  unfold rect. induction cols as [|c cols IH]; intros k H; cbn [null_columns]; [constructor|].
  inversion H as [|? ? Hc Hcols]; subst. constructor; [|apply IH; exact Hcols].
  apply null_column_length.
Qed.

Lemma null_columns_len f strict : forall cols k, List.length (null_columns f strict k cols) = List.length cols.
Proof. induction cols as [|c cols IH]; intros k; cbn [null_columns List.length]; [reflexivity|]. rewrite IH. reflexivity. Qed.

Lemma null_column_never f strict idx col : (forall t, f t = false) -> null_column f strict idx col = col.
Proof.
  intros Hf. unfold null_column. destruct (strict && is_float_col col && negb (Nat.eqb idx 0)); [|reflexivity].
  rewrite <- (map_id col) at 2. apply map_ext. intros [t| |s]; [rewrite Hf|..]; reflexivity.
Qed.

Lemma null_columns_never f strict : (forall t, f t = false) -> forall cols k, null_columns f strict k cols = cols.
Proof.
  intros Hf. induction cols as [|c cols IH]; intros k; cbn [null_columns]; [reflexivity|].
  rewrite null_column_never by exact Hf. rewrite IH. reflexivity.
Qed.

(* the NULL the reader holds is no number: absent, a text ("N/A"), or None *)
Definition null_not_numeric (pn : option hval) : Prop :=
  match pn with Some (VInt _) | Some (VFloat _) => False | _ => True end.

Lemma nulleq_not_numeric numeq pn : null_not_numeric pn -> forall t, nulleq numeq pn t = false.
Proof. destruct pn as [[z|x|s|]|]; cbn; intros H t; try reflexivity; destruct H. Qed.

Lemma nulleq_numeric numeq pn t : nulleq numeq pn t = true ->
  (exists z, pn = Some (VInt z) /\ numeq t (z_to_str z) = true) \/ (exists x, pn = Some (VFloat x) /\ numeq t x = true).
Proof.
  destruct pn as [[z|x|s|]|]; cbn; intros H; try discriminate; [left; exists z|right; exists x]; split; auto.
Qed.

(* ---- data_for_curves ---------------------------------------------------------------------- *)
Lemma data_for_curves_rect_any n r (cols : list (list cell)) : rect r cols -> rect (curve_length cols) (data_for_curves n cols).
Proof.
  intros H. apply data_for_curves_rect. destruct cols as [|c cols]; [constructor|].
  rewrite (curve_length_common r (c :: cols)) by (try discriminate; exact H). exact H.
Qed.

Section WithOracles.
Variable fhex : list N -> option (list N).
Variable fstr : list N -> list N.
Variable numeq : list N -> list N -> bool.

(* ---- one data section --------------------------------------------------------------------- *)
(* what the engines return for a data section body: the first three lines of data_core *)
Definition engine_out (o : ropts) (pw : hval) (d : dlm) (body : list (list N)) (ncurves : nat) (wd : bool) : dres :=
  let use_numpy := o_engine_numpy o && negb (hval_is_str pw (s2l "YES")) && o_null_strict o in
  let subs0 := match d with DComma => comma_delim_subs | _ => default_subs end in
  match (if use_numpy then numpy_engine fhex body else None) with
  | Some cols => DOk cols
  | None => normal_engine fhex fstr d (snd (inspect_twice d body subs0))
              (n_columns_of (fst (inspect_twice d body subs0)) ncurves wd) body
  end.

Theorem engine_out_rect o pw d body nc wd cols : engine_out o pw d body nc wd = DOk cols -> exists r, rect r cols.
Proof.
  unfold engine_out.
  destruct (if o_engine_numpy o && negb (hval_is_str pw (s2l "YES")) && o_null_strict o then numpy_engine fhex body else None)
    as [c0|] eqn:En.
  - intros H. injection H as <-.
    destruct (o_engine_numpy o && negb (hval_is_str pw (s2l "YES")) && o_null_strict o); [|discriminate].
    destruct (numpy_engine_rect fhex body c0 En) as (Hr & _). eexists. exact Hr.
  - apply normal_engine_rect_ex.
Qed.

(* the shape of one data section's result *)
Definition one_data_result (o : ropts) (pn : option hval) (l : las) (cols : list (list cell)) (l' : las) : Prop :=
  let cols' := null_columns (nulleq numeq pn) (o_null_strict o) 0%nat cols in
  let tr := s_transforms (l_curves l) in
  l_curves l' = mksect (bind_columns tr (s_items (l_curves l)) 0%nat cols') tr /\
  l_data l' = data_for_curves (List.length (s_items (l_curves l'))) cols' /\
  l_version l' = l_version l /\ l_well l' = l_well l /\ l_params l' = l_params l /\
  l_other l' = l_other l /\ l_custom l' = l_custom l.

Theorem read_one_data_shape o ls ps d p l l' :
  read_one_data fhex fstr numeq o ls ps d p l = inl l' ->
  exists cols,
    engine_out o (p_wrapped ps) d (body_lines ls p) (List.length (s_items (l_curves l))) (wrap_decl l) = DOk cols /\
    one_data_result o (p_null ps) l cols l'.
Proof.
  rewrite read_one_data_core. unfold data_core, engine_out, n_columns_of. cbv zeta.
  destruct (inspect_twice d (body_lines ls p) _) as [sn subs]. cbn [fst snd].
  destruct (if o_engine_numpy o && negb (hval_is_str (p_wrapped ps) (s2l "YES")) && o_null_strict o
            then numpy_engine fhex (body_lines ls p) else None) as [c0|].
  - intros H. injection H as <-. exists c0. split; [reflexivity|]. unfold one_data_result. cbn. repeat split.
  - destruct (normal_engine fhex fstr d subs _ (body_lines ls p)) as [c0|]; [|discriminate].
    intros H. injection H as <-. exists c0. split; [reflexivity|]. unfold one_data_result. cbn. repeat split.
Qed.

(* rectangular, one column per curve *)
Definition data_ok (l : las) : Prop :=
  (exists n, rect n (l_data l)) /\ List.length (l_data l) = List.length (s_items (l_curves l)).

Lemma one_data_result_ok o pn l cols l' r : rect r cols -> one_data_result o pn l cols l' -> data_ok l'.
Proof.
  intros Hr (Hc & Hd & _). split.
  - exists (curve_length (null_columns (nulleq numeq pn) (o_null_strict o) 0 cols)). rewrite Hd.
    apply (data_for_curves_rect_any _ r). apply null_columns_rect. exact Hr.
  - rewrite Hd. apply data_for_curves_length. rewrite Hc. cbn [s_items].
    rewrite bind_columns_length. lia.
Qed.

Lemma read_one_data_ok o ls ps d p l l' : read_one_data fhex fstr numeq o ls ps d p l = inl l' -> data_ok l'.
Proof.
  intros H. destruct (read_one_data_shape o ls ps d p l l' H) as (cols & He & Hres).
  destruct (engine_out_rect _ _ _ _ _ _ _ He) as (r & Hr). exact (one_data_result_ok o _ l cols l' r Hr Hres).
Qed.

(* ---- all data sections --------------------------------------------------------------------- *)
Lemma read_data_sections_snoc o ls ps d : forall sects p l l',
  read_data_sections fhex fstr numeq o ls ps d (sects ++ [p]) l = inl l' ->
  exists l0, read_data_sections fhex fstr numeq o ls ps d sects l = inl l0 /\
             read_one_data fhex fstr numeq o ls ps d p l0 = inl l'.
Proof.
  induction sects as [|q sects IH]; intros p l l' H; cbn [app read_data_sections] in *.
  - destruct (read_one_data fhex fstr numeq o ls ps d p l) as [l1|e] eqn:E; [|discriminate].
    injection H as <-. exists l. split; [reflexivity|exact E].
  - destruct (read_one_data fhex fstr numeq o ls ps d q l) as [l1|e]; [|discriminate]. apply IH. exact H.
Qed.

Lemma list_snoc_cases {A} (l : list A) : l = [] \/ exists pre x, l = pre ++ [x].
Proof.
  induction l as [|a l IH]; [left; reflexivity|right]. destruct IH as [->|(pre & x & ->)].
  - exists [], a. reflexivity.
  - exists (a :: pre), x. reflexivity.
Qed.

Lemma read_data_sections_ok o ls ps d sects l l' : sects <> [] ->
  read_data_sections fhex fstr numeq o ls ps d sects l = inl l' -> data_ok l'.
Proof.
  intros Hne H. destruct (list_snoc_cases sects) as [->|(pre & p & ->)]; [congruence|].
  destruct (read_data_sections_snoc o ls ps d pre p l l' H) as (l0 & _ & H1).
  exact (read_one_data_ok o ls ps d p l0 l' H1).
Qed.

(* ---- the first pass: data stays empty, data sections are queued by title, NULL's source ---- *)
Lemma update_steering_p_las letter sec ps : p_las (update_steering letter sec ps) = p_las ps.
Proof. unfold update_steering. destruct (letter =? 86); [|destruct (letter =? 87)]; reflexivity. Qed.
Lemma update_steering_p_data letter sec ps :
  p_data (update_steering letter sec ps) = p_data ps /\ p_las3data (update_steering letter sec ps) = p_las3data ps.
Proof. unfold update_steering. destruct (letter =? 86); [|destruct (letter =? 87)]; split; reflexivity. Qed.

Definition is_tdata (p : spos) : bool := match section_type (sp_title p) with TData => true | _ => false end.
Definition is_tlas3 (p : spos) : bool := match section_type (sp_title p) with TLas3Data => true | _ => false end.

(* a ~W-lettered header section of the text in which an item is found under NULL *)
Definition null_source (o : ropts) (ls : list (list N)) (sects : list spos) (v : hval) : Prop :=
  exists p ver items it,
    In p sects /\ section_type (sp_title p) = THeader /\ second_upper (sp_title p) = Some 87 /\
    parse_section ver (sp_title p) (o_mcase o) (o_ignore_header_errors o) [ch_hash] (body_lines ls p) = POk items /\
    sect_find (match o_mcase o with CasePreserve => false | _ => true end) (s2l "NULL") items = Some it /\
    v = i_value it.

Lemma step_section_facts o ls ps p ps' : step_section o ls ps p = inl ps' ->
  l_data (p_las ps') = l_data (p_las ps) /\
  p_data ps' = p_data ps ++ (if is_tdata p then [p] else []) /\
  p_las3data ps' = p_las3data ps ++ (if is_tlas3 p then [p] else []) /\
  (p_null ps' = p_null ps \/ exists v, p_null ps' = Some v /\ null_source o ls [p] v).
Proof.
  unfold is_tdata, is_tlas3, null_source. destruct (section_type (sp_title p)) eqn:Ety.
  - unfold step_section. rewrite Ety. intros H. injection H as <-. cbn. rewrite app_nil_r. auto.
  - rewrite step_section_other by exact Ety. intros H. injection H as <-. unfold with_las.
    cbn [p_las p_data p_las3data p_null]. rewrite !app_nil_r. split; [|auto].
    unfold other_las. destruct (second_upper (sp_title p)) as [n|]; [|reflexivity].
    destruct n as [|q]; [reflexivity|]. do 7 (destruct q as [q|q|]; try reflexivity).
  - unfold step_section. rewrite Ety. intros H. injection H as <-. cbn. rewrite app_nil_r. auto.
  - unfold step_section. rewrite Ety.
    destruct (version_of (p_version ps)) as [ver|]; [|discriminate].
    destruct (las_version_eqb ver V30 && las3_like (sp_title p)); [discriminate|].
    destruct (parse_section ver (sp_title p) (o_mcase o) (o_ignore_header_errors o) [ch_hash] (body_lines ls p))
      as [items|line] eqn:Ep; [|discriminate].
    destruct (second_upper (sp_title p)) as [letter|] eqn:El; [|discriminate].
    intros H. injection H as <-. unfold with_las. cbn [p_las p_data p_las3data p_null].
    rewrite update_steering_p_las, route_frame_data.
    destruct (update_steering_p_data letter (mksect items (match o_mcase o with CasePreserve => false | _ => true end)) ps)
      as (E1 & E2). rewrite E1, E2, !app_nil_r.
    split; [reflexivity|]. split; [reflexivity|]. split; [reflexivity|].
    unfold update_steering. destruct (letter =? 86); [left; reflexivity|].
    destruct (N.eqb_spec letter 87) as [->|_]; [|left; reflexivity]. cbn [p_null s_transforms s_items].
    destruct (sect_find _ (s2l "NULL") items) as [it|] eqn:Ef; [|left; reflexivity].
    right. exists (i_value it). split; [reflexivity|]. exists p, ver, items, it.
    repeat split; try assumption. left. reflexivity.
Qed.

Lemma null_source_mono o ls s1 s2 v : (forall p, In p s1 -> In p s2) -> null_source o ls s1 v -> null_source o ls s2 v.
Proof.
  intros Hsub (p & ver & items & it & Hin & H). exists p, ver, items, it. split; [apply Hsub; exact Hin|exact H].
Qed.

Lemma first_pass_facts o ls : forall sects ps ps', first_pass o ls ps sects = inl ps' ->
  l_data (p_las ps') = l_data (p_las ps) /\
  p_data ps' = p_data ps ++ filter is_tdata sects /\
  p_las3data ps' = p_las3data ps ++ filter is_tlas3 sects /\
  (p_null ps' = p_null ps \/ exists v, p_null ps' = Some v /\ null_source o ls sects v).
Proof.
  induction sects as [|p rest IH]; intros ps ps' H; cbn [first_pass] in H.
  - injection H as <-. cbn [filter]. rewrite !app_nil_r. auto.
  - destruct (step_section o ls ps p) as [ps1|e] eqn:Es; [|discriminate].
    destruct (step_section_facts o ls ps p ps1 Es) as (A1 & A2 & A3 & A4).
    destruct (IH ps1 ps' H) as (B1 & B2 & B3 & B4). cbn [filter].
    split; [congruence|]. split; [rewrite B2, A2, <- app_assoc; destruct (is_tdata p); reflexivity|].
    split; [rewrite B3, A3, <- app_assoc; destruct (is_tlas3 p); reflexivity|].
    destruct B4 as [B4|(v & Hv & Hs)].
    + rewrite B4. destruct A4 as [A4|(v & Hv & Hs)]; [left; exact A4|right].
      exists v. split; [exact Hv|]. eapply null_source_mono; [|exact Hs]. intros q [<-|[]]. left. reflexivity.
    + right. exists v. split; [exact Hv|]. eapply null_source_mono; [|exact Hs]. intros q Hq. right. exact Hq.
Qed.

(* ---- read ----------------------------------------------------------------------------------- *)
Definition ps_init : pstate :=
  mkps (VFloat (s2l "2.0")) (VStr (s2l "YES")) None (VStr (s2l "SPACE")) empty_las [] [].

(* the data sections read reads: the ~A sections, or, when there is none, the LAS 3 *_Data ones *)
Definition data_sections_of (text : list N) : list spos :=
  let sects := find_sections (lines_keep text) in
  match filter is_tdata sects with [] => filter is_tlas3 sects | x => x end.

(* read, split at the end of the first pass *)
Theorem read_ok_inv o text l : read fhex fstr numeq o text = ROk l ->
  exists ps d,
    first_pass o (lines_keep text) ps_init (find_sections (lines_keep text)) = inl ps /\
    dlm_of (p_dlm ps) = Some d /\ l_data (p_las ps) = [] /\
    (p_null ps = None \/ exists v, p_null ps = Some v /\ null_source o (lines_keep text) (find_sections (lines_keep text)) v) /\
    (o_ignore_data o = true -> l = p_las ps) /\
    (o_ignore_data o = false ->
     read_data_sections fhex fstr numeq o (lines_keep text) ps d (data_sections_of text) (p_las ps) = inl l).
Proof.
  unfold read. fold ps_init. destruct (find_sections (lines_keep text)) as [|p0 s0] eqn:Es; [discriminate|].
  rewrite <- Es. destruct (first_pass o (lines_keep text) ps_init (find_sections (lines_keep text))) as [ps|e] eqn:Ef; [|discriminate].
  destruct (dlm_of (p_dlm ps)) as [d|] eqn:Ed; [|discriminate].
  destruct (first_pass_facts o _ _ _ _ Ef) as (F1 & F2 & F3 & F4). cbn [ps_init p_data p_las3data p_null p_las app] in F1, F2, F3, F4.
  intros H. exists ps, d. split; [reflexivity|]. split; [exact Ed|]. split; [exact F1|]. split; [exact F4|].
  destruct (o_ignore_data o).
  - injection H as <-. split; [reflexivity|discriminate].
  - split; [discriminate|]. intros _. unfold data_sections_of. rewrite <- F2, <- F3.
    destruct (read_data_sections fhex fstr numeq o (lines_keep text) ps d _ (p_las ps)) as [l1|e]; [|discriminate].
    injection H as <-. reflexivity.
Qed.

(* D2: after ANY successful read the data array is rectangular; it is empty (every curve keeps
   its empty array) when no data section was read and has one column per curve otherwise; the
   array of curve j is column j (Corr/ReadShow.v shows nth j (l_data l) [] for curve j): all
   curves have one common length *)
Theorem read_rectangular o text l : read fhex fstr numeq o text = ROk l ->
  (exists n, rect n (l_data l)) /\
  (l_data l = [] \/ List.length (l_data l) = List.length (s_items (l_curves l))) /\
  (o_ignore_data o = false -> data_sections_of text <> [] ->
   List.length (l_data l) = List.length (s_items (l_curves l))) /\
  (exists n, forall j, (j < List.length (s_items (l_curves l)))%nat -> List.length (nth j (l_data l) []) = n).
Proof.
  intros H. destruct (read_ok_inv o text l H) as (ps & d & _ & _ & Hd0 & _ & Hig & Hrd).
  assert (X : (l_data l = [] /\ (o_ignore_data o = true \/ data_sections_of text = [])) \/ data_ok l).
  { destruct (o_ignore_data o) eqn:Eig.
    - left. rewrite (Hig eq_refl). auto.
    - specialize (Hrd eq_refl). destruct (data_sections_of text) as [|p ds] eqn:Eds.
      + cbn [read_data_sections] in Hrd. injection Hrd as <-. left. auto.
      + right. eapply read_data_sections_ok; [|exact Hrd]. discriminate. }
  destruct X as [(E & Hwhy)|((n & Hn) & Hlen)].
  - rewrite E. split; [exists 0%nat; constructor|]. split; [left; reflexivity|]. split.
    + intros Hig0 Hne. destruct Hwhy as [Hw|Hw]; congruence.
    + exists 0%nat. intros j _. destruct j; reflexivity.
  - split; [exists n; exact Hn|]. split; [right; exact Hlen|]. split; [intros _ _; exact Hlen|].
    exists n. intros j Hj. apply rect_nth; [exact Hn|]. rewrite Hlen. exact Hj.
Qed.

(* D1: the data array is the NULL rule applied to the engine output of the last data section,
   under Read.nulleq of the NULL value the first pass ended with *)
Theorem read_data_null o text l : read fhex fstr numeq o text = ROk l -> o_ignore_data o = false ->
  exists ps d,
    first_pass o (lines_keep text) ps_init (find_sections (lines_keep text)) = inl ps /\
    dlm_of (p_dlm ps) = Some d /\
    (p_null ps = None \/ exists v, p_null ps = Some v /\ null_source o (lines_keep text) (find_sections (lines_keep text)) v) /\
    (data_sections_of text = [] -> l_data l = []) /\
    (forall pre p, data_sections_of text = pre ++ [p] ->
     exists l0 cols r,
       read_data_sections fhex fstr numeq o (lines_keep text) ps d pre (p_las ps) = inl l0 /\
       engine_out o (p_wrapped ps) d (body_lines (lines_keep text) p) (List.length (s_items (l_curves l0))) (wrap_decl l0)
         = DOk cols /\
       rect r cols /\ (List.length cols <= List.length (s_items (l_curves l)))%nat /\
       l_data l = data_for_curves (List.length (s_items (l_curves l)))
                    (null_columns (nulleq numeq (p_null ps)) (o_null_strict o) 0%nat cols)).
Proof.
  intros H Hig. destruct (read_ok_inv o text l H) as (ps & d & Hf & Hd & Hd0 & Hn & _ & Hrd). specialize (Hrd Hig).
  exists ps, d. split; [exact Hf|]. split; [exact Hd|]. split; [exact Hn|]. split.
  - intros E. rewrite E in Hrd. cbn [read_data_sections] in Hrd. injection Hrd as <-. exact Hd0.
  - intros pre p E. rewrite E in Hrd.
    destruct (read_data_sections_snoc o _ ps d pre p _ l Hrd) as (l0 & H0 & H1).
    destruct (read_one_data_shape o _ ps d p l0 l H1) as (cols & He & Hres).
    destruct (engine_out_rect _ _ _ _ _ _ _ He) as (r & Hr).
    exists l0, cols, r. split; [exact H0|]. split; [exact He|]. split; [exact Hr|].
    destruct Hres as (Hc & Hdat & _). split; [|exact Hdat].
    rewrite Hc. cbn [s_items]. rewrite bind_columns_length, null_columns_len. lia.
Qed.

(* D1, cell by cell: for the engine output cols of the section that produced the data *)
Theorem null_data_cell (pn : option hval) strict n cols j colj i c :
  (List.length cols <= n)%nat ->
  nth_error cols j = Some colj -> nth_error colj i = Some c ->
  exists c',
    nth_error (nth j (data_for_curves n (null_columns (nulleq numeq pn) strict 0%nat cols)) []) i = Some c' /\
    (c' = CNaN <->
       c = CNaN \/
       (j <> 0%nat /\ strict = true /\ is_float_col colj = true /\ exists t, c = CNum t /\ nulleq numeq pn t = true)) /\
    (c' <> CNaN -> c' = c).
Proof.
  intros Hn Hj Hi.
  assert (Hjl : (j < List.length cols)%nat) by (apply nth_error_Some; congruence).
  rewrite data_for_curves_own by (rewrite null_columns_len; exact Hjl).
  rewrite null_columns_nth by exact Hjl. cbn [Nat.add].
  rewrite (nth_error_nth cols j [] Hj).
  destruct (Nat.eq_dec j 0) as [->|Hj0].
  { rewrite null_column_index. exists c. split; [exact Hi|]. split; [|auto].
    split; [auto|]. intros [E|(F & _)]; [exact E|congruence]. }
  destruct strict.
  2:{ rewrite null_column_none. exists c. split; [exact Hi|]. split; [|auto].
      split; [auto|]. intros [E|(_ & F & _)]; [exact E|discriminate]. }
  destruct (is_float_col colj) eqn:Efl.
  2:{ rewrite null_column_text by exact Efl. exists c. split; [exact Hi|]. split; [|auto].
      split; [auto|]. intros [E|(_ & _ & F & _)]; [exact E|discriminate]. }
  destruct (null_column_cellwise (nulleq numeq pn) j colj Efl Hj0 i c Hi) as (c' & H1 & H2 & H3).
  exists c'. split; [exact H1|]. split; [|exact H3]. rewrite H2. split.
  - intros [E|(t & Et & Hq)]; [left; exact E|right]. repeat split; try assumption; try reflexivity. exists t. auto.
  - intros [E|(_ & _ & _ & t & Et & Hq)]; [left; exact E|right; exists t; auto].
Qed.

(* D1 at the level of read: cell (i, j) of what read returns, against cell (i, j) of what the
   engine returned for the data section that produced the array *)
Theorem read_cell_nan_iff o text l : read fhex fstr numeq o text = ROk l -> o_ignore_data o = false ->
  forall pre p, data_sections_of text = pre ++ [p] ->
  exists ps d l0 cols,
    first_pass o (lines_keep text) ps_init (find_sections (lines_keep text)) = inl ps /\
    dlm_of (p_dlm ps) = Some d /\
    read_data_sections fhex fstr numeq o (lines_keep text) ps d pre (p_las ps) = inl l0 /\
    engine_out o (p_wrapped ps) d (body_lines (lines_keep text) p) (List.length (s_items (l_curves l0))) (wrap_decl l0)
      = DOk cols /\
    forall j colj i c, nth_error cols j = Some colj -> nth_error colj i = Some c ->
    exists c',
      nth_error (nth j (l_data l) []) i = Some c' /\
      (c' = CNaN <->
         c = CNaN \/
         (j <> 0%nat /\ o_null_strict o = true /\ is_float_col colj = true /\
          exists t, c = CNum t /\ nulleq numeq (p_null ps) t = true)) /\
      (c' <> CNaN -> c' = c).
Proof.
  intros H Hig pre p E. destruct (read_data_null o text l H Hig) as (ps & d & Hf & Hd & _ & _ & Hlast).
  destruct (Hlast pre p E) as (l0 & cols & r & H0 & He & _ & Hle & Hdat).
  exists ps, d, l0, cols. split; [exact Hf|]. split; [exact Hd|]. split; [exact H0|]. split; [exact He|].
  intros j colj i c Hj Hi. rewrite Hdat. apply null_data_cell; assumption.
Qed.

(* with a NULL that is no number (no NULL item, NULL. N/A, ...) the array is the engine output,
   NaN-padded to the number of curves: no sample is changed *)
Theorem read_null_not_numeric o text l : read fhex fstr numeq o text = ROk l -> o_ignore_data o = false ->
  forall pre p, data_sections_of text = pre ++ [p] ->
  exists ps d l0 cols,
    first_pass o (lines_keep text) ps_init (find_sections (lines_keep text)) = inl ps /\
    dlm_of (p_dlm ps) = Some d /\
    read_data_sections fhex fstr numeq o (lines_keep text) ps d pre (p_las ps) = inl l0 /\
    engine_out o (p_wrapped ps) d (body_lines (lines_keep text) p) (List.length (s_items (l_curves l0))) (wrap_decl l0)
      = DOk cols /\
    (null_not_numeric (p_null ps) -> l_data l = data_for_curves (List.length (s_items (l_curves l))) cols).
Proof.
  intros H Hig pre p E. destruct (read_data_null o text l H Hig) as (ps & d & Hf & Hd & _ & _ & Hlast).
  destruct (Hlast pre p E) as (l0 & cols & r & H0 & He & _ & Hle & Hdat).
  exists ps, d, l0, cols. split; [exact Hf|]. split; [exact Hd|]. split; [exact H0|]. split; [exact He|].
  intros Hn. rewrite Hdat. rewrite null_columns_never; [reflexivity|]. apply nulleq_not_numeric. exact Hn.
Qed.

End WithOracles.
