(* Proofs.IntTextProofs — str(int) read back by SectionParser.num is that int:
   num (z_to_str z) = VInt z for every 64-bit z.  (The "numbers compared numerically" clause of
   C03 for integer header values, without oracle.)  N_to_str is the fuel-driven digit loop of
   PyLib/PyStr.v; the fuel S (log2 n) suffices because n / 10 < n / 2. *)
From Coq Require Import List Arith NArith ZArith Bool Lia ZifyBool ZifyN ZifyNat.
Import ListNotations.
Require Import PyStr Regex NumLit Regexes Num NumSpec NumProofs DataRead Read.
Open Scope N_scope.

Lemma digits_val_app : forall x y a, digits_val (x ++ y) a = digits_val y (digits_val x a).
Proof.
  induction x as [|c x IH]; intros y a; cbn [app digits_val]; [reflexivity|].
  destruct (is_digit c); apply IH.
Qed.

Lemma all_digits_snoc x d : all_digits (x ++ [d]) = all_digits x && is_digit d.
Proof. rewrite all_digits_app. cbn [all_digits]. rewrite andb_true_r. reflexivity. Qed.

Lemma digit_char n : is_digit (48 + n mod 10) = true /\ Z.of_N (48 + n mod 10 - 48) = Z.of_N (n mod 10).
Proof.
  pose proof (N.mod_lt n 10 ltac:(discriminate)) as H. unfold is_digit. split; [lia|].
  f_equal. lia.
Qed.

(* the digit loop: with enough fuel it prepends to acc the decimal digits of n *)
Lemma digits_fuel_spec : forall fuel n acc, n < 2 ^ N.of_nat fuel -> fuel <> O ->
  exists ds, digits_fuel fuel n acc = ds ++ acc /\ ds <> [] /\ all_digits ds = true /\
             forall a, digits_val ds a = (a * 10 ^ Z.of_nat (List.length ds) + Z.of_N n)%Z.
Proof.
  induction fuel as [|f IH]; intros n acc Hn Hf; [congruence|].
  cbn [digits_fuel]. destruct (digit_char n) as [Hd Hv].
    pose proof (N.div_mod n 10 ltac:(discriminate)) as Hdm.
    pose proof (N.mod_lt n 10 ltac:(discriminate)) as Hml.
    destruct (n / 10 =? 0) eqn:E.
  - exists [48 + n mod 10]. split; [reflexivity|]. split; [discriminate|].
      split; [cbn [all_digits]; rewrite Hd; reflexivity|].
      intros a. cbn [digits_val List.length]. rewrite Hd, Hv.
      apply N.eqb_eq in E. rewrite E in Hdm. change (Z.of_nat 1) with 1%Z. lia.
  - assert (Hq : n / 10 < 2 ^ N.of_nat f).
      { apply N.div_lt_upper_bound; [discriminate|].
        rewrite Nat2N.inj_succ, N.pow_succ_r' in Hn. lia. }
      assert (Hf' : f <> O).
      { intros ->. cbn in Hq. apply N.eqb_neq in E. lia. }
      destruct (IH (n / 10) ((48 + n mod 10) :: acc) Hq Hf') as (ds & Eds & Hne & Hall & Hval).
      exists (ds ++ [48 + n mod 10]). split; [rewrite Eds, <- app_assoc; reflexivity|].
      split; [destruct ds; discriminate|].
      split; [rewrite all_digits_snoc, Hall, Hd; reflexivity|].
      intros a. rewrite digits_val_app, Hval. cbn [digits_val]. rewrite Hd, Hv.
      rewrite app_length. cbn [List.length]. rewrite Nat.add_1_r, Nat2Z.inj_succ, Z.pow_succ_r by lia.
      set (P := (10 ^ Z.of_nat (List.length ds))%Z).
      assert (Hz : Z.of_N n = (10 * Z.of_N (n / 10) + Z.of_N (n mod 10))%Z) by lia.
      rewrite Hz. ring.
Qed.

Lemma N_to_str_spec n : 0 < n ->
  digits1 (N_to_str n) = true /\ digits_val (N_to_str n) 0 = Z.of_N n.
Proof.
  intros Hpos. unfold N_to_str.
  assert (Hn : n < 2 ^ N.of_nat (S (N.to_nat (N.log2 n)))).
  { rewrite Nat2N.inj_succ, N2Nat.id. apply N.log2_spec. exact Hpos. }
  destruct (digits_fuel_spec _ n [] Hn ltac:(discriminate)) as (ds & E & Hne & Hall & Hval).
  rewrite E, app_nil_r. split.
  - destruct ds; [congruence|]. exact Hall.
  - rewrite Hval. lia.
Qed.

Lemma all_digits_no_comma s : all_digits s = true -> in_str 44 s = false.
Proof.
  induction s as [|c s IH]; [reflexivity|]. cbn [all_digits]. intros H.
  apply andb_true_iff in H as [Hc Hs]. cbn [in_str existsb]. fold (in_str 44 s).
  rewrite (IH Hs), orb_false_r. unfold is_digit in Hc. lia.
Qed.

Lemma comma_to_dot_no_comma : forall s, in_str 44 s = false -> comma_to_dot s = s.
Proof.
  induction s as [|a s IH]; intros H; [reflexivity|].
  cbn [in_str existsb] in H. fold (in_str 44 s) in H. apply orb_false_iff in H as [_ Hs].
  destruct s as [|b [|c s'']]; [reflexivity|reflexivity|].
  cbn [comma_to_dot].
  assert (Hb : (b =? 44) = false).
  { cbn [in_str existsb] in Hs. apply orb_false_iff in Hs as [Hb _]. rewrite N.eqb_sym. exact Hb. }
  rewrite Hb, andb_false_r. cbn [andb]. f_equal. apply IH. exact Hs.
Qed.

Lemma z_to_str_integer z : plain_integer (comma_to_dot (z_to_str z)) z.
Proof.
  destruct z as [|p|p]; unfold z_to_str.
  - exists [], [48]. repeat split. left; reflexivity.
  - destruct (N_to_str_spec (Npos p) ltac:(lia)) as [Hd Hv].
    assert (Hall : all_digits (N_to_str (N.pos p)) = true)
      by (unfold digits1 in Hd; destruct (N_to_str (N.pos p)); [discriminate|exact Hd]).
    rewrite comma_to_dot_no_comma by (apply all_digits_no_comma; exact Hall).
    exists [], (N_to_str (Npos p)). split; [reflexivity|]. split; [left; reflexivity|].
    split; [exact Hd|]. cbn [is_neg]. rewrite Hv. reflexivity.
  - destruct (N_to_str_spec (Npos p) ltac:(lia)) as [Hd Hv].
    assert (Hall : all_digits (N_to_str (N.pos p)) = true)
      by (unfold digits1 in Hd; destruct (N_to_str (N.pos p)); [discriminate|exact Hd]).
    rewrite comma_to_dot_no_comma.
    + exists [45], (N_to_str (Npos p)). split; [reflexivity|]. split; [right; right; reflexivity|].
      split; [exact Hd|]. cbn [is_neg]. rewrite Hv. reflexivity.
    + cbn [in_str existsb]. fold (in_str 44 (N_to_str (N.pos p))).
      rewrite (all_digits_no_comma _ Hall). reflexivity.
Qed.

(* str(z) reads back as z *)
Theorem num_z_to_str z : in_int64 z = true -> num (z_to_str z) = VInt z.
Proof. intros H. apply num_int; [apply z_to_str_integer|exact H]. Qed.
