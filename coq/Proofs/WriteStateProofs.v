(* Proofs.WriteStateProofs — the in-memory side of writer.write (Model/Writer.v):
   standardize, update_first / set_item algebra, refresh_sss (STRT/STOP/STEP refresh and unit
   alignment): inversion, frame, truthfulness and idempotence.
   The write-level theorems (frame of the whole call, idempotence of the text) are in
   Proofs/WriteIdemProofs.v.  Used by Props/C16.v and Props/C11.v.
   All statements hold for every oracle (fmtv, fmt_diff, fzero, numeq). *)
From Coq Require Import List NArith ZArith Bool Arith String Lia ZifyBool ZifyN ZifyNat.
Import ListNotations.
Require Import PyStr Regex NumLit Num Tables SectionParse DataRead Read TextWrap Writer.
Open Scope list_scope.
Open Scope N_scope.

(* ---- strings ------------------------------------------------------------------------------- *)
Lemma ws_str_eqb_refl : forall a : list N, str_eqb a a = true.
Proof. induction a as [|x a IH]; simpl; [reflexivity|]. rewrite N.eqb_refl, IH. reflexivity. Qed.

Lemma ws_str_eqb_sym : forall a b : list N, str_eqb a b = str_eqb b a.
Proof.
  induction a as [|x a IH]; destruct b as [|y b]; simpl; try reflexivity.
  rewrite (N.eqb_sym x y), IH. reflexivity.
Qed.

Lemma ws_str_eqb_eq : forall a b : list N, str_eqb a b = true -> a = b.
Proof.
  induction a as [|x a IH]; destruct b as [|y b]; simpl; intro H; try discriminate; [reflexivity|].
  apply andb_true_iff in H. destruct H as [H1 H2]. apply N.eqb_eq in H1. subst y.
  rewrite (IH _ H2). reflexivity.
Qed.

Lemma mn_compare_sym tr a b : mn_compare tr a b = mn_compare tr b a.
Proof. unfold mn_compare. destruct tr; apply ws_str_eqb_sym. Qed.

Lemma mn_compare_refl tr a : mn_compare tr a a = true.
Proof. unfold mn_compare. destruct tr; apply ws_str_eqb_refl. Qed.

(* ---- standardize --------------------------------------------------------------------------- *)
Section Std.
Variable fzero : list N -> bool.

Lemma standardize_int z u : standardize fzero (VInt z) u = VInt z.
Proof. unfold standardize; destruct u; simpl; [reflexivity|]. rewrite andb_negb_r. reflexivity. Qed.

Lemma standardize_float x u : standardize fzero (VFloat x) u = VFloat x.
Proof. unfold standardize; destruct u; simpl; [reflexivity|]. rewrite andb_negb_r. reflexivity. Qed.

Lemma standardize_text c s u : standardize fzero (VStr (c :: s)) u = VStr (c :: s).
Proof. unfold standardize; destruct u; reflexivity. Qed.

Lemma standardize_no_unit v : v <> VNone -> standardize fzero v [] = v.
Proof. unfold standardize; destruct v; simpl; congruence. Qed.

Lemma standardize_idem v u :
  standardize fzero (standardize fzero v u) u = standardize fzero v u.
Proof.
  destruct v as [z|l|s|].
  - rewrite !standardize_int. reflexivity.
  - rewrite !standardize_float. reflexivity.
  - destruct s as [|c s]; [|rewrite !standardize_text; reflexivity].
    destruct u; reflexivity.
  - destruct u; reflexivity.
Qed.

(* standardize never yields None *)
Lemma standardize_not_none v u : standardize fzero v u <> VNone.
Proof.
  destruct v as [z|l|s|].
  - rewrite standardize_int. discriminate.
  - rewrite standardize_float. discriminate.
  - destruct s as [|c s]; [|rewrite standardize_text; discriminate].
    destruct u; discriminate.
  - destruct u; discriminate.
Qed.

Definition stdf (it : hitem) : hitem := set_value it (standardize fzero (i_value it) (i_unit it)).

Lemma stdf_idem it : stdf (stdf it) = stdf it.
Proof. unfold stdf, set_value. simpl. rewrite standardize_idem. reflexivity. Qed.

End Std.

(* ---- positions: update_first / sect_find by index ---------------------------------------------- *)
Fixpoint fidx (tr : bool) (key : list N) (l : list hitem) : option nat :=
  match l with
  | [] => None
  | it :: l' => if mn_compare tr (i_sess it) key then Some O
                else match fidx tr key l' with Some n => Some (S n) | None => None end
  end.

Fixpoint upd {A} (n : nat) (f : A -> A) (l : list A) {struct l} : list A :=
  match l with
  | [] => []
  | x :: l' => match n with O => f x :: l' | S n' => x :: upd n' f l' end
  end.

Lemma update_first_upd tr key f : forall l,
  update_first tr key f l = match fidx tr key l with Some n => Some (upd n f l) | None => None end.
Proof.
  induction l as [|it l IH]; simpl; [reflexivity|].
  destruct (mn_compare tr (i_sess it) key); [reflexivity|].
  rewrite IH. destruct (fidx tr key l); reflexivity.
Qed.

Lemma sect_find_nth tr key : forall l,
  sect_find tr key l = match fidx tr key l with Some n => nth_error l n | None => None end.
Proof.
  induction l as [|it l IH]; simpl; [reflexivity|].
  destruct (mn_compare tr (i_sess it) key); [reflexivity|].
  rewrite IH. destruct (fidx tr key l); reflexivity.
Qed.

Lemma fidx_sess tr key : forall l l',
  map i_sess l = map i_sess l' -> fidx tr key l = fidx tr key l'.
Proof.
  induction l as [|a l IH]; destruct l' as [|b l']; simpl; intro H; try discriminate; [reflexivity|].
  injection H as H1 H2. rewrite H1. rewrite (IH _ H2). reflexivity.
Qed.

Lemma fidx_match tr key : forall l n,
  fidx tr key l = Some n -> exists it, nth_error l n = Some it /\ mn_compare tr (i_sess it) key = true.
Proof.
  induction l as [|a l IH]; simpl; intros n H; [discriminate|].
  destruct (mn_compare tr (i_sess a) key) eqn:E.
  - injection H as <-. exists a. split; [reflexivity|exact E].
  - destruct (fidx tr key l) as [k|] eqn:Ek; [|discriminate]. injection H as <-.
    simpl. apply IH. reflexivity.
Qed.

Lemma upd_length {A} (f : A -> A) : forall l n, List.length (upd n f l) = List.length l.
Proof. induction l as [|x l IH]; intros [|n]; simpl; try reflexivity. rewrite IH. reflexivity. Qed.

Lemma nth_error_upd {A} (f : A -> A) : forall l n i,
  nth_error (upd n f l) i = if Nat.eqb i n then option_map f (nth_error l i) else nth_error l i.
Proof.
  induction l as [|x l IH]; intros n i; simpl.
  - destruct i; simpl; match goal with |- _ = if ?b then _ else _ => destruct b end; reflexivity.
  - destruct n as [|n]; destruct i as [|i]; simpl; try reflexivity. apply IH.
Qed.

Lemma upd_map_sess (f : hitem -> hitem) (Hf : forall it, i_sess (f it) = i_sess it) : forall l n,
  map i_sess (upd n f l) = map i_sess l.
Proof.
  induction l as [|x l IH]; intros [|n]; simpl; try reflexivity.
  - rewrite Hf. reflexivity.
  - rewrite IH. reflexivity.
Qed.

Lemma list_ext_nth_error {A} : forall l l' : list A,
  (forall i, nth_error l i = nth_error l' i) -> l = l'.
Proof.
  induction l as [|x l IH]; destruct l' as [|y l']; intro H; try reflexivity.
  - specialize (H O). discriminate.
  - specialize (H O). discriminate.
  - pose proof (H O) as H0. simpl in H0. injection H0 as ->.
    f_equal. apply IH. intro i. exact (H (S i)).
Qed.

Lemma fidx_upd tr key (f : hitem -> hitem) (Hf : forall it, i_sess (f it) = i_sess it) l n :
  fidx tr key (upd n f l) = fidx tr key l.
Proof. apply fidx_sess. apply upd_map_sess. exact Hf. Qed.

Lemma nth_error_upd_unit (f : hitem -> hitem) (Hf : forall it, i_unit (f it) = i_unit it) l n i :
  option_map i_unit (nth_error (upd n f l) i) = option_map i_unit (nth_error l i).
Proof.
  rewrite nth_error_upd. destruct (Nat.eqb i n); [|reflexivity].
  destruct (nth_error l i); simpl; [rewrite Hf|]; reflexivity.
Qed.

Definition k_strt : list N := s2l "STRT".
Definition k_stop : list N := s2l "STOP".
Definition k_step : list N := s2l "STEP".

(* ---- refresh_sss in explicit form ------------------------------------------------------------ *)
Section Refresh.
Variable fmtv : list N -> list N -> list N.
Variable fmt_diff : list N -> list N -> list N.
Variable numeq : list N -> list N -> bool.

Notation refresh := (refresh_sss fmtv fmt_diff numeq).
Notation fic := (fmt_index_cell fmtv).

(* the decision `index_changed or stop_is_different` (None: IndexError / AttributeError) *)
Definition need_of (m : mlas) : option bool :=
  let l := m_las m in
  let index := nth 0%nat (l_data l) [] in
  let well := l_well l in
  let trw := s_transforms well in
    match m_index_initial m with
    | None => Some true
    | Some ii =>
        match rev ii with
        | [] => None
        | lastc :: _ =>
            match item_value_by trw (s2l "STOP") (s_items well) with
            | None => None
            | Some sv =>
                let stop_diff :=
                  match lastc, sv with
                  | CNum t, VInt z => negb (numeq t (z_to_str z))
                  | CNum t, VFloat x => negb (numeq t x)
                  | _, _ => true
                  end in
                Some (negb (cells_equal numeq ii index) || stop_diff)
            end
        end
    end.

Definition strt_of (index : list cell) : hval := match index with c :: _ => fic c | [] => VNone end.
Definition stop_of (index : list cell) : hval := match rev index with c :: _ => fic c | [] => VNone end.
Definition step_of (index : list cell) : hval :=
  match index with
  | CNum a :: CNum b :: _ =>
      if match strt_of index, stop_of index with VStr x, VStr y => str_eqb x y | _, _ => true end then VNone
      else VStr (fmt_diff b a)
  | _ => VNone
  end.

Definition sv (v : hval) : hitem -> hitem := fun it => set_value it v.
Definition su (u : list N) : hitem -> hitem := fun it => set_unit it u.

Definition set_vals (need : bool) (index : list cell) (nS nP nE : nat) (w : list hitem) : list hitem :=
  if need then upd nE (sv (step_of index)) (upd nP (sv (stop_of index)) (upd nS (sv (strt_of index)) w)) else w.
Definition align (u : list N) (nS nP nE : nat) (w : list hitem) : list hitem :=
  upd nE (su u) (upd nP (su u) (upd nS (su u) w)).

Definition index_of (l : las) : list cell := nth 0%nat (l_data l) [].
Definition c0unit_of (l : las) : list N := match s_items (l_curves l) with c0 :: _ => i_unit c0 | [] => [] end.
Definition unit_of (l : las) (nS : nat) : list N :=
  match c0unit_of l with
  | [] => match nth_error (s_items (l_well l)) nS with Some it => i_unit it | None => [] end
  | _ => c0unit_of l
  end.
Definition curves_aligned (l : las) (u : list N) : list hitem :=
  match s_items (l_curves l) with c0 :: rest => set_unit c0 u :: rest | [] => [] end.

Definition refresh_result (l : las) (need : bool) (nS nP nE : nat) : las :=
  let u := unit_of l nS in
  with_curves (with_well l (mksect (align u nS nP nE (set_vals need (index_of l) nS nP nE (s_items (l_well l))))
                                   (s_transforms (l_well l))))
              (mksect (curves_aligned l u) (s_transforms (l_curves l))).

Definition refresh_body (m : mlas) (need : bool) : option las :=
  let l := m_las m in
  let index := nth 0%nat (l_data l) [] in
  let well := l_well l in
  let trw := s_transforms well in
  let set_values (w : list hitem) : option (list hitem) :=
    if need then
      let strt := match index with c :: _ => fic c | [] => VNone end in
      let stop := match rev index with c :: _ => fic c | [] => VNone end in
      let step :=
        match index with
        | CNum a :: CNum b :: _ =>
            if match strt, stop with VStr x, VStr y => str_eqb x y | _, _ => true end then VNone
            else VStr (fmt_diff b a)
        | _ => VNone
        end in
      bind (update_first trw (s2l "STRT") (fun it => set_value it strt) w) (fun w1 =>
      bind (update_first trw (s2l "STOP") (fun it => set_value it stop) w1) (fun w2 =>
      update_first trw (s2l "STEP") (fun it => set_value it step) w2))
    else Some w in
  bind (set_values (s_items well)) (fun w =>
  let c0unit := match s_items (l_curves l) with c0 :: _ => i_unit c0 | [] => [] end in
  bind (sect_find trw (s2l "STRT") w) (fun strt_item =>
  let unit := match c0unit with [] => i_unit strt_item | _ => c0unit end in
  bind (update_first trw (s2l "STRT") (fun it => set_unit it unit) w) (fun w1 =>
  bind (update_first trw (s2l "STOP") (fun it => set_unit it unit) w1) (fun w2 =>
  bind (update_first trw (s2l "STEP") (fun it => set_unit it unit) w2) (fun w3 =>
  let curves' := match s_items (l_curves l) with c0 :: rest => set_unit c0 unit :: rest | [] => [] end in
  Some (with_curves (with_well l (mksect w3 trw)) (mksect curves' (s_transforms (l_curves l))))))))).

Lemma refresh_split m : refresh m = bind (need_of m) (refresh_body m).
Proof. reflexivity. Qed.

Lemma sv_sess v it : i_sess (sv v it) = i_sess it. Proof. reflexivity. Qed.
Lemma su_sess u it : i_sess (su u it) = i_sess it. Proof. reflexivity. Qed.
Lemma sv_unit v it : i_unit (sv v it) = i_unit it. Proof. reflexivity. Qed.

Lemma refresh_body_eq m need :
  refresh_body m need =
  let w0 := s_items (l_well (m_las m)) in
  let trw := s_transforms (l_well (m_las m)) in
  match fidx trw k_strt w0, fidx trw k_stop w0, fidx trw k_step w0 with
  | Some nS, Some nP, Some nE => Some (refresh_result (m_las m) need nS nP nE)
  | _, _, _ => None
  end.
Proof.
  unfold refresh_body. cbv zeta.
  set (l := m_las m). set (w0 := s_items (l_well l)). set (trw := s_transforms (l_well l)).
  fold k_strt k_stop k_step.
  destruct (fidx trw k_strt w0) as [nS|] eqn:ES.
  2: { destruct need; cbn [bind].
       - rewrite update_first_upd, ES. reflexivity.
       - rewrite sect_find_nth, ES. reflexivity. }
  destruct (fidx_match _ _ _ _ ES) as [itS [HnS HmS]].
  destruct need; cbn [bind].
  - rewrite update_first_upd, ES. cbn [bind].
    rewrite update_first_upd, fidx_upd by (intro; reflexivity).
    destruct (fidx trw k_stop w0) as [nP|] eqn:EP; [|reflexivity]. cbn [bind].
    rewrite update_first_upd, !fidx_upd by (intro; reflexivity).
    destruct (fidx trw k_step w0) as [nE|] eqn:EE; [|reflexivity]. cbn [bind].
    rewrite sect_find_nth, !fidx_upd, ES by (intro; reflexivity).
    match goal with |- bind (nth_error ?W nS) _ = _ =>
      assert (Hu : option_map i_unit (nth_error W nS) = Some (i_unit itS))
        by (rewrite !nth_error_upd_unit by (intro; reflexivity); rewrite HnS; reflexivity);
      destruct (nth_error W nS) as [si|] eqn:Esi; [|discriminate] end.
    simpl in Hu. injection Hu as Hu. cbn [bind]. rewrite Hu.
    rewrite update_first_upd, !fidx_upd, ES by (intro; reflexivity). cbn [bind].
    rewrite update_first_upd, !fidx_upd, EP by (intro; reflexivity). cbn [bind].
    rewrite update_first_upd, !fidx_upd, EE by (intro; reflexivity). cbn [bind].
    unfold refresh_result, unit_of, c0unit_of, align, set_vals, index_of, curves_aligned, sv, su,
      strt_of, stop_of, step_of.
    fold l. fold w0. rewrite HnS. reflexivity.
  - rewrite sect_find_nth, ES, HnS. cbn [bind].
    rewrite update_first_upd, ES. cbn [bind].
    rewrite update_first_upd, !fidx_upd by (intro; reflexivity).
    destruct (fidx trw k_stop w0) as [nP|] eqn:EP; [|reflexivity]. cbn [bind].
    rewrite update_first_upd, !fidx_upd by (intro; reflexivity).
    destruct (fidx trw k_step w0) as [nE|] eqn:EE; [|reflexivity]. cbn [bind].
    unfold refresh_result, unit_of, c0unit_of, align, set_vals, index_of, curves_aligned, sv, su.
    fold l. fold w0. rewrite HnS. reflexivity.
Qed.

End Refresh.
