(* Proofs.WriteStateProofs — the in-memory side of writer.write (Model/Writer.v):
   standardize, update_first / set_item algebra, refresh_sss (STRT/STOP/STEP refresh and unit
   alignment): inversion, frame, truthfulness and idempotence.
   The write-level theorems (frame of the whole call, idempotence of the text) are in
   Proofs/WriteIdemProofs.v.  Used by Props/C16.v and Props/C11.v.
   All statements hold for every oracle (fmtv, fmt_diff, fzero, numeq). *)
From Coq Require Import List NArith ZArith Bool Arith String Lia ZifyBool ZifyN ZifyNat.
Import ListNotations.
Require Import PyStr Regex NumLit Num Tables SectionParse DataRead Read TextWrap Writer.
Open Scope list_scope.
Open Scope N_scope.

(* ---- strings ------------------------------------------------------------------------------- *)
Lemma ws_str_eqb_refl : forall a : list N, str_eqb a a = true.
Proof. induction a as [|x a IH]; simpl; [reflexivity|]. rewrite N.eqb_refl, IH. reflexivity. Qed.

Lemma ws_str_eqb_sym : forall a b : list N, str_eqb a b = str_eqb b a.
Proof.
  induction a as [|x a IH]; destruct b as [|y b]; simpl; try reflexivity.
  rewrite (N.eqb_sym x y), IH. reflexivity.
Qed.

Lemma ws_str_eqb_eq : forall a b : list N, str_eqb a b = true -> a = b.
Proof.
  induction a as [|x a IH]; destruct b as [|y b]; simpl; intro H; try discriminate; [reflexivity|].
  apply andb_true_iff in H. destruct H as [H1 H2]. apply N.eqb_eq in H1. subst y.
  rewrite (IH _ H2). reflexivity.
Qed.

Lemma mn_compare_sym tr a b : mn_compare tr a b = mn_compare tr b a.
Proof. unfold mn_compare. destruct tr; apply ws_str_eqb_sym. Qed.

Lemma mn_compare_refl tr a : mn_compare tr a a = true.
Proof. unfold mn_compare. destruct tr; apply ws_str_eqb_refl. Qed.

(* ---- standardize --------------------------------------------------------------------------- *)
Section Std.
Variable fzero : list N -> bool.

Lemma standardize_int z u : standardize fzero (VInt z) u = VInt z.
Proof. unfold standardize; destruct u; simpl; [reflexivity|]. rewrite andb_negb_r. reflexivity. Qed.

Lemma standardize_float x u : standardize fzero (VFloat x) u = VFloat x.
Proof. unfold standardize; destruct u; simpl; [reflexivity|]. rewrite andb_negb_r. reflexivity. Qed.

Lemma standardize_text c s u : standardize fzero (VStr (c :: s)) u = VStr (c :: s).
Proof. unfold standardize; destruct u; reflexivity. Qed.

Lemma standardize_no_unit v : v <> VNone -> standardize fzero v [] = v.
Proof. unfold standardize; destruct v; simpl; congruence. Qed.

Lemma standardize_idem v u :
  standardize fzero (standardize fzero v u) u = standardize fzero v u.
Proof.
  destruct v as [z|l|s|].
  - rewrite !standardize_int. reflexivity.
  - rewrite !standardize_float. reflexivity.
  - destruct s as [|c s]; [|rewrite !standardize_text; reflexivity].
    destruct u; reflexivity.
  - destruct u; reflexivity.
Qed.

(* standardize never yields None *)
Lemma standardize_not_none v u : standardize fzero v u <> VNone.
Proof.
  destruct v as [z|l|s|].
  - rewrite standardize_int. discriminate.
  - rewrite standardize_float. discriminate.
  - destruct s as [|c s]; [|rewrite standardize_text; discriminate].
    destruct u; discriminate.
  - destruct u; discriminate.
Qed.

Definition stdf (it : hitem) : hitem := set_value it (standardize fzero (i_value it) (i_unit it)).

Lemma stdf_idem it : stdf (stdf it) = stdf it.
Proof. unfold stdf, set_value. simpl. rewrite standardize_idem. reflexivity. Qed.

End Std.

(* ---- positions: update_first / sect_find by index ---------------------------------------------- *)
Fixpoint fidx (tr : bool) (key : list N) (l : list hitem) : option nat :=
  match l with
  | [] => None
  | it :: l' => if mn_compare tr (i_sess it) key then Some O
                else match fidx tr key l' with Some n => Some (S n) | None => None end
  end.

Fixpoint upd {A} (n : nat) (f : A -> A) (l : list A) {struct l} : list A :=
  match l with
  | [] => []
  | x :: l' => match n with O => f x :: l' | S n' => x :: upd n' f l' end
  end.

Lemma update_first_upd tr key f : forall l,
  update_first tr key f l = match fidx tr key l with Some n => Some (upd n f l) | None => None end.
Proof.
  induction l as [|it l IH]; simpl; [reflexivity|].
  destruct (mn_compare tr (i_sess it) key); [reflexivity|].
  rewrite IH. destruct (fidx tr key l); reflexivity.
Qed.

Lemma sect_find_nth tr key : forall l,
  sect_find tr key l = match fidx tr key l with Some n => nth_error l n | None => None end.
Proof.
  induction l as [|it l IH]; simpl; [reflexivity|].
  destruct (mn_compare tr (i_sess it) key); [reflexivity|].
  rewrite IH. destruct (fidx tr key l); reflexivity.
Qed.

Lemma fidx_sess tr key : forall l l',
  map i_sess l = map i_sess l' -> fidx tr key l = fidx tr key l'.
Proof.
  induction l as [|a l IH]; destruct l' as [|b l']; simpl; intro H; try discriminate; [reflexivity|].
  injection H as H1 H2. rewrite H1. rewrite (IH _ H2). reflexivity.
Qed.

Lemma fidx_match tr key : forall l n,
  fidx tr key l = Some n -> exists it, nth_error l n = Some it /\ mn_compare tr (i_sess it) key = true.
Proof.
  induction l as [|a l IH]; simpl; intros n H; [discriminate|].
  destruct (mn_compare tr (i_sess a) key) eqn:E.
  - injection H as <-. exists a. split; [reflexivity|exact E].
  - destruct (fidx tr key l) as [k|] eqn:Ek; [|discriminate]. injection H as <-.
    simpl. apply IH. reflexivity.
Qed.

Lemma upd_length {A} (f : A -> A) : forall l n, List.length (upd n f l) = List.length l.
Proof. induction l as [|x l IH]; intros [|n]; simpl; try reflexivity. rewrite IH. reflexivity. Qed.

Lemma nth_error_upd {A} (f : A -> A) : forall l n i,
  nth_error (upd n f l) i = if Nat.eqb i n then option_map f (nth_error l i) else nth_error l i.
Proof.
  induction l as [|x l IH]; intros n i; simpl.
  - destruct i; simpl; match goal with |- _ = if ?b then _ else _ => destruct b end; reflexivity.
  - destruct n as [|n]; destruct i as [|i]; simpl; try reflexivity. apply IH.
Qed.

Lemma upd_map_sess (f : hitem -> hitem) (Hf : forall it, i_sess (f it) = i_sess it) : forall l n,
  map i_sess (upd n f l) = map i_sess l.
Proof.
  induction l as [|x l IH]; intros [|n]; simpl; try reflexivity.
  - rewrite Hf. reflexivity.
  - rewrite IH. reflexivity.
Qed.

Lemma list_ext_nth_error {A} : forall l l' : list A,
  (forall i, nth_error l i = nth_error l' i) -> l = l'.
Proof.
  induction l as [|x l IH]; destruct l' as [|y l']; intro H; try reflexivity.
  - specialize (H O). discriminate.
  - specialize (H O). discriminate.
  - pose proof (H O) as H0. simpl in H0. injection H0 as ->.
    f_equal. apply IH. intro i. exact (H (S i)).
Qed.

Lemma fidx_upd tr key (f : hitem -> hitem) (Hf : forall it, i_sess (f it) = i_sess it) l n :
  fidx tr key (upd n f l) = fidx tr key l.
Proof. apply fidx_sess. apply upd_map_sess. exact Hf. Qed.

Lemma nth_error_upd_unit (f : hitem -> hitem) (Hf : forall it, i_unit (f it) = i_unit it) l n i :
  option_map i_unit (nth_error (upd n f l) i) = option_map i_unit (nth_error l i).
Proof.
  rewrite nth_error_upd. destruct (Nat.eqb i n); [|reflexivity].
  destruct (nth_error l i); simpl; [rewrite Hf|]; reflexivity.
Qed.

Definition updf {A} (i n : nat) (f : A -> A) : A -> A := fun x => if Nat.eqb i n then f x else x.

Lemma nth_error_updf {A} (f : A -> A) l n i :
  nth_error (upd n f l) i = option_map (updf i n f) (nth_error l i).
Proof.
  rewrite nth_error_upd. unfold updf. destruct (Nat.eqb i n); [reflexivity|].
  destruct (nth_error l i); reflexivity.
Qed.

Lemma ws_nth_error_map {A B} (f : A -> B) : forall l i,
  nth_error (map f l) i = option_map f (nth_error l i).
Proof. induction l as [|x l IH]; intros [|i]; simpl; try reflexivity. apply IH. Qed.

Lemma fidx_map tr key (f : hitem -> hitem) (Hf : forall it, i_sess (f it) = i_sess it) l :
  fidx tr key (map f l) = fidx tr key l.
Proof.
  apply fidx_sess. rewrite map_map. apply map_ext. exact Hf.
Qed.

Lemma fidx_same_pos tr k1 k2 : forall l n,
  fidx tr k1 l = Some n -> fidx tr k2 l = Some n -> mn_compare tr k1 k2 = true.
Proof.
  intros l n H1 H2.
  destruct (fidx_match _ _ _ _ H1) as [a [Ha Ma]].
  destruct (fidx_match _ _ _ _ H2) as [b [Hb Mb]].
  rewrite Ha in Hb. injection Hb as <-.
  unfold mn_compare in *. destruct tr.
  - apply ws_str_eqb_eq in Ma, Mb. rewrite <- Ma, <- Mb. apply ws_str_eqb_refl.
  - apply ws_str_eqb_eq in Ma, Mb. rewrite <- Ma, <- Mb. apply ws_str_eqb_refl.
Qed.

Lemma Forall2_refl_gen {A} (R : A -> A -> Prop) (Hr : forall a, R a a) : forall l, Forall2 R l l.
Proof. induction l; constructor; auto. Qed.

Lemma Forall2_trans_gen {A} (R : A -> A -> Prop) (Ht : forall a b c, R a b -> R b c -> R a c) :
  forall l1 l2 l3, Forall2 R l1 l2 -> Forall2 R l2 l3 -> Forall2 R l1 l3.
Proof.
  induction l1 as [|a l1 IH]; intros l2 l3 H12 H23; inversion H12; subst; inversion H23; subst; constructor.
  - eapply Ht; eassumption.
  - eapply IH; eassumption.
Qed.

Lemma Forall2_map_r {A} (R : A -> A -> Prop) (f : A -> A) (Hf : forall a, R a (f a)) : forall l, Forall2 R l (map f l).
Proof. induction l; simpl; constructor; auto. Qed.

(* updating the item found under `key` is covered by any relation that holds for the items
   registered under `key` and is reflexive *)
Lemma upd_fidx_frame tr key (R : hitem -> hitem -> Prop) (f : hitem -> hitem)
      (Hr : forall a, R a a) (Hf : forall a, mn_compare tr (i_sess a) key = true -> R a (f a)) :
  forall l n, fidx tr key l = Some n -> Forall2 R l (upd n f l).
Proof.
  induction l as [|a l IH]; simpl; intros n H; [discriminate|].
  destruct (mn_compare tr (i_sess a) key) eqn:E.
  - injection H as <-. simpl. constructor; [apply Hf; exact E|apply Forall2_refl_gen; exact Hr].
  - destruct (fidx tr key l) as [k|] eqn:Ek; [|discriminate]. injection H as <-.
    simpl. constructor; [apply Hr|apply IH; reflexivity].
Qed.

Definition k_strt : list N := s2l "STRT".
Definition k_stop : list N := s2l "STOP".
Definition k_step : list N := s2l "STEP".

(* ---- refresh_sss in explicit form ------------------------------------------------------------ *)
Section Refresh.
Variable fmtv : list N -> list N -> list N.
Variable fmt_diff : list N -> list N -> list N -> list N.
Variable numeq : list N -> list N -> bool.
Variable ff : list N.            (* the format of the index column: column_fmt[0] or fmt *)

Notation refresh := (refresh_sss fmtv fmt_diff numeq ff).
Notation fic := (fmt_index_cell fmtv ff).

(* the decision `index_changed or stop_is_different` (None: IndexError / AttributeError) *)
Definition need_of (m : mlas) : option bool :=
  let l := m_las m in
  let index := index_of l in
  let well := l_well l in
  let trw := s_transforms well in
    match m_index_initial m with
    | None => Some true
    | Some ii =>
        match s_items (l_curves l) with
        | [] => None                  (* las.index with no curve: IndexError *)
        | _ :: _ =>
        match rev ii with
        | [] => None
        | lastc :: _ =>
            match item_value_by trw (s2l "STOP") (s_items well) with
            | None => None
            | Some sv =>
                let stop_diff :=
                  match lastc, sv with
                  | CNum t, VInt z => negb (numeq (fmtv ff t) (z_to_str z))
                  | CNum t, VFloat x => negb (numeq (fmtv ff t) x)
                  | _, _ => true
                  end in
                Some (negb (cells_equal numeq ii index) || stop_diff)
            end
        end
        end
    end.

Definition strt_of (index : list cell) : hval := match index with c :: _ => fic c | [] => VNone end.
Definition stop_of (index : list cell) : hval := match rev index with c :: _ => fic c | [] => VNone end.
(* two samples or more and different STRT / STOP texts: ff % (second - first), which is "nan"
   as soon as one of the two is NaN (step_text); else None *)
Definition step_of (index : list cell) : hval :=
  match index with
  | c0 :: c1 :: _ =>
      if match strt_of index, stop_of index with VStr x, VStr y => str_eqb x y | _, _ => true end then VNone
      else step_text fmt_diff ff c0 c1
  | _ => VNone
  end.

Definition sv (v : hval) : hitem -> hitem := fun it => set_value it v.
Definition su (u : list N) : hitem -> hitem := fun it => set_unit it u.

Definition set_vals (need : bool) (index : list cell) (nS nP nE : nat) (w : list hitem) : list hitem :=
  if need then upd nE (sv (step_of index)) (upd nP (sv (stop_of index)) (upd nS (sv (strt_of index)) w)) else w.
Definition align (u : list N) (nS nP nE : nat) (w : list hitem) : list hitem :=
  upd nE (su u) (upd nP (su u) (upd nS (su u) w)).

Definition c0unit_of (l : las) : list N := match s_items (l_curves l) with c0 :: _ => i_unit c0 | [] => [] end.
Definition unit_of (l : las) (nS : nat) : list N :=
  match c0unit_of l with
  | [] => match nth_error (s_items (l_well l)) nS with Some it => i_unit it | None => [] end
  | _ => c0unit_of l
  end.
Definition curves_aligned (l : las) (u : list N) : list hitem :=
  match s_items (l_curves l) with c0 :: rest => set_unit c0 u :: rest | [] => [] end.

Definition refresh_result (l : las) (need : bool) (nS nP nE : nat) : las :=
  let u := unit_of l nS in
  with_curves (with_well l (mksect (align u nS nP nE (set_vals need (index_of l) nS nP nE (s_items (l_well l))))
                                   (s_transforms (l_well l))))
              (mksect (curves_aligned l u) (s_transforms (l_curves l))).

Definition refresh_body (m : mlas) (need : bool) : option las :=
  let l := m_las m in
  let index := index_of l in
  let well := l_well l in
  let trw := s_transforms well in
  let set_values (w : list hitem) : option (list hitem) :=
    if need then
      let strt := match index with c :: _ => fic c | [] => VNone end in
      let stop := match rev index with c :: _ => fic c | [] => VNone end in
      let step :=
        match index with
        | c0 :: c1 :: _ =>
            if match strt, stop with VStr x, VStr y => str_eqb x y | _, _ => true end then VNone
            else step_text fmt_diff ff c0 c1
        | _ => VNone
        end in
      bind (update_first trw (s2l "STRT") (fun it => set_value it strt) w) (fun w1 =>
      bind (update_first trw (s2l "STOP") (fun it => set_value it stop) w1) (fun w2 =>
      update_first trw (s2l "STEP") (fun it => set_value it step) w2))
    else Some w in
  bind (set_values (s_items well)) (fun w =>
  let c0unit := match s_items (l_curves l) with c0 :: _ => i_unit c0 | [] => [] end in
  bind (sect_find trw (s2l "STRT") w) (fun strt_item =>
  let unit := match c0unit with [] => i_unit strt_item | _ => c0unit end in
  bind (update_first trw (s2l "STRT") (fun it => set_unit it unit) w) (fun w1 =>
  bind (update_first trw (s2l "STOP") (fun it => set_unit it unit) w1) (fun w2 =>
  bind (update_first trw (s2l "STEP") (fun it => set_unit it unit) w2) (fun w3 =>
  let curves' := match s_items (l_curves l) with c0 :: rest => set_unit c0 unit :: rest | [] => [] end in
  Some (with_curves (with_well l (mksect w3 trw)) (mksect curves' (s_transforms (l_curves l))))))))).

Lemma refresh_split m : refresh m = bind (need_of m) (refresh_body m).
Proof. reflexivity. Qed.

Lemma sv_sess v it : i_sess (sv v it) = i_sess it. Proof. reflexivity. Qed.
Lemma su_sess u it : i_sess (su u it) = i_sess it. Proof. reflexivity. Qed.
Lemma sv_unit v it : i_unit (sv v it) = i_unit it. Proof. reflexivity. Qed.

Lemma refresh_body_eq m need :
  refresh_body m need =
  let w0 := s_items (l_well (m_las m)) in
  let trw := s_transforms (l_well (m_las m)) in
  match fidx trw k_strt w0, fidx trw k_stop w0, fidx trw k_step w0 with
  | Some nS, Some nP, Some nE => Some (refresh_result (m_las m) need nS nP nE)
  | _, _, _ => None
  end.
Proof.
  unfold refresh_body. cbv zeta.
  set (l := m_las m). set (w0 := s_items (l_well l)). set (trw := s_transforms (l_well l)).
  fold k_strt k_stop k_step.
  destruct (fidx trw k_strt w0) as [nS|] eqn:ES.
  2: { destruct need; cbn [bind].
       - rewrite update_first_upd, ES. reflexivity.
       - rewrite sect_find_nth, ES. reflexivity. }
  destruct (fidx_match _ _ _ _ ES) as [itS [HnS HmS]].
  destruct need; cbn [bind].
  - rewrite update_first_upd, ES. cbn [bind].
    rewrite update_first_upd, fidx_upd by (intro; reflexivity).
    destruct (fidx trw k_stop w0) as [nP|] eqn:EP; [|reflexivity]. cbn [bind].
    rewrite update_first_upd, !fidx_upd by (intro; reflexivity).
    destruct (fidx trw k_step w0) as [nE|] eqn:EE; [|reflexivity]. cbn [bind].
    rewrite sect_find_nth, !fidx_upd, ES by (intro; reflexivity).
    match goal with |- bind (nth_error ?W nS) _ = _ =>
      assert (Hu : option_map i_unit (nth_error W nS) = Some (i_unit itS))
        by (rewrite !nth_error_upd_unit by (intro; reflexivity); rewrite HnS; reflexivity);
      destruct (nth_error W nS) as [si|] eqn:Esi; [|discriminate] end.
    simpl in Hu. injection Hu as Hu. cbn [bind]. rewrite Hu.
    rewrite update_first_upd, !fidx_upd, ES by (intro; reflexivity). cbn [bind].
    rewrite update_first_upd, !fidx_upd, EP by (intro; reflexivity). cbn [bind].
    rewrite update_first_upd, !fidx_upd, EE by (intro; reflexivity). cbn [bind].
    unfold refresh_result, unit_of, c0unit_of, align, set_vals, index_of, curves_aligned, sv, su,
      strt_of, stop_of, step_of.
    fold l. fold w0. rewrite HnS. reflexivity.
  - rewrite sect_find_nth, ES, HnS. cbn [bind].
    rewrite update_first_upd, ES. cbn [bind].
    rewrite update_first_upd, !fidx_upd by (intro; reflexivity).
    destruct (fidx trw k_stop w0) as [nP|] eqn:EP; [|reflexivity]. cbn [bind].
    rewrite update_first_upd, !fidx_upd by (intro; reflexivity).
    destruct (fidx trw k_step w0) as [nE|] eqn:EE; [|reflexivity]. cbn [bind].
    unfold refresh_result, unit_of, c0unit_of, align, set_vals, index_of, curves_aligned, sv, su.
    fold l. fold w0. rewrite HnS. reflexivity.
Qed.

Lemma refresh_eq m :
  refresh m =
  let w0 := s_items (l_well (m_las m)) in
  let trw := s_transforms (l_well (m_las m)) in
  match need_of m, fidx trw k_strt w0, fidx trw k_stop w0, fidx trw k_step w0 with
  | Some need, Some nS, Some nP, Some nE => Some (refresh_result (m_las m) need nS nP nE)
  | _, _, _, _ => None
  end.
Proof.
  rewrite refresh_split. destruct (need_of m) as [need|]; cbn [bind]; [|reflexivity].
  apply refresh_body_eq.
Qed.

Lemma refresh_inv m l2 :
  refresh m = Some l2 ->
  exists need nS nP nE,
    need_of m = Some need /\
    fidx (s_transforms (l_well (m_las m))) k_strt (s_items (l_well (m_las m))) = Some nS /\
    fidx (s_transforms (l_well (m_las m))) k_stop (s_items (l_well (m_las m))) = Some nP /\
    fidx (s_transforms (l_well (m_las m))) k_step (s_items (l_well (m_las m))) = Some nE /\
    l2 = refresh_result (m_las m) need nS nP nE.
Proof.
  rewrite refresh_eq. cbv zeta.
  destruct (need_of m) as [need|]; [|discriminate].
  destruct (fidx _ k_strt _) as [nS|]; [|discriminate].
  destruct (fidx _ k_stop _) as [nP|]; [|discriminate].
  destruct (fidx _ k_step _) as [nE|]; [|discriminate].
  intro H. injection H as <-. exists need, nS, nP, nE. repeat split; reflexivity.
Qed.

(* ---- frame of the refresh -------------------------------------------------------------------- *)
Definition is_sss (tr : bool) (s : list N) : bool :=
  mn_compare tr s k_strt || mn_compare tr s k_stop || mn_compare tr s k_step.

(* what may change on a ~Well item: unit and value, and only for STRT / STOP / STEP *)
Definition wframe (tr : bool) (a b : hitem) : Prop :=
  i_orig b = i_orig a /\ i_sess b = i_sess a /\ i_descr b = i_descr a /\
  (is_sss tr (i_sess a) = false -> i_unit b = i_unit a /\ i_value b = i_value a).

Lemma wframe_refl tr a : wframe tr a a.
Proof. unfold wframe. auto. Qed.

Lemma wframe_trans tr a b c : wframe tr a b -> wframe tr b c -> wframe tr a c.
Proof.
  unfold wframe. intros (O1 & S1 & D1 & U1) (O2 & S2 & D2 & U2).
  rewrite O2, O1, S2, S1, D2, D1. repeat split; try reflexivity.
  - destruct (U1 H) as [X _]. rewrite S1 in U2. destruct (U2 H) as [Y _]. congruence.
  - destruct (U1 H) as [_ X]. rewrite S1 in U2. destruct (U2 H) as [_ Y]. congruence.
Qed.

Lemma wframe_sv tr key v a :
  mn_compare tr (i_sess a) key = true -> is_sss tr (i_sess a) = true -> wframe tr a (sv v a).
Proof. unfold wframe, sv, set_value. simpl. intros _ H. repeat split; try reflexivity; congruence. Qed.

Lemma wframe_su tr key u a :
  mn_compare tr (i_sess a) key = true -> is_sss tr (i_sess a) = true -> wframe tr a (su u a).
Proof. unfold wframe, su, set_unit. simpl. intros _ H. repeat split; try reflexivity; congruence. Qed.

Lemma is_sss_strt tr s : mn_compare tr s k_strt = true -> is_sss tr s = true.
Proof. unfold is_sss. intros ->. reflexivity. Qed.
Lemma is_sss_stop tr s : mn_compare tr s k_stop = true -> is_sss tr s = true.
Proof. unfold is_sss. intros ->. rewrite orb_true_r. reflexivity. Qed.
Lemma is_sss_step tr s : mn_compare tr s k_step = true -> is_sss tr s = true.
Proof. unfold is_sss. intros ->. rewrite orb_true_r. reflexivity. Qed.

Section Positions.
Variables (tr : bool) (w0 : list hitem) (nS nP nE : nat).
Hypothesis HS : fidx tr k_strt w0 = Some nS.
Hypothesis HP : fidx tr k_stop w0 = Some nP.
Hypothesis HE : fidx tr k_step w0 = Some nE.

Lemma set_vals_frame need idx : Forall2 (wframe tr) w0 (set_vals need idx nS nP nE w0).
Proof.
  unfold set_vals. destruct need; [|apply Forall2_refl_gen, wframe_refl].
  eapply Forall2_trans_gen; [apply wframe_trans| |].
  eapply Forall2_trans_gen; [apply wframe_trans| |].
  - apply (upd_fidx_frame tr k_strt); [apply wframe_refl| |exact HS].
    intros a Ha. eapply wframe_sv; [exact Ha|apply is_sss_strt; exact Ha].
  - apply (upd_fidx_frame tr k_stop); [apply wframe_refl| |rewrite fidx_upd by (intro; reflexivity); exact HP].
    intros a Ha. eapply wframe_sv; [exact Ha|apply is_sss_stop; exact Ha].
  - apply (upd_fidx_frame tr k_step); [apply wframe_refl| |rewrite !fidx_upd by (intro; reflexivity); exact HE].
    intros a Ha. eapply wframe_sv; [exact Ha|apply is_sss_step; exact Ha].
Qed.

Lemma set_vals_fidx need idx key : fidx tr key (set_vals need idx nS nP nE w0) = fidx tr key w0.
Proof. unfold set_vals. destruct need; [|reflexivity]. rewrite !fidx_upd by (intro; reflexivity). reflexivity. Qed.

Lemma align_fidx u key w : fidx tr key (align u nS nP nE w) = fidx tr key w.
Proof. unfold align. rewrite !fidx_upd by (intro; reflexivity). reflexivity. Qed.

Lemma align_frame u w :
  fidx tr k_strt w = Some nS -> fidx tr k_stop w = Some nP -> fidx tr k_step w = Some nE ->
  Forall2 (wframe tr) w (align u nS nP nE w).
Proof.
  intros H1 H2 H3. unfold align.
  eapply Forall2_trans_gen; [apply wframe_trans| |].
  eapply Forall2_trans_gen; [apply wframe_trans| |].
  - apply (upd_fidx_frame tr k_strt); [apply wframe_refl| |exact H1].
    intros a Ha. eapply wframe_su; [exact Ha|apply is_sss_strt; exact Ha].
  - apply (upd_fidx_frame tr k_stop); [apply wframe_refl| |rewrite fidx_upd by (intro; reflexivity); exact H2].
    intros a Ha. eapply wframe_su; [exact Ha|apply is_sss_stop; exact Ha].
  - apply (upd_fidx_frame tr k_step); [apply wframe_refl| |rewrite !fidx_upd by (intro; reflexivity); exact H3].
    intros a Ha. eapply wframe_su; [exact Ha|apply is_sss_step; exact Ha].
Qed.

Lemma refresh_items_frame need idx u :
  Forall2 (wframe tr) w0 (align u nS nP nE (set_vals need idx nS nP nE w0)).
Proof.
  eapply Forall2_trans_gen; [apply wframe_trans|apply set_vals_frame|].
  apply align_frame; rewrite set_vals_fidx; assumption.
Qed.

(* the three positions are pairwise different *)
Lemma k_strt_stop : mn_compare tr k_strt k_stop = false. Proof. destruct tr; vm_compute; reflexivity. Qed.
Lemma k_strt_step : mn_compare tr k_strt k_step = false. Proof. destruct tr; vm_compute; reflexivity. Qed.
Lemma k_stop_step : mn_compare tr k_stop k_step = false. Proof. destruct tr; vm_compute; reflexivity. Qed.

Lemma nS_nP : nS <> nP.
Proof. intro E. pose proof (fidx_same_pos tr k_strt k_stop w0 nS HS) as H. rewrite E in H. specialize (H HP). rewrite k_strt_stop in H. discriminate. Qed.
Lemma nS_nE : nS <> nE.
Proof. intro E. pose proof (fidx_same_pos tr k_strt k_step w0 nS HS) as H. rewrite E in H. specialize (H HE). rewrite k_strt_step in H. discriminate. Qed.
Lemma nP_nE : nP <> nE.
Proof. intro E. pose proof (fidx_same_pos tr k_stop k_step w0 nP HP) as H. rewrite E in H. specialize (H HE). rewrite k_stop_step in H. discriminate. Qed.

(* item i after the refresh, as a function of item i before *)
Definition refreshed (need : bool) (idx : list cell) (u : list N) (i : nat) (it : hitem) : hitem :=
  updf i nE (su u) (updf i nP (su u) (updf i nS (su u)
    (if need then updf i nE (sv (step_of idx)) (updf i nP (sv (stop_of idx)) (updf i nS (sv (strt_of idx)) it)) else it))).

Lemma nth_error_refreshed need idx u w i :
  nth_error (align u nS nP nE (set_vals need idx nS nP nE w)) i = option_map (refreshed need idx u i) (nth_error w i).
Proof.
  unfold align, set_vals, refreshed. rewrite !nth_error_updf.
  destruct need.
  - rewrite !nth_error_updf. destruct (nth_error w i); reflexivity.
  - destruct (nth_error w i); reflexivity.
Qed.

End Positions.

(* ---- two passes: refresh, normalise values with h, refresh again, normalise again --------------- *)
Section TwoPass.
Variable g : hval -> list N -> hval.
Hypothesis g_idem : forall v u, g (g v u) u = g v u.
Definition hf (it : hitem) : hitem := set_value it (g (i_value it) (i_unit it)).

Lemma hf_sess it : i_sess (hf it) = i_sess it. Proof. reflexivity. Qed.
Lemma hf_idem it : hf (hf it) = hf it.
Proof. unfold hf, set_value. simpl. rewrite g_idem. reflexivity. Qed.

Lemma two_pass_fixed need1 need2 idx u nS nP nE w0 :
  (need2 = true -> need1 = true) ->
  map hf (align u nS nP nE (set_vals need2 idx nS nP nE
        (map hf (align u nS nP nE (set_vals need1 idx nS nP nE w0)))))
  = map hf (align u nS nP nE (set_vals need1 idx nS nP nE w0)).
Proof.
  intro Hn. apply list_ext_nth_error. intro i.
  rewrite !ws_nth_error_map, !nth_error_refreshed, !ws_nth_error_map, !nth_error_refreshed.
  destruct (nth_error w0 i) as [it|]; [|reflexivity]. simpl. f_equal.
  destruct it as [o s un v d].
  unfold refreshed, updf.
  destruct need2; [rewrite (Hn eq_refl)|destruct need1];
    destruct (Nat.eqb i nS), (Nat.eqb i nP), (Nat.eqb i nE);
    cbv beta iota delta [hf sv su set_value set_unit i_orig i_sess i_unit i_value i_descr];
    rewrite ?g_idem; reflexivity.
Qed.

(* the in-place normalisation of ~Well and ~Parameter values (writer.py steps 7, 9) *)
Definition norm_g (l2 : las) : las :=
  with_params (with_well l2 (map_section hf (l_well l2))) (map_section hf (l_params l2)).

Hypothesis g_int : forall z u, g (VInt z) u = VInt z.
Hypothesis g_float : forall x u, g (VFloat x) u = VFloat x.

Section After.
Variables (l : las) (need1 : bool) (nS nP nE : nat) (ii : option (list cell)).
Let w0 := s_items (l_well l).
Let trw := s_transforms (l_well l).
Hypothesis HS : fidx trw k_strt w0 = Some nS.
Hypothesis HP : fidx trw k_stop w0 = Some nP.
Hypothesis HE : fidx trw k_step w0 = Some nE.
Let l3 := norm_g (refresh_result l need1 nS nP nE).

Lemma after_well_items :
  s_items (l_well l3) = map hf (align (unit_of l nS) nS nP nE (set_vals need1 (index_of l) nS nP nE w0)).
Proof. reflexivity. Qed.
Lemma after_trw : s_transforms (l_well l3) = trw. Proof. reflexivity. Qed.
Lemma after_curves_shape :
  s_items (l_curves l3) = match s_items (l_curves l) with c0 :: rest => set_unit c0 (unit_of l nS) :: rest | [] => [] end.
Proof. reflexivity. Qed.
Lemma after_index : index_of l3 = index_of l.
Proof.
  unfold index_of. rewrite after_curves_shape. change (l_data l3) with (l_data l).
  destruct (s_items (l_curves l)); reflexivity.
Qed.

Lemma after_fidx key : fidx trw key (s_items (l_well l3)) = fidx trw key w0.
Proof. rewrite after_well_items, fidx_map by apply hf_sess. rewrite align_fidx, set_vals_fidx. reflexivity. Qed.

Lemma after_unit : unit_of l3 nS = unit_of l nS.
Proof.
  destruct (fidx_match _ _ _ _ HS) as [itS [HnS _]].
  assert (HW : match nth_error (s_items (l_well l3)) nS with Some it => i_unit it | None => [] end = unit_of l nS).
  { rewrite after_well_items, ws_nth_error_map, nth_error_refreshed. fold w0. rewrite HnS. simpl.
    unfold refreshed, updf. rewrite Nat.eqb_refl.
    destruct (Nat.eqb nS nP), (Nat.eqb nS nE); reflexivity. }
  unfold unit_of at 1. rewrite HW.
  assert (HC : c0unit_of l3 = match s_items (l_curves l) with [] => [] | _ :: _ => unit_of l nS end).
  { unfold c0unit_of, l3, norm_g, refresh_result, curves_aligned. simpl.
    destruct (s_items (l_curves l)); reflexivity. }
  rewrite HC. destruct (s_items (l_curves l)); [reflexivity|].
  destruct (unit_of l nS); reflexivity.
Qed.

Lemma after_curves : curves_aligned l3 (unit_of l nS) = s_items (l_curves l3).
Proof.
  unfold curves_aligned, l3, norm_g, refresh_result. simpl. unfold curves_aligned.
  destruct (s_items (l_curves l)); reflexivity.
Qed.

Lemma after_need n1 :
  need_of (mkmlas l ii) = Some n1 ->
  exists n2, need_of (mkmlas l3 ii) = Some n2 /\ (need1 = false -> n1 = false -> n2 = false).
Proof.
  unfold need_of. cbn [m_las m_index_initial].
  destruct ii as [iv|]; [|intro H; injection H as <-; eexists; split; [reflexivity|intros _ H; discriminate H]].
  rewrite after_index, after_curves_shape.
  destruct (s_items (l_curves l)) as [|c0 crest]; [discriminate|].
  destruct (rev iv) as [|lastc rr]; [discriminate|].
  unfold item_value_by. rewrite !sect_find_nth. fold k_stop.
  rewrite after_trw. fold trw. rewrite after_fidx. fold w0. rewrite HP.
  destruct (fidx_match _ _ _ _ HP) as [itP [HnP _]].
  rewrite after_well_items, ws_nth_error_map, nth_error_refreshed. fold w0. rewrite HnP. simpl.
  intro H. injection H as H. eexists. split; [reflexivity|].
  intros -> ->. apply orb_false_iff in H. destruct H as [H1 H2].
  rewrite H1. simpl.
  unfold refreshed, updf. 
  destruct lastc as [t| |sx]; try discriminate.
  destruct (i_value itP) as [z|x|sx|] eqn:EV; try discriminate;
    destruct (Nat.eqb nP nS), (Nat.eqb nP nP), (Nat.eqb nP nE); simpl; rewrite EV;
    rewrite ?g_int, ?g_float; exact H2.
Qed.

(* what is found under STRT / STOP / STEP after a refresh that recomputed the values *)
Lemma after_find_strt : need1 = true ->
  exists itS, nth_error w0 nS = Some itS /\
    sect_find trw k_strt (s_items (l_well l3)) = Some (hf (su (unit_of l nS) (sv (strt_of (index_of l)) itS))).
Proof.
  intro Hn1. destruct (fidx_match _ _ _ _ HS) as [itS [HnS _]]. exists itS. split; [exact HnS|].
  rewrite sect_find_nth, after_fidx, HS, after_well_items, ws_nth_error_map, nth_error_refreshed.
  fold w0. rewrite HnS. simpl. unfold refreshed, updf. rewrite Hn1, Nat.eqb_refl.
  pose proof (nS_nP trw w0 nS nP nE HS HP HE) as N1. pose proof (nS_nE trw w0 nS nP nE HS HP HE) as N2.
  apply Nat.eqb_neq in N1, N2. rewrite N1, N2. reflexivity.
Qed.

Lemma after_find_stop : need1 = true ->
  exists itP, nth_error w0 nP = Some itP /\
    sect_find trw k_stop (s_items (l_well l3)) = Some (hf (su (unit_of l nS) (sv (stop_of (index_of l)) itP))).
Proof.
  intro Hn1. destruct (fidx_match _ _ _ _ HP) as [itP [HnP _]]. exists itP. split; [exact HnP|].
  rewrite sect_find_nth, after_fidx, HP, after_well_items, ws_nth_error_map, nth_error_refreshed.
  fold w0. rewrite HnP. simpl. unfold refreshed, updf. rewrite Hn1, Nat.eqb_refl.
  pose proof (nS_nP trw w0 nS nP nE HS HP HE) as N1. pose proof (nP_nE trw w0 nS nP nE HS HP HE) as N2.
  apply not_eq_sym in N1. apply Nat.eqb_neq in N1, N2. rewrite N1, N2. reflexivity.
Qed.

Lemma after_find_step : need1 = true ->
  exists itE, nth_error w0 nE = Some itE /\
    sect_find trw k_step (s_items (l_well l3)) = Some (hf (su (unit_of l nS) (sv (step_of (index_of l)) itE))).
Proof.
  intro Hn1. destruct (fidx_match _ _ _ _ HE) as [itE [HnE _]]. exists itE. split; [exact HnE|].
  rewrite sect_find_nth, after_fidx, HE, after_well_items, ws_nth_error_map, nth_error_refreshed.
  fold w0. rewrite HnE. simpl. unfold refreshed, updf. rewrite Hn1, Nat.eqb_refl.
  pose proof (nS_nE trw w0 nS nP nE HS HP HE) as N1. pose proof (nP_nE trw w0 nS nP nE HS HP HE) as N2.
  apply not_eq_sym in N1, N2. apply Nat.eqb_neq in N1, N2. rewrite N1, N2. reflexivity.
Qed.

(* units after any refresh (values recomputed or not) *)
Lemma after_units :
  exists a b c,
    sect_find trw k_strt (s_items (l_well l3)) = Some a /\ i_unit a = unit_of l nS /\
    sect_find trw k_stop (s_items (l_well l3)) = Some b /\ i_unit b = unit_of l nS /\
    sect_find trw k_step (s_items (l_well l3)) = Some c /\ i_unit c = unit_of l nS.
Proof.
  destruct (fidx_match _ _ _ _ HS) as [itS [HnS _]].
  destruct (fidx_match _ _ _ _ HP) as [itP [HnP _]].
  destruct (fidx_match _ _ _ _ HE) as [itE [HnE _]].
  rewrite !sect_find_nth, !after_fidx, HS, HP, HE, after_well_items, !ws_nth_error_map, !nth_error_refreshed.
  fold w0. rewrite HnS, HnP, HnE. simpl.
  do 3 eexists. repeat split; unfold refreshed, updf; rewrite ?Nat.eqb_refl.
  - destruct (Nat.eqb nS nP), (Nat.eqb nS nE); reflexivity.
  - destruct (Nat.eqb nP nE); reflexivity.
  - reflexivity.
Qed.

End After.

(* refresh; normalise; refresh again; normalise again: nothing changes the second time *)
Lemma refresh_norm_idem m l2 :
  refresh m = Some l2 ->
  exists l2', refresh (mkmlas (norm_g l2) (m_index_initial m)) = Some l2' /\ norm_g l2' = norm_g l2.
Proof.
  intro H. destruct (refresh_inv _ _ H) as (need1 & nS & nP & nE & Hn & HS & HP & HE & ->).
  destruct m as [l ii]. cbn [m_las m_index_initial] in *.
  destruct (after_need l need1 nS nP nE ii HP need1 Hn) as (n2 & Hn2 & Hrel).
  rewrite refresh_eq. cbv zeta. cbn [m_las m_index_initial].
  rewrite Hn2, after_trw, !after_fidx, HS, HP, HE.
  eexists. split; [reflexivity|].
  unfold refresh_result at 1. cbv zeta. rewrite after_unit by assumption. rewrite after_curves.
  rewrite after_index, after_well_items.
  unfold norm_g at 1. unfold with_params, with_well, with_curves, map_section. cbn [l_version l_well l_curves l_params l_other l_custom l_data l_engine_numpy s_items s_transforms].
  rewrite two_pass_fixed.
  2: { intros ->. destruct need1; [reflexivity|]. symmetry. apply Hrel; reflexivity. }
  change (s_items (l_params (norm_g (refresh_result l need1 nS nP nE)))) with (map hf (s_items (l_params l))).
  rewrite map_map. rewrite (map_ext _ _ (fun it => hf_idem it)).
  reflexivity.
Qed.

End TwoPass.

Variable fzero : list N -> bool.
Definition norm_las : las -> las := norm_g (standardize fzero).

Lemma refresh_std_idem m l2 :
  refresh m = Some l2 ->
  exists l2', refresh (mkmlas (norm_las l2) (m_index_initial m)) = Some l2' /\ norm_las l2' = norm_las l2.
Proof.
  apply refresh_norm_idem.
  - apply standardize_idem.
  - intros; apply standardize_int.
  - intros; apply standardize_float.
Qed.

Lemma norm_id l : norm_g (fun v _ => v) l = l.
Proof.
  assert (Hs : forall s, map_section (hf (fun v _ => v)) s = s).
  { intros [its t]. unfold map_section. simpl. f_equal.
    rewrite <- (map_id its) at 2. apply map_ext. intros [o se u v d]. reflexivity. }
  unfold norm_g. rewrite !Hs. destruct l. reflexivity.
Qed.

(* update_start_stop_step + update_units_from_index_curve applied twice = applied once *)
Lemma refresh_idem m l :
  refresh m = Some l -> refresh (mkmlas l (m_index_initial m)) = Some l.
Proof.
  intro H.
  destruct (refresh_norm_idem (fun v _ => v) (fun _ _ => eq_refl) (fun _ _ => eq_refl) (fun _ _ => eq_refl) m l H)
    as (l2' & H1 & H2).
  rewrite !norm_id in *. subst l2'. exact H1.
Qed.

(* ---- frame of refresh + normalisation at the level of the LASFile ------------------------------ *)
Definition wframe_n (tr : bool) (a b : hitem) : Prop :=
  i_orig b = i_orig a /\ i_sess b = i_sess a /\ i_descr b = i_descr a /\
  (is_sss tr (i_sess a) = false ->
   i_unit b = i_unit a /\ i_value b = standardize fzero (i_value a) (i_unit a)).

Definition cframe (a b : hitem) : Prop :=
  i_orig b = i_orig a /\ i_sess b = i_sess a /\ i_value b = i_value a /\ i_descr b = i_descr a.

Lemma Forall2_map_compose {A} (R R' : A -> A -> Prop) (f : A -> A)
      (H : forall a b, R a b -> R' a (f b)) : forall l l', Forall2 R l l' -> Forall2 R' l (map f l').
Proof. induction 1; simpl; constructor; auto. Qed.

Lemma refresh_norm_well_frame l need nS nP nE :
  fidx (s_transforms (l_well l)) k_strt (s_items (l_well l)) = Some nS ->
  fidx (s_transforms (l_well l)) k_stop (s_items (l_well l)) = Some nP ->
  fidx (s_transforms (l_well l)) k_step (s_items (l_well l)) = Some nE ->
  Forall2 (wframe_n (s_transforms (l_well l))) (s_items (l_well l))
          (s_items (l_well (norm_las (refresh_result l need nS nP nE)))).
Proof.
  intros HS HP HE.
  change (s_items (l_well (norm_las (refresh_result l need nS nP nE))))
    with (map (hf (standardize fzero)) (align (unit_of l nS) nS nP nE (set_vals need (index_of l) nS nP nE (s_items (l_well l))))).
  eapply Forall2_map_compose; [|apply (refresh_items_frame (s_transforms (l_well l)) _ nS nP nE HS HP HE)].
  intros a b (O & S & D & U). unfold wframe_n, hf, set_value. simpl.
  repeat split; try assumption.
  - destruct (U H) as [X _]. exact X.
  - destruct (U H) as [X Y]. rewrite X, Y. reflexivity.
Qed.

Lemma curves_aligned_frame l u :
  Forall2 cframe (s_items (l_curves l)) (curves_aligned l u) /\
  tl (curves_aligned l u) = tl (s_items (l_curves l)).
Proof.
  unfold curves_aligned. destruct (s_items (l_curves l)) as [|c0 rest].
  - split; [constructor|reflexivity].
  - split; [|reflexivity]. constructor.
    + unfold cframe, set_unit. simpl. auto.
    + apply Forall2_refl_gen. unfold cframe. auto.
Qed.

End Refresh.
