(* Proofs.StripFacts — general facts about str.strip() (PyStr.strip / lstrip_by / rstrip_by):
   white space at either end never matters, strip is idempotent, a line is blank iff it is
   all white space, line terminators are white space; and about lines_keep (CRLF line ends,
   missing final newline).  Used by C09 and C19. *)
From Coq Require Import List Arith NArith Bool Lia ZifyBool ZifyN ZifyNat.
Import ListNotations.
Require Import PyStr RegexSubFacts.
Open Scope list_scope.
Open Scope N_scope.

(* ---- lstrip_by / rstrip_by ----------------------------------------------------------- *)
Lemma lstrip_by_app_drop f : forall w s, forallb f w = true -> lstrip_by f (w ++ s) = lstrip_by f s.
Proof.
  induction w as [|c w IH]; intros s H; [reflexivity|].
  cbn [forallb] in H. apply andb_true_iff in H as [Hc Hw]. cbn [app lstrip_by]. rewrite Hc. apply IH. exact Hw.
Qed.

Lemma lstrip_by_all f w : forallb f w = true -> lstrip_by f w = [].
Proof. intros H. rewrite <- (app_nil_r w). rewrite lstrip_by_app_drop by exact H. reflexivity. Qed.

Lemma lstrip_by_head f c s : f c = false -> lstrip_by f (c :: s) = c :: s.
Proof. intros H. cbn [lstrip_by]. rewrite H. reflexivity. Qed.

Lemma forallb_rev {A} (f : A -> bool) l : forallb f (rev l) = forallb f l.
Proof.
  induction l as [|x l IH]; [reflexivity|]. cbn [rev forallb]. rewrite forallb_app, IH. cbn [forallb].
  rewrite andb_true_r. apply andb_comm.
Qed.

Lemma existsb_rev {A} (f : A -> bool) l : existsb f (rev l) = existsb f l.
Proof.
  induction l as [|x l IH]; [reflexivity|]. cbn [rev existsb]. rewrite existsb_app, IH. cbn [existsb].
  rewrite orb_false_r. apply orb_comm.
Qed.

Lemma rstrip_by_app_drop f s w : forallb f w = true -> rstrip_by f (s ++ w) = rstrip_by f s.
Proof.
  intros H. unfold rstrip_by. rewrite rev_app_distr, lstrip_by_app_drop; [reflexivity|].
  rewrite forallb_rev. exact H.
Qed.

Lemma rstrip_by_all f w : forallb f w = true -> rstrip_by f w = [].
Proof. intros H. unfold rstrip_by. rewrite lstrip_by_all; [reflexivity|]. rewrite forallb_rev. exact H. Qed.

Lemma rstrip_by_nil f : rstrip_by f [] = [].
Proof. reflexivity. Qed.

(* a string that starts with a kept character keeps it under rstrip *)
Lemma lstrip_by_snoc_keep f c : f c = false -> forall a, lstrip_by f (a ++ [c]) = lstrip_by f a ++ [c].
Proof.
  intros Hc. induction a as [|x a IH]; cbn [app lstrip_by].
  - rewrite Hc. reflexivity.
  - destruct (f x); [exact IH|reflexivity].
Qed.

Lemma rstrip_by_cons_keep f c s : f c = false -> rstrip_by f (c :: s) = c :: rstrip_by f s.
Proof.
  intros Hc. unfold rstrip_by. cbn [rev]. rewrite lstrip_by_snoc_keep by exact Hc.
  rewrite rev_app_distr. reflexivity.
Qed.

(* ---- strip --------------------------------------------------------------------------- *)
Lemma strip_all_space w : forallb is_space w = true -> strip w = [].
Proof. intros H. unfold strip, strip_by. rewrite lstrip_by_all by exact H. reflexivity. Qed.

Lemma strip_nil : strip [] = [].
Proof. reflexivity. Qed.

Lemma strip_nil_all_space raw : strip raw = [] -> forallb is_space raw = true.
Proof.
  intros E. destruct (strip_decomp raw) as (a & b & Eraw & Ha & Hb & _).
  rewrite E in Eraw. cbn [app] in Eraw. rewrite Eraw. apply forallb_app_true. auto.
Qed.

Lemma strip_nil_iff raw : strip raw = [] <-> forallb is_space raw = true.
Proof. split; [apply strip_nil_all_space|apply strip_all_space]. Qed.

(* white space at either end is irrelevant *)
Theorem strip_pad ws1 l ws2 :
  forallb is_space ws1 = true -> forallb is_space ws2 = true -> strip (ws1 ++ l ++ ws2) = strip l.
Proof.
  intros H1 H2. unfold strip, strip_by. rewrite lstrip_by_app_drop by exact H1.
  destruct (lstrip_by_decomp is_space l) as (w & E & Hw & Hh).
  destruct (lstrip_by is_space l) as [|c r] eqn:El.
  - rewrite app_nil_r in E. subst w.
    rewrite lstrip_by_all; [reflexivity|]. apply forallb_app_true. auto.
  - rewrite E at 1. rewrite <- app_assoc, lstrip_by_app_drop by exact Hw.
    cbn [app]. rewrite lstrip_by_head by exact Hh.
    rewrite app_comm_cons. apply rstrip_by_app_drop. exact H2.
Qed.

Corollary strip_pad_left ws l : forallb is_space ws = true -> strip (ws ++ l) = strip l.
Proof. intros H. rewrite <- (app_nil_r l) at 1. apply strip_pad; [exact H|reflexivity]. Qed.

Corollary strip_pad_right l ws : forallb is_space ws = true -> strip (l ++ ws) = strip l.
Proof. intros H. apply (strip_pad [] l ws); [reflexivity|exact H]. Qed.

Theorem strip_idem raw : strip (strip raw) = strip raw.
Proof.
  destruct (strip_decomp raw) as (a & b & E & Ha & Hb & _).
  rewrite E at 2. rewrite strip_pad by assumption. reflexivity.
Qed.

(* the first and the last character of a stripped line are not white space *)
Lemma strip_head raw c r : strip raw = c :: r -> is_space c = false.
Proof.
  intros E. destruct (strip_decomp raw) as (a & b & _ & _ & _ & Hh & El).
  rewrite E in El. rewrite El in Hh. exact Hh.
Qed.

Lemma strip_fixed c r :
  is_space c = false -> is_space (last (c :: r) 0) = false -> strip (c :: r) = c :: r.
Proof.
  intros Hc Hl. unfold strip, strip_by. rewrite lstrip_by_head by exact Hc.
  unfold rstrip_by.
  assert (E : exists z m, rev (c :: r) = z :: m /\ z = last (c :: r) 0).
  { destruct (rev (c :: r)) as [|z m] eqn:Er.
    - apply (f_equal (@List.length N)) in Er. rewrite rev_length in Er. discriminate.
    - exists z, m. split; [reflexivity|].
      apply (f_equal (@rev N)) in Er. rewrite rev_involutive in Er. rewrite Er.
      cbn [rev]. rewrite last_last. reflexivity. }
  destruct E as (z & m & Er & Ez). rewrite Er. subst z. rewrite lstrip_by_head by exact Hl.
  rewrite <- Er. apply rev_involutive.
Qed.

(* line terminators *)
Lemma strip_lf l : strip (l ++ [10]) = strip l.
Proof. apply strip_pad_right. reflexivity. Qed.
Lemma strip_crlf l : strip (l ++ [13; 10]) = strip l.
Proof. apply strip_pad_right. reflexivity. Qed.
Lemma strip_crlf_lf l : strip (l ++ [13; 10]) = strip (l ++ [10]).
Proof. rewrite strip_crlf, strip_lf. reflexivity. Qed.

(* ---- two lines that read the same ---------------------------------------------------- *)
Definition streq (x y : list N) : Prop := strip x = strip y.

Lemma streq_refl x : streq x x.
Proof. reflexivity. Qed.
Lemma streq_sym x y : streq x y -> streq y x.
Proof. unfold streq. auto. Qed.
Lemma streq_trans x y z : streq x y -> streq y z -> streq x z.
Proof. unfold streq. congruence. Qed.
Lemma streq_pad ws1 l ws2 :
  forallb is_space ws1 = true -> forallb is_space ws2 = true -> streq (ws1 ++ l ++ ws2) l.
Proof. apply strip_pad. Qed.
Lemma streq_strip l : streq (strip l) l.
Proof. apply strip_idem. Qed.

Lemma Forall2_streq_refl ls : Forall2 streq ls ls.
Proof. induction ls; constructor; [reflexivity|assumption]. Qed.

Lemma Forall2_map_pad (pad : list N -> list N) :
  (forall l, strip (pad l) = strip l) -> forall ls, Forall2 streq (map pad ls) ls.
Proof. intros H. induction ls as [|l ls IH]; constructor; [apply H|exact IH]. Qed.

Lemma Forall2_firstn {A B} (R : A -> B -> Prop) : forall n l l',
  Forall2 R l l' -> Forall2 R (firstn n l) (firstn n l').
Proof.
  induction n as [|n IH]; intros l l' H; [constructor|].
  destruct H; cbn [firstn]; constructor; [assumption|apply IH; assumption].
Qed.
Lemma Forall2_skipn {A B} (R : A -> B -> Prop) : forall n l l',
  Forall2 R l l' -> Forall2 R (skipn n l) (skipn n l').
Proof.
  induction n as [|n IH]; intros l l' H; [exact H|].
  destruct H; cbn [skipn]; [constructor|apply IH; assumption].
Qed.
Lemma Forall2_trans_gen {A} (R : A -> A -> Prop) :
  (forall x y z, R x y -> R y z -> R x z) ->
  forall l1 l2, Forall2 R l1 l2 -> forall l3, Forall2 R l2 l3 -> Forall2 R l1 l3.
Proof.
  intros T l1 l2 H. induction H as [|x y l1 l2 Hxy H IH]; intros l3 H3; inversion H3; subst; constructor.
  - eapply T; eassumption.
  - apply IH. assumption.
Qed.
Lemma Forall2_sym_gen {A} (R : A -> A -> Prop) :
  (forall x y, R x y -> R y x) -> forall l1 l2, Forall2 R l1 l2 -> Forall2 R l2 l1.
Proof. intros S l1 l2 H. induction H; constructor; auto. Qed.

(* ---- lines_keep: CRLF line ends and the final newline -------------------------------- *)
(* the text with every LF preceded by a CR *)
Definition crlf (s : list N) : list N := replace_char 10 [13; 10] s.

Lemma crlf_cons c s : crlf (c :: s) = (if c =? 10 then [13; 10] else [c]) ++ crlf s.
Proof. reflexivity. Qed.

Lemma crlf_absent : forall s, in_str 10 s = false -> crlf s = s.
Proof.
  induction s as [|x s IH]; intros H; [reflexivity|].
  unfold in_str in H. cbn [existsb] in H. apply orb_false_iff in H as [Hx Hs].
  rewrite crlf_cons. rewrite N.eqb_sym in Hx. rewrite Hx. cbn [app]. rewrite IH by exact Hs. reflexivity.
Qed.

Lemma crlf_app a b : crlf (a ++ b) = crlf a ++ crlf b.
Proof. unfold crlf, replace_char. apply flat_map_app. Qed.

(* the lines of the CRLF text are the LF lines, each with CR inserted before its LF *)
Lemma lines_keep_aux_crlf : forall s cur, in_str 10 cur = false ->
  lines_keep_aux (crlf s) cur = map crlf (lines_keep_aux s cur).
Proof.
  induction s as [|c s IH]; intros cur Hcur.
  - cbn [crlf replace_char flat_map lines_keep_aux]. destruct cur as [|x cur]; [reflexivity|].
    cbn [map]. f_equal. symmetry. apply crlf_absent.
    unfold in_str in *. rewrite existsb_rev. exact Hcur.
  - rewrite crlf_cons. cbn [lines_keep_aux]. unfold ch_nl.
    destruct (N.eqb_spec c 10) as [->|Hc].
    + cbn [app lines_keep_aux]. unfold ch_nl. cbn [N.eqb Pos.eqb].
      cbn [map]. rewrite IH by reflexivity. f_equal.
      cbn [rev]. rewrite !crlf_app. rewrite <- !app_assoc. cbn [app].
      rewrite crlf_absent by (unfold in_str in *; rewrite existsb_rev; exact Hcur). reflexivity.
    + cbn [app lines_keep_aux]. unfold ch_nl. destruct (N.eqb_spec c 10); [contradiction|].
      apply IH. unfold in_str in *. cbn [existsb]. rewrite Hcur, orb_false_r.
      apply N.eqb_neq. congruence.
Qed.

Theorem lines_keep_crlf s : lines_keep (crlf s) = map crlf (lines_keep s).
Proof. apply lines_keep_aux_crlf. reflexivity. Qed.

(* a line produced by lines_keep has at most one LF, at its end *)
Lemma lines_keep_aux_shape : forall s cur, in_str 10 cur = false ->
  Forall (fun l => exists b, in_str 10 b = false /\ (l = b \/ l = b ++ [10])) (lines_keep_aux s cur).
Proof.
  induction s as [|c s IH]; intros cur Hcur; cbn [lines_keep_aux].
  - destruct cur as [|x cur]; constructor; [|constructor].
    exists (rev (x :: cur)). split; [|left; reflexivity]. unfold in_str in *. rewrite existsb_rev. exact Hcur.
  - unfold ch_nl. destruct (N.eqb_spec c 10) as [->|Hc].
    + constructor; [|apply IH; reflexivity]. exists (rev cur). split.
      * unfold in_str in *. rewrite existsb_rev. exact Hcur.
      * right. reflexivity.
    + apply IH. unfold in_str in *. cbn [existsb]. rewrite Hcur, orb_false_r. apply N.eqb_neq. congruence.
Qed.

Lemma crlf_line_streq b : in_str 10 b = false -> streq (crlf (b ++ [10])) (b ++ [10]).
Proof.
  intros H. unfold streq. rewrite crlf_app, (crlf_absent b H).
  change (crlf [10]) with [13; 10]. apply strip_crlf_lf.
Qed.

Theorem lines_keep_crlf_streq s : Forall2 streq (lines_keep (crlf s)) (lines_keep s).
Proof.
  rewrite lines_keep_crlf. pose proof (lines_keep_aux_shape s [] eq_refl) as H.
  fold (lines_keep s) in H. induction H as [|l ls (b & Hb & [E|E]) _ IH]; cbn [map]; constructor; try exact IH.
  - subst l. unfold streq. rewrite crlf_absent by exact Hb. reflexivity.
  - subst l. apply crlf_line_streq. exact Hb.
Qed.

(* final newline: a text whose last line is unterminated, with and without the terminator *)
Lemma lines_keep_aux_final : forall t c cur, c <> 10 ->
  exists ls l, lines_keep_aux (t ++ [c]) cur = ls ++ [l] /\
               lines_keep_aux (t ++ [c; 10]) cur = ls ++ [l ++ [10]].
Proof.
  induction t as [|x t IH]; intros c cur Hc.
  - exists [], (rev (c :: cur)). cbn [app lines_keep_aux]. unfold ch_nl.
    destruct (N.eqb_spec c 10); [contradiction|]. cbn [lines_keep_aux N.eqb Pos.eqb]. split; reflexivity.
  - cbn [app lines_keep_aux]. destruct (x =? ch_nl).
    + destruct (IH c [] Hc) as (ls & l & E1 & E2). exists (rev (x :: cur) :: ls), l.
      rewrite E1, E2. split; reflexivity.
    + apply IH. exact Hc.
Qed.

Theorem lines_keep_final_newline t c : c <> 10 ->
  exists ls l, lines_keep (t ++ [c]) = ls ++ [l] /\ lines_keep (t ++ [c; 10]) = ls ++ [l ++ [10]].
Proof. apply lines_keep_aux_final. Qed.

Theorem lines_keep_final_newline_streq t c : c <> 10 ->
  Forall2 streq (lines_keep (t ++ [c; 10])) (lines_keep (t ++ [c])).
Proof.
  intros Hc. destruct (lines_keep_final_newline t c Hc) as (ls & l & E1 & E2). rewrite E1, E2.
  apply Forall2_app; [apply Forall2_streq_refl|]. constructor; [|constructor]. apply strip_lf.
Qed.

Lemma strip_terminators l : strip (l ++ [13; 10]) = strip (l ++ [10]) /\ strip (l ++ [10]) = strip l.
Proof. split; [apply strip_crlf_lf|apply strip_lf]. Qed.

Theorem lines_keep_crlf_both s :
  lines_keep (crlf s) = map crlf (lines_keep s) /\ Forall2 streq (lines_keep (crlf s)) (lines_keep s).
Proof. split; [apply lines_keep_crlf|apply lines_keep_crlf_streq]. Qed.
