(* Proofs.ReadCongr — LASFile.read as a function of what its consumers see of each section:
   two texts whose section tables correspond one to one, with equal titles and with bodies
   that the consumer of that section cannot tell apart, read equal (C09 at the level of
   `read`).  Instances: lines that differ only by white space at their ends (hence CRLF and a
   missing final newline), any number of blank / comment lines inserted in header and data
   sections.  Line numbers shift under insertion; the statement is about corresponding
   sections, not about positions. *)
From Coq Require Import List Arith NArith Bool Lia String.
Import ListNotations.
Require Import PyStr Regex Regexes NumLit Num HeaderLine Tables SectionParse Sections DataRead Read.
Require Import RegexSubFacts StripFacts JunkProofs ReadInvProofs.
Open Scope string_scope.
Open Scope list_scope.
Open Scope N_scope.

Section WithOracles.
Variable fhex : list N -> option (list N).
Variable fstr : list N -> list N.
Variable numeq : list N -> list N -> bool.

(* ---- two data bodies the data readers cannot tell apart -------------------------------- *)
Definition data_equiv (b b' : list (list N)) : Prop :=
  (forall d subs, inspect_twice d b subs = inspect_twice d b' subs) /\
  (forall d subs, normal_items d subs b = normal_items d subs b') /\
  genfromtxt_rows b = genfromtxt_rows b'.

Lemma data_equiv_refl b : data_equiv b b.
Proof. repeat split. Qed.
Lemma data_equiv_sym b b' : data_equiv b b' -> data_equiv b' b.
Proof. intros (H1 & H2 & H3). repeat split; intros; symmetry; auto. Qed.
Lemma data_equiv_trans b1 b2 b3 : data_equiv b1 b2 -> data_equiv b2 b3 -> data_equiv b1 b3.
Proof.
  intros (H1 & H2 & H3) (K1 & K2 & K3). repeat split; intros.
  - rewrite H1. apply K1.
  - rewrite H2. apply K2.
  - rewrite H3. exact K3.
Qed.

Lemma data_equiv_streq b b' : Forall2 streq b b' -> data_equiv b b'.
Proof.
  intros H. repeat split; intros.
  - apply inspect_twice_streq. exact H.
  - apply normal_items_streq. exact H.
  - apply genfromtxt_rows_streq. exact H.
Qed.

Lemma data_equiv_ins_skipped b b' : ins_lines (fun x => is_skip x = true) b b' -> data_equiv b' b.
Proof.
  intros J. repeat split; intros.
  - apply inspect_twice_ins_skipped. exact J.
  - apply normal_items_ins_skipped. eapply ins_lines_mono; [|exact J]. intros x Hx. apply is_skip_toks. exact Hx.
  - apply genfromtxt_rows_ins_skipped. eapply ins_lines_mono; [|exact J]. intros x Hx. apply is_skip_np. exact Hx.
Qed.

(* ---- read_one_data: what it looks at -------------------------------------------------- *)
Definition wrap_decl (l : las) : bool :=
  match sect_find (s_transforms (l_version l)) (s2l "WRAP") (s_items (l_version l)) with
  | Some it => hval_is_str (i_value it) (s2l "YES")
  | None => false
  end.

Definition data_core (o : ropts) (pw : hval) (pn : option hval) (d : dlm) (body : list (list N))
           (curves : section) (wd : bool) : (section * list (list cell) * bool) + rerr :=
  let wrapped := hval_is_str pw (s2l "YES") in
  let use_numpy := o_engine_numpy o && negb wrapped && o_null_strict o in
  let subs0 := match d with DComma => comma_delim_subs | _ => default_subs end in
  let (sniffed, subs) := inspect_twice d body subs0 in
  let ncurves := List.length (s_items curves) in
  let n_columns :=
    match sniffed with
    | None => ncurves
    | Some n => if wd && Nat.ltb n ncurves then ncurves else n
    end in
  let from_numpy := if use_numpy then numpy_engine fhex body else None in
  let res :=
    match from_numpy with
    | Some cols => DOk cols
    | None => normal_engine fhex fstr d subs n_columns body
    end in
  match res with
  | DErrReshape => inr EReshape
  | DOk cols =>
      let cols := null_columns (nulleq numeq pn) (o_null_strict o) 0%nat cols in
      let tr := s_transforms curves in
      let curves' := bind_columns tr (s_items curves) 0%nat cols in
      inl (mksect curves' tr, data_for_curves (List.length curves') cols,
           match from_numpy with Some _ => true | None => false end)
  end.

(* a data section is read from: the WRAP and NULL steering values, the delimiter, the
   section's own lines, the ~Curves section and the WRAP item of ~Version -- nothing else;
   and it writes the curves, the data and the engine trace -- nothing else *)
Theorem read_one_data_core o ls ps d p l :
  read_one_data fhex fstr numeq o ls ps d p l =
  match data_core o (p_wrapped ps) (p_null ps) d (body_lines ls p) (l_curves l) (wrap_decl l) with
  | inl (cs, dat, eng) =>
      inl (mklas (l_version l) (l_well l) cs (l_params l) (l_other l) (l_custom l) dat eng)
  | inr e => inr e
  end.
Proof.
  unfold read_one_data, data_core, wrap_decl. cbv zeta.
  destruct (inspect_twice d (body_lines ls p) _) as [sniffed subs].
  destruct (if o_engine_numpy o && negb (hval_is_str (p_wrapped ps) (s2l "YES")) && o_null_strict o
            then numpy_engine fhex (body_lines ls p) else None) as [cols|].
  - reflexivity.
  - destruct (normal_engine fhex fstr d subs _ (body_lines ls p)); reflexivity.
Qed.

Theorem data_core_equiv o pw pn d b b' cs wd : data_equiv b b' ->
  data_core o pw pn d b cs wd = data_core o pw pn d b' cs wd.
Proof.
  intros (H1 & H2 & H3). unfold data_core. rewrite H1.
  rewrite (numpy_engine_rows_eq fhex b b' H3).
  destruct (inspect_twice d b' _) as [sniffed subs]. cbv zeta.
  rewrite (normal_engine_items fhex fstr d subs _ b b' (H2 d subs)). reflexivity.
Qed.

(* re-wrapping a WRAP=YES data section: the numpy engine is not used, the normal engine reads
   the token stream; the result is the same as soon as the column count handed to reshape is
   (for a file that declares WRAP YES it is the number of curves whenever the sniffed count is
   smaller or undetermined) and the recommended substitutions are *)
Definition n_columns_of (sniffed : option nat) (ncurves : nat) (wd : bool) : nat :=
  match sniffed with
  | None => ncurves
  | Some n => if wd && Nat.ltb n ncurves then ncurves else n
  end.

Lemma n_columns_of_wrapped sn nc : (match sn with Some n => (n < nc)%nat | None => True end) ->
  n_columns_of sn nc true = nc.
Proof.
  destruct sn as [n|]; [|reflexivity]. intros H. unfold n_columns_of. cbn [andb].
  apply Nat.ltb_lt in H. rewrite H. reflexivity.
Qed.

Theorem data_core_rewrap o pw pn d b b' cs wd sn sn' subs :
  hval_is_str pw (s2l "YES") = true ->
  inspect_twice d b (match d with DComma => comma_delim_subs | _ => default_subs end) = (sn, subs) ->
  inspect_twice d b' (match d with DComma => comma_delim_subs | _ => default_subs end) = (sn', subs) ->
  n_columns_of sn (List.length (s_items cs)) wd = n_columns_of sn' (List.length (s_items cs)) wd ->
  List.concat (map (toks d subs) b) = List.concat (map (toks d subs) b') ->
  data_core o pw pn d b cs wd = data_core o pw pn d b' cs wd.
Proof.
  intros Hw H1 H2 Hn Ht. unfold data_core. rewrite Hw, H1, H2. cbn [negb]. rewrite andb_false_r. cbn [andb].
  cbv zeta. fold (n_columns_of sn (List.length (s_items cs)) wd). fold (n_columns_of sn' (List.length (s_items cs)) wd).
  rewrite Hn. rewrite (normal_engine_rewrap fhex fstr d subs _ b b' Ht). reflexivity.
Qed.

(* when the substitutions fire on no line of either wrapping (no decimal comma, no run-on
   hyphen or double dot: C02_sub_identity reduces that to "no regex match"), the recommended
   substitutions are irrelevant and only the reshape width has to agree *)
Lemma toks_subs_irrelevant d subs subs' raw :
  apply_subs subs (strip raw) = strip raw -> apply_subs subs' (strip raw) = strip raw ->
  toks d subs raw = toks d subs' raw.
Proof. intros H H'. unfold toks. rewrite H, H'. reflexivity. Qed.

Lemma normal_engine_items2 d subs subs' n a b :
  normal_items d subs a = normal_items d subs' b ->
  normal_engine fhex fstr d subs n a = normal_engine fhex fstr d subs' n b.
Proof. intros H. unfold normal_engine. rewrite H. reflexivity. Qed.

Theorem data_core_rewrap_clean o pw pn d b b' cs wd :
  hval_is_str pw (s2l "YES") = true ->
  (forall raw subs, In raw (b ++ b') -> apply_subs subs (strip raw) = strip raw) ->
  n_columns_of (fst (inspect_twice d b (match d with DComma => comma_delim_subs | _ => default_subs end)))
               (List.length (s_items cs)) wd =
  n_columns_of (fst (inspect_twice d b' (match d with DComma => comma_delim_subs | _ => default_subs end)))
               (List.length (s_items cs)) wd ->
  List.concat (map (toks d []) b) = List.concat (map (toks d []) b') ->
  data_core o pw pn d b cs wd = data_core o pw pn d b' cs wd.
Proof.
  intros Hw Hid Hn Ht. unfold data_core. rewrite Hw. cbn [negb]. rewrite andb_false_r. cbn [andb].
  destruct (inspect_twice d b _) as [sn subs]. destruct (inspect_twice d b' _) as [sn' subs']. cbn [fst] in Hn.
  cbv zeta. fold (n_columns_of sn (List.length (s_items cs)) wd). fold (n_columns_of sn' (List.length (s_items cs)) wd).
  rewrite Hn.
  assert (E : normal_items d subs b = normal_items d subs' b').
  { rewrite !normal_items_toks.
    rewrite (map_ext_in (toks d subs) (toks d []) b)
      by (intros raw Hin; apply toks_subs_irrelevant; apply Hid; apply in_or_app; left; exact Hin).
    rewrite (map_ext_in (toks d subs') (toks d []) b')
      by (intros raw Hin; apply toks_subs_irrelevant; apply Hid; apply in_or_app; right; exact Hin).
    exact Ht. }
  rewrite (normal_engine_items2 d subs subs' _ b b' E). reflexivity.
Qed.

(* the ~Other branch of step_section, as one update of the las *)
Definition other_las (title txt : list N) (l : las) : las :=
  match second_upper title with
  | Some 79 => mklas (l_version l) (l_well l) (l_curves l) (l_params l) txt (l_custom l) (l_data l) (l_engine_numpy l)
  | _ => mklas (l_version l) (l_well l) (l_curves l) (l_params l) (l_other l)
               (set_custom (tl title) (CText txt) (l_custom l)) (l_data l) (l_engine_numpy l)
  end.

Lemma step_section_other o ls ps p : section_type (sp_title p) = TOther ->
  step_section o ls ps p = inl (with_las ps (other_las (sp_title p) (other_text ls p) (p_las ps))).
Proof.
  intros H. unfold step_section, other_las. rewrite H.
  destruct (second_upper (sp_title p)) as [n|]; [|reflexivity].
  destruct n as [|q]; [reflexivity|]. do 7 (destruct q as [q|q|]; try reflexivity).
Qed.

(* ---- corresponding sections of two line lists ----------------------------------------- *)
Section TwoTexts.
Variables ls ls' : list (list N).

Definition dsec_equiv (p p' : spos) : Prop := data_equiv (body_lines ls p) (body_lines ls' p').

Definition sec_equiv (p p' : spos) : Prop :=
  sp_title p = sp_title p' /\
  match section_type (sp_title p) with
  | THeader => forall v c ig, parse_section v (sp_title p) c ig [ch_hash] (body_lines ls p)
                            = parse_section v (sp_title p) c ig [ch_hash] (body_lines ls' p')
  | TOther => other_text ls p = other_text ls' p'
  | _ => dsec_equiv p p'
  end.

Definition ps_equiv (ps ps' : pstate) : Prop :=
  p_version ps = p_version ps' /\ p_wrapped ps = p_wrapped ps' /\ p_null ps = p_null ps' /\
  p_dlm ps = p_dlm ps' /\ p_las ps = p_las ps' /\
  Forall2 dsec_equiv (p_data ps) (p_data ps') /\ Forall2 dsec_equiv (p_las3data ps) (p_las3data ps').

Definition res_equiv {A E} (R : A -> A -> Prop) (x y : A + E) : Prop :=
  match x, y with
  | inl a, inl b => R a b
  | inr e, inr e' => e = e'
  | _, _ => False
  end.

Lemma Forall2_snoc {A B} (R : A -> B -> Prop) l l' x y :
  Forall2 R l l' -> R x y -> Forall2 R (l ++ [x]) (l' ++ [y]).
Proof. intros H Hxy. apply Forall2_app; [exact H|constructor; [exact Hxy|constructor]]. Qed.

Lemma step_section_equiv o ps ps' p p' : ps_equiv ps ps' -> sec_equiv p p' ->
  res_equiv ps_equiv (step_section o ls ps p) (step_section o ls' ps' p').
Proof.
  intros (Ev & Ew & En & Ed & El & Hd & H3) (Et & Hs).
  destruct ps as [pv pw pn pd pl pdat p3]. destruct ps' as [pv' pw' pn' pd' pl' pdat' p3'].
  cbn [p_version p_wrapped p_null p_dlm p_las p_data p_las3data] in *. subst pv' pw' pn' pd' pl'.
  destruct (section_type (sp_title p)) eqn:Ety.
  - unfold step_section. rewrite <- Et, Ety. cbn [res_equiv]. unfold ps_equiv.
    cbn [p_version p_wrapped p_null p_dlm p_las p_data p_las3data].
    repeat split; try assumption. apply Forall2_snoc; assumption.
  - rewrite !step_section_other by (rewrite <- ?Et; exact Ety). rewrite <- Et, <- Hs.
    cbn [res_equiv]. unfold ps_equiv, with_las. cbn [p_version p_wrapped p_null p_dlm p_las p_data p_las3data].
    repeat split; assumption.
  - unfold step_section. rewrite <- Et, Ety. cbn [res_equiv]. unfold ps_equiv.
    cbn [p_version p_wrapped p_null p_dlm p_las p_data p_las3data].
    repeat split; try assumption. apply Forall2_snoc; assumption.
  - unfold step_section. rewrite <- Et, Ety. cbn [p_version p_wrapped p_null p_dlm p_las p_data p_las3data].
    destruct (version_of pv) as [ver|]; [|reflexivity].
    destruct (las_version_eqb ver V30 && las3_like (sp_title p)); [reflexivity|].
    rewrite <- Hs. destruct (parse_section ver (sp_title p) (o_mcase o) (o_ignore_header_errors o) [ch_hash] (body_lines ls p));
      [|reflexivity].
    destruct (second_upper (sp_title p)) as [letter|]; [|reflexivity].
    cbn [res_equiv]. unfold ps_equiv, with_las, update_steering.
    destruct (letter =? 86); [|destruct (letter =? 87)];
      cbn [p_version p_wrapped p_null p_dlm p_las p_data p_las3data]; repeat split; assumption.
Qed.

Lemma first_pass_equiv o : forall sects sects', Forall2 sec_equiv sects sects' ->
  forall ps ps', ps_equiv ps ps' ->
  res_equiv ps_equiv (first_pass o ls ps sects) (first_pass o ls' ps' sects').
Proof.
  induction 1 as [|p p' l l' Hp H IH]; intros ps ps' Hps; [exact Hps|].
  cbn [first_pass]. pose proof (step_section_equiv o ps ps' p p' Hps Hp) as S.
  destruct (step_section o ls ps p) as [a|e]; destruct (step_section o ls' ps' p') as [b|e']; cbn [res_equiv] in S;
    try contradiction.
  - apply IH. exact S.
  - exact S.
Qed.

Lemma read_one_data_equiv o ps ps' d p p' l :
  p_wrapped ps = p_wrapped ps' -> p_null ps = p_null ps' -> dsec_equiv p p' ->
  read_one_data fhex fstr numeq o ls ps d p l = read_one_data fhex fstr numeq o ls' ps' d p' l.
Proof.
  intros Ew En H. rewrite !read_one_data_core, Ew, En.
  rewrite (data_core_equiv o _ _ d _ _ (l_curves l) (wrap_decl l) H). reflexivity.
Qed.

Lemma read_data_sections_equiv o ps ps' d :
  p_wrapped ps = p_wrapped ps' -> p_null ps = p_null ps' ->
  forall ds ds', Forall2 dsec_equiv ds ds' -> forall l,
  read_data_sections fhex fstr numeq o ls ps d ds l = read_data_sections fhex fstr numeq o ls' ps' d ds' l.
Proof.
  intros Ew En. induction 1 as [|p p' ds ds' Hp H IH]; intros l; [reflexivity|].
  cbn [read_data_sections]. rewrite (read_one_data_equiv o ps ps' d p p' l Ew En Hp).
  destruct (read_one_data fhex fstr numeq o ls' ps' d p' l); [apply IH|reflexivity].
Qed.

End TwoTexts.

(* ---- the whole read -------------------------------------------------------------------- *)
Theorem read_congr o t t' :
  Forall2 (sec_equiv (lines_keep t) (lines_keep t'))
          (find_sections (lines_keep t)) (find_sections (lines_keep t')) ->
  read fhex fstr numeq o t = read fhex fstr numeq o t'.
Proof.
  intros H. unfold read. set (ls := lines_keep t) in *. set (ls' := lines_keep t') in *.
  set (ps0 := mkps _ _ _ _ _ _ _).
  assert (H0 : ps_equiv ls ls' ps0 ps0) by (repeat split; constructor).
  pose proof (first_pass_equiv ls ls' o _ _ H ps0 ps0 H0) as F.
  destruct H as [|p p' l l' Hp H]; [reflexivity|].
  set (sects := p :: l) in *. set (sects' := p' :: l') in *.
  destruct (first_pass o ls ps0 sects) as [ps|e]; destruct (first_pass o ls' ps0 sects') as [ps'|e'];
    cbn [res_equiv] in F; try contradiction; [|congruence].
  destruct F as (Ev & Ew & En & Ed & El & Hd & H3). rewrite <- Ed, <- El.
  destruct (dlm_of (p_dlm ps)) as [d|]; [|reflexivity].
  destruct (o_ignore_data o); [reflexivity|].
  assert (Hds : Forall2 (dsec_equiv ls ls') (match p_data ps with [] => p_las3data ps | x => x end)
                        (match p_data ps' with [] => p_las3data ps' | x => x end)).
  { destruct Hd; [exact H3|constructor; assumption]. }
  rewrite (read_data_sections_equiv ls ls' o ps ps' d Ew En _ _ Hds). reflexivity.
Qed.

(* instance 1: the lines differ only by white space at their ends *)
Lemma sec_equiv_streq ls ls' p : Forall2 streq ls ls' -> sec_equiv ls ls' p p.
Proof.
  intros H. split; [reflexivity|]. pose proof (body_lines_streq ls ls' p H) as Hb.
  destruct (section_type (sp_title p)).
  - apply data_equiv_streq. exact Hb.
  - apply other_text_streq. exact H.
  - apply data_equiv_streq. exact Hb.
  - intros v c ig. apply parse_section_streq. exact Hb.
Qed.

Theorem read_streq o t t' : Forall2 streq (lines_keep t) (lines_keep t') ->
  read fhex fstr numeq o t = read fhex fstr numeq o t'.
Proof.
  intros H. apply read_congr. rewrite <- (find_sections_streq _ _ H).
  induction (find_sections (lines_keep t)) as [|p l IH]; constructor; [|exact IH].
  apply sec_equiv_streq. exact H.
Qed.

Corollary read_crlf o t : read fhex fstr numeq o (crlf t) = read fhex fstr numeq o t.
Proof. apply read_streq. apply lines_keep_crlf_streq. Qed.

Corollary read_final_newline o t c : c <> 10 ->
  read fhex fstr numeq o (t ++ [c; 10]) = read fhex fstr numeq o (t ++ [c]).
Proof. intros H. apply read_streq. apply lines_keep_final_newline_streq. exact H. Qed.

End WithOracles.
