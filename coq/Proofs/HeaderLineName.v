(* Proofs.HeaderLineName — whatever the line, the parsed mnemonic never contains a period
   (outside the ~Curves dots special case).  Needs the CAPTURES of a successful match:
   soundness of the stars with the state handed to the continuation, and preservation of
   a group's capture by the rest of the pattern. *)
From Coq Require Import List Arith NArith Bool Lia.
Import ListNotations.
Require Import PyStr Regex RegexFacts Regexes HeaderLine RegexMatchFacts HeaderLineSpec
  HeaderLineFragments HeaderLineTotal.
Open Scope N_scope.

(* ---------- a successful star hands some class prefix to its continuation ------------- *)
Lemma star_g_sound k cont cs y : forall s p,
  star_g k p s cs cont = Some y ->
  exists a b, s = a ++ b /\ forallb (cmatch k) a = true /\ cont (mkst (rev a ++ p) b cs) = Some y.
Proof.
  induction s as [|c s IH]; intros p H; cbn [star_g] in H.
  - exists [], []. repeat split. exact H.
  - destruct (cmatch k c) eqn:Hc.
    + destruct (star_g k (c :: p) s cs cont) eqn:Hs.
      * injection H as <-. destruct (IH _ Hs) as (a & b & -> & Ha & Hk).
        exists (c :: a), b. split; [reflexivity|]. split.
        -- cbn [forallb]. rewrite Hc, Ha. reflexivity.
        -- cbn [rev]. rewrite <- app_assoc. exact Hk.
      * exists [], (c :: s). repeat split. exact H.
    + exists [], (c :: s). repeat split. exact H.
Qed.

Lemma star_l_sound k cont cs y : forall s p,
  star_l k p s cs cont = Some y ->
  exists a b, s = a ++ b /\ forallb (cmatch k) a = true /\ cont (mkst (rev a ++ p) b cs) = Some y.
Proof.
  induction s as [|c s IH]; intros p H; cbn [star_l] in H.
  - destruct (cont (mkst p [] cs)) eqn:Hk; [|discriminate]. injection H as <-.
    exists [], []. repeat split. exact Hk.
  - destruct (cont (mkst p (c :: s) cs)) eqn:Hk.
    + injection H as <-. exists [], (c :: s). repeat split. exact Hk.
    + destruct (cmatch k c) eqn:Hc; [|discriminate].
      destruct (IH _ H) as (a & b & -> & Ha & Hk'). exists (c :: a), b. split; [reflexivity|]. split.
      * cbn [forallb]. rewrite Hc, Ha. reflexivity.
      * cbn [rev]. rewrite <- app_assoc. exact Hk'.
Qed.

Lemma cls_sound k x cont y :
  m (Cls k) x cont = Some y ->
  exists c s, rem x = c :: s /\ cmatch k c = true /\ cont (mkst (c :: pre x) s (caps x)) = Some y.
Proof.
  cbn [m]. destruct (rem x) as [|c s]; [discriminate|]. destruct (cmatch k c) eqn:Hc; [|discriminate].
  intros H. exists c, s. split; [reflexivity|]. split; [exact Hc|exact H].
Qed.

(* ---------- the rest of a pattern keeps the capture of a group it does not contain ----- *)
Definition keeps (n : nat) (cont : K) : Prop :=
  forall x y, cont x = Some y -> group_opt n (caps y) = group_opt n (caps x).

Fixpoint no_grp (n : nat) (r : re) : bool :=
  match r with
  | Grp k a => negb (Nat.eqb k n) && no_grp n a
  | Seq a b | Alt a b => no_grp n a && no_grp n b
  | Opt a => no_grp n a
  | _ => true
  end.

Lemma keeps_kdone n : keeps n kdone.
Proof. intros x y H. injection H as <-. reflexivity. Qed.

Lemma m_keeps n : forall r, no_grp n r = true -> forall cont, keeps n cont -> keeps n (fun x => m r x cont).
Proof.
  induction r as [ | k | a IHa b IHb | a IHa b IHb | a IHa | k | k | k | g a IHa | alts | alts | | ];
    intros Hn cont Hk x y H; cbn [no_grp] in Hn; cbn [m] in H.
  - exact (Hk _ _ H).
  - destruct (rem x) as [|c s]; [discriminate|]. destruct (cmatch k c); [|discriminate]. exact (Hk _ _ H).
  - apply andb_true_iff in Hn as [Ha Hb].
    exact (IHa Ha (fun y => m b y cont) (IHb Hb cont Hk) x y H).
  - apply andb_true_iff in Hn as [Ha Hb]. destruct (m a x cont) eqn:E.
    + injection H as <-. exact (IHa Ha cont Hk x _ E).
    + exact (IHb Hb cont Hk x y H).
  - destruct (m a x cont) eqn:E.
    + injection H as <-. exact (IHa Hn cont Hk x _ E).
    + exact (Hk _ _ H).
  - destruct (star_g_sound _ _ _ _ _ _ H) as (a & b & _ & _ & H'). exact (Hk _ _ H').
  - destruct (rem x) as [|c s]; [discriminate|]. destruct (cmatch k c); [|discriminate].
    destruct (star_g_sound _ _ _ _ _ _ H) as (a & b & _ & _ & H'). exact (Hk _ _ H').
  - destruct (star_l_sound _ _ _ _ _ _ H) as (a & b & _ & _ & H'). exact (Hk _ _ H').
  - apply andb_true_iff in Hn as [Hg Ha]. apply negb_true_iff in Hg.
    refine (IHa Ha _ _ x y H). intros z y' Hz. rewrite (Hk _ _ Hz). cbn [caps group_opt]. rewrite Hg. reflexivity.
  - destruct (existsb _ alts); [discriminate|]. exact (Hk _ _ H).
  - destruct (existsb _ alts); [discriminate|]. exact (Hk _ _ H).
  - destruct (rem x) as [|c [|c' s]]; [exact (Hk _ _ H)| |discriminate].
    destruct (c =? 10); [exact (Hk _ _ H)|discriminate].
  - destruct (rem x); [exact (Hk _ _ H)|discriminate].
Qed.

(* ---------- group 0 of the period patterns is dot-free -------------------------------- *)
Lemma not_cls_in_str c s : forallb (cmatch (CNot (CChar c))) s = true -> in_str c s = false.
Proof.
  induction s as [|x s IH]; [reflexivity|]. cbn [forallb]. intros H.
  apply andb_true_iff in H as [Hx Hs]. rewrite in_str_cons, (IH Hs). cbn [cmatch] in Hx.
  apply negb_true_iff in Hx. rewrite N.eqb_sym, Hx. reflexivity.
Qed.

Lemma grp0_star_sound k p s cs cont y :
  keeps 0 cont ->
  m (Seq (Grp 0 (Star (CNot (CChar k)))) (Cls (CChar k))) (mkst p s cs) cont = Some y ->
  exists g b, s = g ++ k :: b /\ in_str k g = false /\ group_opt 0 (caps y) = Some g.
Proof.
  intros Hk H. rewrite m_seq, m_grp, m_star in H.
  destruct (star_g_sound _ _ _ _ _ _ H) as (a & b & -> & Ha & H'). cbn beta in H'. cbn [pre rem caps] in H'.
  rewrite firstn_app_len in H'. destruct (cls_sound _ _ _ _ H') as (c & b' & Eb & Hc & H'').
  cbn [rem pre caps] in Eb, H''. cbn [cmatch] in Hc. apply N.eqb_eq in Hc. subst c b.
  exists a, b'. split; [reflexivity|]. split; [apply not_cls_in_str; exact Ha|].
  rewrite (Hk _ _ H''). reflexivity.
Qed.

Lemma name_first_sound rest line y :
  no_grp 0 rest = true -> re_match (Seq name_lit rest) line = Some y ->
  exists g, group_opt 0 (caps y) = Some g /\ in_str 46 g = false.
Proof.
  intros Hn H. unfold re_match, name_lit in H. rewrite !m_seq, m_opt in H.
  pose proof (m_keeps 0 rest Hn kdone (keeps_kdone 0)) as Hk.
  assert (Hgo : forall x, m (Grp 0 (Star (CNot (CChar 46)))) x
                     (fun y0 => m (Cls (CChar 46)) y0 (fun y1 => m rest y1 kdone)) = Some y ->
                exists g, group_opt 0 (caps y) = Some g /\ in_str 46 g = false).
  { intros [p s cs] Hx. rewrite <- m_seq in Hx.
    destruct (grp0_star_sound 46 p s cs _ y Hk Hx) as (g & b & _ & Hg & Hc). exists g. split; assumption. }
  destruct (m (Cls (CChar 46)) _ _) eqn:E.
  - injection H as <-. destruct (cls_sound _ _ _ _ E) as (c & s' & _ & _ & E'). exact (Hgo _ E').
  - exact (Hgo _ H).
Qed.

Lemma mp_sound line y :
  re_match mp_lit line = Some y ->
  exists g, group_opt 0 (caps y) = Some g /\ g = before 58 line.
Proof.
  intros H. unfold re_match, mp_lit, name_mp_lit in H. rewrite m_seq in H.
  assert (Hk : keeps 0 (fun y0 => m (Seq Eps (Seq value_mp_lit Eps)) y0 kdone)).
  { apply (m_keeps 0 (Seq Eps (Seq value_mp_lit Eps))); [reflexivity|apply keeps_kdone]. }
  destruct (grp0_star_sound 58 [] line [] _ y Hk H) as (g & b & -> & Hg & Hc).
  exists g. split; [exact Hc|]. symmetry. apply before_first. exact Hg.
Qed.

(* ---------- strip keeps a string free of a character ---------------------------------- *)
Lemma in_str_lstrip c f : forall s, in_str c s = false -> in_str c (lstrip_by f s) = false.
Proof.
  induction s as [|x s IH]; [reflexivity|]. intros H. cbn [lstrip_by]. destruct (f x); [|exact H].
  apply IH. apply in_str_cons_false in H. exact H.
Qed.

Lemma in_str_rev c s : in_str c (rev s) = in_str c s.
Proof.
  induction s as [|x s IH]; [reflexivity|]. cbn [rev]. rewrite in_str_app, IH, !in_str_cons.
  cbn [in_str existsb]. rewrite orb_false_r. apply orb_comm.
Qed.

Lemma in_str_strip c s : in_str c s = false -> in_str c (strip s) = false.
Proof.
  intros H. unfold strip, strip_by, rstrip_by. rewrite in_str_rev. apply in_str_lstrip.
  rewrite in_str_rev. apply in_str_lstrip. exact H.
Qed.

(* ---------- the theorem --------------------------------------------------------------- *)
Lemma first_match_in ps line y :
  first_match ps line = Some y -> exists p, In p ps /\ re_match p line = Some y.
Proof.
  induction ps as [|q ps IH]; cbn [first_match]; [discriminate|].
  destruct (re_match q line) eqn:E.
  - intros H. injection H as <-. exists q. split; [left; reflexivity|exact E].
  - intros H. destruct (IH H) as (p & Hin & Hp). exists p. split; [right; exact Hin|exact Hp].
Qed.

Theorem name_no_period : forall (line : list N) (is_curves is_param : bool) (h : hline),
  (is_curves = true -> no_double_dot line = true) ->
  read_header_line line is_curves is_param = Some h ->
  in_str 46 (h_name h) = false.
Proof.
  intros line ic ip h Hdd H. unfold read_header_line in H.
  destruct (first_match (configure_patterns line ic ip) line) as [y|] eqn:Hfm; [|discriminate].
  injection H as <-. cbn [h_name].
  assert (Hg : exists g, group_opt 0 (caps y) = Some g /\ in_str 46 g = false).
  { destruct (first_match_in _ _ _ Hfm) as (p & Hin & Hp).
    assert (Hcur : ic = true -> curves_plain line = true).
    { intros Hic. apply no_double_dot_plain. exact (Hdd Hic). }
    destruct (in_str 58 line) eqn:Hc.
    - destruct (in_str 46 (before 58 line)) eqn:Hb.
      + rewrite (cp_period _ ic ip Hc Hb Hcur) in Hin.
        assert (Hp' : p = time_lit \/ p = main_lit).
        { destruct ip; cbn [In] in Hin; intuition. }
        destruct Hp' as [-> | ->]; [unfold time_lit in Hp|unfold main_lit in Hp];
          refine (name_first_sound _ line y _ Hp); reflexivity.
      + rewrite (cp_missing_period _ ic ip Hc Hb Hcur) in Hin.
        assert (Hp' : p = mp_lit) by (destruct ip; cbn [In] in Hin; intuition).
        subst p. destruct (mp_sound line y Hp) as (g & Hg & ->). exists (before 58 line).
        split; [exact Hg|exact Hb].
    - rewrite (cp_nocolon _ ic ip Hc Hdd) in Hin.
      assert (Hp' : p = nocolon_time_lit \/ p = nocolon_lit).
      { destruct ip; cbn [In] in Hin; intuition. }
      destruct Hp' as [-> | ->]; [unfold nocolon_time_lit in Hp|unfold nocolon_lit in Hp];
        refine (name_first_sound _ line y _ Hp); reflexivity. }
  destruct Hg as (g & Hg & Hd). rewrite Hg. apply in_str_strip. exact Hd.
Qed.
