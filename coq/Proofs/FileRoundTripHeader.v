(* Proofs.FileRoundTripHeader — C03 at file level: the first pass of Model/Read.v read over
   the text that Model/Writer.v write returns gives back the four header sections (metadata
   of every item as C03 expects them), the ~Other text (each line stripped) and the steering
   values; the version the reader uses for ~Well, ~Curves, ~Parameter is the one it derives
   itself from the VERS item it has just read back.  (File-level composition, part 3c.) *)
From Coq Require Import List Arith NArith ZArith Bool Lia String.
Import ListNotations.
Require Import PyStr Regex NumLit Num HeaderLine Tables SectionParse Sections DataRead Read TextWrap Writer.
Require Import StripFacts SectionsProofs ReadProofs ReadInvProofs ReadCongr BlocksCongr ItemsBindProofs
  OrderTableProofs WriteHeaderProofs WriteOptionsProofs WriteReadProofs WriteDataTextProofs
  FileRoundTripText FileRoundTripBlocks FileRoundTripFind FileRoundTripFirstPass.
Open Scope string_scope.
Open Scope list_scope.
Open Scope N_scope.

(* ---- the ~Version section is parsed the same way under every version ------------------------ *)
Lemma order_for_version v m : order_for v KVersion m = ValueDescr.
Proof. destruct v; reflexivity. Qed.

Lemma parse_line_version v v' c line : parse_line v KVersion c line = parse_line v' KVersion c line.
Proof.
  unfold parse_line. destruct (read_header_line line false false) as [h|]; [|reflexivity].
  unfold build_item. rewrite !order_for_version. reflexivity.
Qed.

Lemma parse_body_version v v' c ie cc tr : forall lines acc,
  parse_body v KVersion c ie cc tr lines acc = parse_body v' KVersion c ie cc tr lines acc.
Proof.
  induction lines as [|raw rest IH]; intros acc; [reflexivity|]. cbn [parse_body].
  destruct (strip raw) as [|ch r]; [apply IH|]. destruct (in_str ch cc); [apply IH|].
  destruct (ch =? ch_tilde); [reflexivity|]. rewrite (parse_line_version v v').
  destruct (parse_line v' KVersion c (ch :: r)); [apply IH|]. destruct ie; [apply IH|reflexivity].
Qed.

(* ---- terminators are invisible to the header parser ------------------------------------------ *)
Lemma streq_add_nl : forall lines, Forall2 streq (map add_nl lines) lines.
Proof.
  induction lines as [|l lines IH]; [constructor|]. cbn [map]. constructor; [|exact IH].
  unfold streq, add_nl. apply strip_lf.
Qed.

Lemma kind_V rest : kind_of_title (126 :: 86 :: rest) = KVersion. Proof. reflexivity. Qed.
Lemma kind_W rest : kind_of_title (126 :: 87 :: rest) = KWell. Proof. reflexivity. Qed.
Lemma kind_C rest : kind_of_title (126 :: 67 :: rest) = KCurves. Proof. reflexivity. Qed.
Lemma kind_P rest : kind_of_title (126 :: 80 :: rest) = KParameter. Proof. reflexivity. Qed.

Lemma parse_section_written v T k c ie lines :
  strip T = T -> kind_of_title T = k ->
  parse_section v T c ie [ch_hash] (map add_nl lines) = parse_body v k c ie [ch_hash] (trc c) lines [].
Proof.
  intros Hs Hk. unfold parse_section. rewrite Hs, Hk. apply parse_body_streq. apply streq_add_nl.
Qed.

(* ---- the VERS item the writer substitutes ------------------------------------------------------ *)
Definition vers_item_12 : hitem :=
  new_item (s2l "VERS") [] (VFloat (s2l "1.2")) (s2l "CWLS LOG ASCII STANDARD - VERSION 1.2").
Definition vers_item_20 : hitem :=
  new_item (s2l "VERS") [] (VFloat (s2l "2.0")) (s2l "CWLS log ASCII Standard -VERSION 2.0").

Section WithOracles.
Variable fmtv : list N -> list N -> list N.
Variable fmt_diff : list N -> list N -> list N -> list N.
Variable fmt_pi : list N -> list N.
Variable fstr : list N -> list N.
Variable fzero : list N -> bool.
Variable numeq : list N -> list N -> bool.

Lemma write_sections_vers_item ver wrapo ifmt m hs :
  write_sections fmtv fmt_diff fstr fzero numeq ver wrapo ifmt m = Some hs ->
  (hs_version hs = V12 -> In (meta vers_item_12) (map meta (hs_vers_items hs))) /\
  (hs_version hs = V20 -> In (meta vers_item_20) (map meta (hs_vers_items hs))).
Proof.
  unfold write_sections.
  destruct wrapo as [[|]|];
    [ | | destruct (sect_find (s_transforms (l_version (m_las m))) (s2l "WRAP") (s_items (l_version (m_las m)))); [|discriminate] ];
    cbv zeta;
    (match goal with |- context [match ?x with Some v => _ | None => None end] =>
       destruct x as [v|]; [|discriminate] end);
    (match goal with |- context [refresh_sss ?a ?b ?c ?d ?e] => destruct (refresh_sss a b c d e) as [l2|]; [|discriminate] end);
    repeat (match goal with |- context [match section_lines ?a ?b ?c ?d with _ => _ end] =>
              destruct (section_lines a b c d) as [?|] eqn:?; [|discriminate] end).
  all: intros H; inversion H; subst; cbn [hs_version hs_vers_items]; split; intros ->; cbn [las_version_eqb];
    apply set_item_has_new.
Qed.

(* a version for which the writer substitutes the VERS item *)
Definition std_version (v : las_version) : Prop := v = V12 \/ v = V20.

(* the oracle str(np.float64(.)) on the two literals the writer uses *)
Definition fstr_vers_ok : Prop := fstr (s2l "1.2") = s2l "1.2" /\ fstr (s2l "2.0") = s2l "2.0".

Lemma in_class_vers c it : i_orig it = s2l "VERS" -> in_class c (s2l "VERS") it = true.
Proof. intros E. unfold in_class. rewrite E. destruct c; reflexivity. Qed.

(* the version the reader derives from the VERS item read back is the version written *)
Lemma reader_version c vit hs ver wrapo ifmt m :
  write_sections fmtv fmt_diff fstr fzero numeq ver wrapo ifmt m = Some hs ->
  std_version (hs_version hs) -> fstr_vers_ok ->
  filter (in_class c (s2l "VERS")) (hs_vers_items hs) = [vit] ->
  version_of (i_value (expected_item fstr KVersion c vit)) = Some (hs_version hs).
Proof.
  intros Hs Hv (F12 & F20) Hf.
  destruct (write_sections_vers_item _ _ _ _ _ Hs) as (I12 & I20).
  destruct Hv as [Hv|Hv]; [specialize (I12 Hv); clear I20|specialize (I20 Hv); clear I12]; rewrite Hv.
  - apply in_map_iff in I12 as (y & My & Hy).
    assert (Oy : i_orig y = s2l "VERS") by (injection My; intros; assumption).
    assert (E : y = vit) by (apply (class_member_unique c _ _ _ _ Hf Hy (in_class_vers c y Oy))).
    subst y. unfold expected_item, new_item. cbn [i_value].
    assert (Vy : i_value vit = VFloat (s2l "1.2")) by (injection My; intros; assumption).
    rewrite Oy, Vy. cbn [vstr]. rewrite F12. vm_compute. reflexivity.
  - apply in_map_iff in I20 as (y & My & Hy).
    assert (Oy : i_orig y = s2l "VERS") by (injection My; intros; assumption).
    assert (E : y = vit) by (apply (class_member_unique c _ _ _ _ Hf Hy (in_class_vers c y Oy))).
    subst y. unfold expected_item, new_item. cbn [i_value].
    assert (Vy : i_value vit = VFloat (s2l "2.0")) by (injection My; intros; assumption).
    rewrite Oy, Vy. cbn [vstr]. rewrite F20. vm_compute. reflexivity.
Qed.

(* ---- the first pass over the written text ------------------------------------------------------ *)
(* what the reader holds for a section after the first pass *)
Definition read_back_of (v : las_version) (k : skind) (c : mcase) (ie : bool) (lines : list (list N))
           (items iX : list hitem) : Prop :=
  parse_body v k c ie [ch_hash] (trc c) lines [] = POk iX /\
  map meta iX = map (fun it => meta (expected_item fstr k c it)) items.

Definition other_read (txt : list N) : list N := join [ch_nl] (map strip (splitlines txt)).

Theorem first_pass_written ro ver wrapo ifmt m hs (o : wopts) dl dls rest vit :
  write_sections fmtv fmt_diff fstr fzero numeq ver wrapo ifmt m = Some hs ->
  dl = wo_data_section_header o ++ 32 :: rest -> data_header_ok (wo_data_section_header o) ->
  bodies_notitle hs dls ->
  let c := o_mcase ro in
  let ie := o_ignore_header_errors ro in
  let v := hs_version hs in
  section_ok fstr v KVersion [ch_hash] (hs_vers_items hs) ->
  section_ok fstr v KWell [ch_hash] (s_items (l_well (hs_las hs))) ->
  section_ok fstr v KCurves [ch_hash] (s_items (l_curves (hs_las hs))) ->
  section_ok fstr v KParameter [ch_hash] (s_items (l_params (hs_las hs))) ->
  std_version v -> fstr_vers_ok ->
  filter (in_class c (s2l "VERS")) (hs_vers_items hs) = [vit] ->
  let ls := render (map nl_block (written_blocks o hs dl dls)) in
  exists iV iW iC iP p6,
    find_sections ls <> [] /\
    sp_title p6 = strip (add_nl dl) /\ body_lines ls p6 = map add_nl dls /\
    read_back_of v KVersion c ie (hs_lv hs) (hs_vers_items hs) iV /\
    read_back_of v KWell c ie (hs_lw hs) (s_items (l_well (hs_las hs))) iW /\
    read_back_of v KCurves c ie (hs_lc hs) (s_items (l_curves (hs_las hs))) iC /\
    read_back_of v KParameter c ie (hs_lp hs) (s_items (l_params (hs_las hs))) iP /\
    version_of (find_val (trc c) (s2l "VERS") iV (VFloat (s2l "2.0"))) = Some v /\
    first_pass ro ls ps0 (find_sections ls) =
    inl (mkps (find_val (trc c) (s2l "VERS") iV (VFloat (s2l "2.0")))
              (find_val (trc c) (s2l "WRAP") iV (VStr (s2l "YES")))
              (find_opt (trc c) (s2l "NULL") iW None)
              (find_val (trc c) (s2l "DLM") iV (VStr (s2l "SPACE")))
              (mklas (mksect iV (trc c)) (mksect iW (trc c)) (mksect iC (trc c)) (mksect iP (trc c))
                     (other_read (l_other (hs_las hs))) [] [] false)
              [p6] []).
Proof.
  intros Hs Hdl Hdh Hnt c ie v OkV OkW OkC OkP Hstd Hfs HuV ls.
  destruct (written_sections_read_back fmtv fmt_diff fstr fzero numeq ver wrapo ifmt m hs c ie [ch_hash] (trc c)
              Hs OkV OkW OkC OkP) as ((iV & PV & MV) & (iW & PW & MW) & (iC & PC & MC) & (iP & PP & MP)).
  pose proof (written_sections_found ls o hs dl dls rest eq_refl Hdl Hdh Hnt) as Views. cbv zeta in Views.
  set (hw := wo_header_width o) in *.
  destruct (stitle_version hw) as (R1 & S1 & Y1 & U1). destruct (stitle_well hw) as (R2 & S2 & Y2 & U2).
  destruct (stitle_curves hw) as (R3 & S3 & Y3 & U3). destruct (stitle_params hw) as (R4 & S4 & Y4 & U4).
  destruct (stitle_other hw) as (R5 & S5 & Y5).
  destruct (data_title_type (wo_data_section_header o) rest Hdh) as (c6 & r6 & _ & Y6). rewrite <- Hdl in Y6.
  (* the VERS item read back *)
  destruct (read_back_find_unique fstr v KVersion c [ch_hash] ie (s2l "VERS") eq_refl (hs_lv hs) (hs_vers_items hs) iV vit
              PV MV HuV) as (x & Fx & Mx).
  assert (Hver : version_of (find_val (trc c) (s2l "VERS") iV (VFloat (s2l "2.0"))) = Some v).
  { unfold find_val. rewrite Fx.
    replace (i_value x) with (i_value (expected_item fstr KVersion c vit))
      by (symmetry; apply (f_equal m_value Mx)).
    apply (reader_version c vit hs ver wrapo ifmt m Hs Hstd Hfs HuV). }
  assert (H30 : las_version_eqb v V30 = false) by (destruct Hstd as [E|E]; rewrite E; reflexivity).
  destruct (first_pass_six ro ls _ _ _ _ _ _ _ _ _ _ _ _ _ _ _ _ _ _ R1 R2 R3 R4 R5
              (conj S1 (conj Y1 U1)) (conj S2 (conj Y2 U2)) (conj S3 (conj Y3 U3)) (conj S4 (conj Y4 U4))
              (conj S5 Y5) Y6 (find_sections ls) Views iV iW iC iP v) as (p6 & Hne & Ht6 & Hb6 & Hfp).
  - rewrite (parse_section_written V20 _ KVersion c ie (hs_lv hs) (stitle_strip _ _)) by (rewrite S1; apply kind_V).
    rewrite (parse_body_version V20 v). exact PV.
  - exact Hver.
  - exact H30.
  - rewrite (parse_section_written v _ KWell c ie (hs_lw hs) (stitle_strip _ _)) by (rewrite S2; apply kind_W). exact PW.
  - rewrite (parse_section_written v _ KCurves c ie (hs_lc hs) (stitle_strip _ _)) by (rewrite S3; apply kind_C). exact PC.
  - rewrite (parse_section_written v _ KParameter c ie (hs_lp hs) (stitle_strip _ _)) by (rewrite S4; apply kind_P). exact PP.
  - exists iV, iW, iC, iP, p6. split; [exact Hne|]. split; [exact Ht6|]. split; [exact Hb6|].
    split; [split; assumption|]. split; [split; assumption|]. split; [split; assumption|].
    split; [split; assumption|]. split; [exact Hver|]. exact Hfp.
Qed.

End WithOracles.
