(* Proofs.SecondCycleItems — list-level lemmas for the second cycle of C11:
   A. the lines section_lines prints depend on the PRINTED metadata of the items only
      (original mnemonic, unit, str(value), description);
   B. look-ups by session mnemonic in a canonical section (Proofs/SecondCycleRead.v): a key whose
      name class holds exactly one item finds that item, unrenamed, at a position, and the class
      counts one;
   C. update_first / set_item / the unit alignment at such a position. *)
From Coq Require Import List Arith NArith ZArith Bool Lia String.
Import ListNotations.
Require Import PyStr Regex NumLit Num HeaderLine Tables SectionParse Sections DataRead Read TextWrap Writer.
Require Import ItemsBindProofs JunkProofs JunkSteering WriteStateProofs WriteIdemProofs WriteHeaderProofs
  SecondCycleRead.
Open Scope string_scope.
Open Scope list_scope.
Open Scope N_scope.

(* ====================================================================================== *)
(* A. printed metadata                                                                     *)
(* ====================================================================================== *)
Section Printed.
Variable fstr : list N -> list N.

Definition pm (it : hitem) : list N * list N * list N * list N :=
  (i_orig it, i_unit it, vstr fstr (i_value it), i_descr it).

(* the item with the value replaced by its text *)
Definition npm (it : hitem) : hitem := mkitem (i_orig it) (i_orig it) (i_unit it) (VStr (vstr fstr (i_value it))) (i_descr it).

Lemma npm_of_pm a b : pm a = pm b -> npm a = npm b.
Proof. unfold pm, npm. intros H. injection H as H1 H2 H3 H4. rewrite H1, H2, H3, H4. reflexivity. Qed.

Lemma map_npm_of_pm : forall a b, map pm a = map pm b -> map npm a = map npm b.
Proof.
  induction a as [|x a IH]; destruct b as [|y b]; cbn [map]; intros H; try discriminate; [reflexivity|].
  assert (H1 : pm x = pm y) by (exact (f_equal (hd (pm x)) H)).
  assert (H2 : map pm a = map pm b) by (exact (f_equal (@tl _) H)).
  rewrite (npm_of_pm x y H1), (IH b H2). reflexivity.
Qed.

Lemma format_item_npm o lw mw it : format_item fstr o lw mw (npm it) = format_item fstr o lw mw it.
Proof. unfold format_item, left_col, rhs_text, tail_text, npm. destruct o; reflexivity. Qed.

Lemma section_lines_npm v sect items :
  section_lines fstr v sect (map npm items) = section_lines fstr v sect items.
Proof.
  unfold section_lines. destruct (lookup_order_entry v sect order_definitions) as [e|]; [|reflexivity].
  f_equal. rewrite !map_map.
  assert (E1 : map (fun x : hitem => List.length (i_orig (npm x))) items = map (fun it : hitem => List.length (i_orig it)) items)
    by reflexivity.
  rewrite E1.
  assert (E2 : map (fun x : hitem =>
                 (List.length (i_unit (npm x)) + 1 +
                  List.length (rhs_text fstr (match order_of v sect (i_orig (npm x)) with Some o => o | None => ValueDescr end) (npm x)))%nat) items
             = map (fun it : hitem =>
                 (List.length (i_unit it) + 1 +
                  List.length (rhs_text fstr (match order_of v sect (i_orig it) with Some o => o | None => ValueDescr end) it))%nat) items).
  { apply map_ext. intros it. cbn [npm i_orig i_unit].
    destruct (match order_of v sect (i_orig it) with Some o => o | None => ValueDescr end); reflexivity. }
  rewrite E2. apply map_ext. intros it. rewrite format_item_npm. reflexivity.
Qed.

Theorem section_lines_pm v sect a b : map pm a = map pm b ->
  section_lines fstr v sect a = section_lines fstr v sect b.
Proof.
  intros H. rewrite <- (section_lines_npm v sect a), <- (section_lines_npm v sect b), (map_npm_of_pm a b H).
  reflexivity.
Qed.

(* changing an item into one that prints alike, at one position *)
Lemma map_pm_upd (f : hitem -> hitem) : forall l p,
  (forall x, nth_error l p = Some x -> pm (f x) = pm x) -> map pm (upd p f l) = map pm l.
Proof.
  induction l as [|y l IH]; intros p H; [reflexivity|]. destruct p as [|p]; cbn [upd map].
  - rewrite (H y eq_refl). reflexivity.
  - rewrite IH; [reflexivity|]. intros x Hx. apply H. exact Hx.
Qed.

End Printed.

(* ====================================================================================== *)
(* C (lists). upd                                                                           *)
(* ====================================================================================== *)
Lemma upd_same {A} (f : A -> A) : forall l p, (forall x, nth_error l p = Some x -> f x = x) -> upd p f l = l.
Proof.
  induction l as [|y l IH]; intros p H; [reflexivity|]. destruct p as [|p]; cbn [upd].
  - rewrite (H y eq_refl). reflexivity.
  - rewrite IH; [reflexivity|]. intros x Hx. apply H. exact Hx.
Qed.

Lemma fidx_lt tr key : forall l p, fidx tr key l = Some p -> (p < List.length l)%nat.
Proof.
  induction l as [|y l IH]; cbn [fidx]; intros p H; [discriminate|].
  destruct (mn_compare tr (i_sess y) key); [injection H as <-; cbn; lia|].
  destruct (fidx tr key l) as [q|]; [|discriminate]. injection H as <-. specialize (IH q eq_refl). cbn. lia.
Qed.

Lemma replace_first_upd tr key new : forall l,
  replace_first tr key new l = match fidx tr key l with Some n => Some (upd n (fun _ => new) l) | None => None end.
Proof.
  induction l as [|it l IH]; cbn [replace_first fidx]; [reflexivity|].
  rewrite (mn_compare_sym tr key (i_sess it)). destruct (mn_compare tr (i_sess it) key); [reflexivity|].
  rewrite IH. destruct (fidx tr key l); reflexivity.
Qed.

Lemma count_matching_upd tr T (f : hitem -> hitem) : forall l p,
  (forall x, nth_error l p = Some x ->
     mn_compare tr (useful (i_orig (f x))) T = mn_compare tr (useful (i_orig x)) T) ->
  count_matching tr T (upd p f l) = count_matching tr T l.
Proof.
  unfold count_matching. induction l as [|y l IH]; intros p H; [reflexivity|].
  destruct p as [|p]; cbn [upd filter].
  - rewrite (H y eq_refl). destruct (mn_compare tr (useful (i_orig y)) T); reflexivity.
  - destruct (mn_compare tr (useful (i_orig y)) T); cbn [List.length];
      rewrite (IH p) by (intros x Hx; apply H; exact Hx); reflexivity.
Qed.

Lemma assign_suffixes_le1 tr test l : (count_matching tr test l <= 1)%nat -> assign_suffixes tr test l = l.
Proof.
  unfold assign_suffixes. intro H. destruct (Nat.ltb 1 (count_matching tr test l)) eqn:E; [|reflexivity].
  apply Nat.ltb_lt in E. lia.
Qed.

(* SectionItems.set_item(key, new) on a section in which `key` finds an item of new's own name
   class and that class has no other member: the item is replaced in place, nothing is renamed *)
Lemma set_item_at tr key new l p :
  fidx tr key l = Some p ->
  (forall x, nth_error l p = Some x ->
     mn_compare tr (useful (i_orig x)) (useful (i_orig new)) = true) ->
  (count_matching tr (useful (i_orig new)) l <= 1)%nat ->
  set_item tr key new l = upd p (fun _ => new) l.
Proof.
  intros Hp Hc Hn. unfold set_item. rewrite replace_first_upd, Hp.
  apply assign_suffixes_le1.
  rewrite (count_matching_upd tr (useful (i_orig new)) (fun _ => new) l p); [exact Hn|].
  intros x Hx. rewrite (Hc x Hx). apply mnc_refl.
Qed.

(* ====================================================================================== *)
(* B. look-ups in a canonical section                                                      *)
(* ====================================================================================== *)
Lemma sect_append_single_ tr x : sect_append tr [] x = [x].
Proof.
  unfold sect_append, assign_suffixes, count_matching. cbn [app filter].
  destruct (mn_compare tr (useful (i_orig x)) (useful (i_orig x))); reflexivity.
Qed.

Section Lookup.
Variable tr : bool.
Variable key : list N.
Hypothesis key_plain : in_str ch_colon key = false.

Lemma count_matching_K l : count_matching tr key l = List.length (K tr key l).
Proof. reflexivity. Qed.

Lemma canon_class its : K tr key (append_all tr [] its) = append_all tr [] (filter (inclass tr key) its).
Proof. rewrite K_append_all. reflexivity. Qed.

Lemma plain_wf x : plain x -> sess_wf x.
Proof. intros H. left. exact H. Qed.

Lemma canon_wf its : Forall plain its -> Forall (sess_wf) (append_all tr [] its).
Proof.
  intros H. apply append_all_wf; [constructor|]. eapply Forall_impl; [|exact H]. intros x Hx. apply plain_wf. exact Hx.
Qed.

Theorem canon_find_unique its x :
  Forall plain its -> filter (inclass tr key) its = [x] ->
  exists p, fidx tr key (append_all tr [] its) = Some p /\
            nth_error (append_all tr [] its) p = Some x /\
            count_matching tr key (append_all tr [] its) = 1%nat /\
            plain x /\ inclass tr key x = true.
Proof.
  intros Hp Hf.
  assert (Hin : In x (filter (inclass tr key) its)) by (rewrite Hf; left; reflexivity).
  apply filter_In in Hin as [Hin Hc]. rewrite Forall_forall in Hp. pose proof (Hp x Hin) as Hx.
  assert (Hs : sect_find tr key (append_all tr [] its) = Some x).
  { rewrite (sect_find_class tr key key_plain) by (apply canon_wf; apply Forall_forall; exact Hp).
    rewrite canon_class, Hf. unfold append_all. cbn [fold_left]. rewrite sect_append_single_.
    cbn [sect_find]. rewrite Hx. unfold inclass in Hc. rewrite Hc. reflexivity. }
  rewrite sect_find_nth in Hs. destruct (fidx tr key (append_all tr [] its)) as [p|] eqn:Ep; [|discriminate].
  exists p. split; [reflexivity|]. split; [exact Hs|]. split; [|split; assumption].
  rewrite count_matching_K, canon_class, Hf. unfold append_all. cbn [fold_left]. rewrite sect_append_single_. reflexivity.
Qed.

Theorem canon_find_absent its :
  Forall plain its -> filter (inclass tr key) its = [] -> fidx tr key (append_all tr [] its) = None.
Proof.
  intros Hp Hf.
  assert (Hs : sect_find tr key (append_all tr [] its) = None).
  { rewrite (sect_find_class tr key key_plain) by (apply canon_wf; exact Hp). rewrite canon_class, Hf. reflexivity. }
  rewrite sect_find_nth in Hs. destruct (fidx tr key (append_all tr [] its)) as [p|] eqn:Ep; [|reflexivity].
  apply fidx_lt in Ep. apply nth_error_Some in Ep. congruence.
Qed.

End Lookup.
