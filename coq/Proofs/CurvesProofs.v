(* Proofs.CurvesProofs — C14: Model.Curves refines the list model of Model.CurvesSpec; the views
   agree with it; the C13 invariant is kept by every curve operation. *)
From Coq Require Import List NArith ZArith Bool String Lia ZifyBool ZifyN ZifyNat Permutation.
Import ListNotations.
Require Import PyStr Items ItemsSpec ItemsProofs ItemsInvProofs Curves CurvesSpec.
Open Scope N_scope.

(* ======================================================================================= *)
(* generic list facts                                                                        *)

Lemma map_update_at_comm : forall {A B} (g : A -> B) (f : A -> A) (f' : B -> B) (l : list A) n,
  (forall a, g (f a) = f' (g a)) -> List.map g (update_at n f l) = update_at n f' (List.map g l).
Proof.
  intros A B g f f' l. induction l as [|a l IH]; intros n H; simpl; [reflexivity|].
  destruct n as [|n]; simpl; [rewrite H; reflexivity|]. rewrite IH; auto.
Qed.

Lemma insert_remove_replace : forall {A} (l : list A) n x, (n < List.length l)%nat ->
  insert_at n x (remove_at n l) = replace_at n x l.
Proof.
  intros A. induction l as [|a l IH]; intros n x H; simpl in H; [lia|].
  destruct n as [|n]; simpl; [destruct l; reflexivity|].
  destruct l as [|b l']; [simpl in H; lia|].
  simpl remove_at. simpl insert_at. f_equal. apply (IH n x). simpl in *. lia.
Qed.

Lemma py_insert_map : forall {A B} (g : A -> B) i x (l : list A),
  List.map g (py_insert i x l) = py_insert i (g x) (List.map g l).
Proof. intros. unfold py_insert. rewrite map_insert_at, map_length. reflexivity. Qed.

Lemma py_insert_end : forall {A} (l : list A) x, py_insert (Z.of_nat (List.length l)) x l = l ++ [x].
Proof.
  intros A l x. unfold py_insert.
  assert (py_clamp (List.length l) (Z.of_nat (List.length l)) = List.length l) as E.
  { unfold py_clamp. destruct (Z.of_nat (List.length l) <? 0)%Z eqn:C; lia. }
  rewrite E. apply insert_at_end.
Qed.

Lemma py_del_map : forall {A B} (g : A -> B) i (l : list A),
  py_del i (List.map g l) = option_map (List.map g) (py_del i l).
Proof.
  intros. unfold py_del. rewrite map_length. destruct (py_index _ _); simpl; [|reflexivity].
  rewrite map_remove_at. reflexivity.
Qed.

Lemma py_set_map : forall {A B} (g : A -> B) i x (l : list A),
  py_set i (g x) (List.map g l) = option_map (List.map g) (py_set i x l).
Proof.
  intros. unfold py_set. rewrite map_length. destruct (py_index _ _); simpl; [|reflexivity].
  rewrite map_replace_at. reflexivity.
Qed.

Lemma nth_seq_self : forall (d : list N), List.map (fun j => nth j d 0) (seq 0 (List.length d)) = d.
Proof.
  induction d as [|a d IH]; simpl; [reflexivity|]. f_equal.
  rewrite <- seq_shift, map_map. exact IH.
Qed.

(* ======================================================================================= *)
(* abs ignores session mnemonics                                                             *)

Definition entry_of_payload (p : list N * list N * list N * list N * list N * bool) : entry :=
  match p with (o, u, v, d, dat, _) => (o, (u, v, d), dat) end.
Lemma abs_payload : forall l, List.map abs_item l = List.map entry_of_payload (List.map payload l).
Proof. intro l. rewrite map_map. apply map_ext. intros []. reflexivity. Qed.

Lemma abs_assign : forall t s, abs (assign_suffixes t s) = abs s.
Proof. intros. unfold abs. rewrite !abs_payload, assign_payload. reflexivity. Qed.

Lemma fold_assign_abs : forall ts s, abs (fold_left (fun acc t => assign_suffixes t acc) ts s) = abs s.
Proof. induction ts as [|t ts IH]; intro s; simpl; [reflexivity|]. rewrite IH. apply abs_assign. Qed.
Lemma abs_assign_all : forall s, abs (assign_all s) = abs s.
Proof. intro s. unfold assign_all. apply fold_assign_abs. Qed.

Lemma fold_assign_length : forall ts s,
  List.length (items (fold_left (fun acc t => assign_suffixes t acc) ts s)) = List.length (items s).
Proof. induction ts as [|t ts IH]; intro s; simpl; [reflexivity|]. rewrite IH. apply assign_length. Qed.

Lemma abs_length : forall s, List.length (abs s) = List.length (items s).
Proof. intro s. unfold abs. apply map_length. Qed.

Lemma abs_insert : forall s i it, abs (insert s i it) = py_insert i (abs_item it) (abs s).
Proof. intros. unfold insert. rewrite abs_assign. unfold abs. simpl. apply py_insert_map. Qed.

Lemma abs_append : forall s it, abs (append s it) = abs s ++ [abs_item it].
Proof. intros. unfold append. rewrite abs_assign. unfold abs. simpl. apply map_app. Qed.

Lemma abs_new_curve : forall a, abs_item (new_curve a) = entry_of a.
Proof. reflexivity. Qed.

(* ======================================================================================= *)
(* one operation                                                                             *)

Lemma refine_insert_item : forall s ix a,
  ires_map abs (insert_curve_item s ix (CItem a)) = IOk (py_insert ix (entry_of a) (abs s)).
Proof. intros. simpl. rewrite abs_insert. reflexivity. Qed.

Lemma refine_append_item : forall s a,
  ires_map abs (append_curve_item s (CItem a)) = IOk (abs s ++ [entry_of a]).
Proof.
  intros. unfold append_curve_item. rewrite refine_insert_item. unfold len_z.
  rewrite <- abs_length. rewrite py_insert_end. reflexivity.
Qed.

Lemma refine_pop : forall s z,
  ires_map abs (pop_curve s z) = match py_del z (abs s) with Some l => IOk l | None => IErr IndexError end.
Proof.
  intros. unfold pop_curve, abs. rewrite py_del_map. destruct (py_del z (items s)); reflexivity.
Qed.

Lemma abs_apply_upd : forall u it, abs_item (apply_upd u it) = upd_entry u (abs_item it).
Proof. intros. reflexivity. Qed.

Lemma refine_update_at : forall s z u,
  ires_map abs (update_at_ix s z u) = spec_step (abs s) (SUpdate z u).
Proof.
  intros. unfold update_at_ix. simpl. rewrite abs_length.
  destruct (py_index (List.length (items s)) z) as [n|]; simpl; [|reflexivity].
  unfold abs. simpl. rewrite (map_update_at_comm abs_item (apply_upd u) (upd_entry u)); [reflexivity|].
  intro a. apply abs_apply_upd.
Qed.

Lemma replace_as_list : forall s ix a,
  replace_curve_item s ix a =
  match py_index (List.length (items s)) ix with
  | Some n => IOk (assign_suffixes (useful (new_curve a)) (with_items s (replace_at n (new_curve a) (items s))))
  | None => IErr IndexError
  end.
Proof.
  intros s ix a. unfold replace_curve_item, pop_curve, py_del.
  destruct (py_index (List.length (items s)) ix) as [n|] eqn:P; [|reflexivity].
  pose proof (py_index_lt _ _ _ P) as Hlt.
  pose proof (remove_at_length (items s) n Hlt) as Hlen.
  simpl. unfold insert. f_equal. f_equal. unfold with_items. simpl. f_equal.
  unfold py_insert, len_z.
  assert (py_clamp (List.length (remove_at n (items s)))
                   (if (ix <? 0)%Z then (ix + Z.of_nat (List.length (items s)))%Z else ix) = n) as E.
  { apply py_index_spec in P. unfold py_clamp.
    destruct P as [[H1 H2]|[H1 H2]]; subst n.
    - destruct (ix <? 0)%Z eqn:C; [lia|]. rewrite C. lia.
    - destruct (ix <? 0)%Z eqn:C; [|lia].
      destruct (ix + Z.of_nat (List.length (items s)) <? 0)%Z eqn:C2; lia. }
  rewrite E. apply insert_remove_replace. assumption.
Qed.

Lemma refine_replace : forall s ix a,
  ires_map abs (replace_curve_item s ix a) = spec_step (abs s) (SReplace ix (entry_of a)).
Proof.
  intros. rewrite replace_as_list. simpl. rewrite <- abs_new_curve. unfold abs at 2.
  rewrite py_set_map. unfold py_set.
  destruct (py_index (List.length (items s)) ix) as [n|]; simpl; [|reflexivity].
  rewrite abs_assign. reflexivity.
Qed.

Lemma resolve_addr_cases : forall ks mn ix (f : Z -> sop),
  resolve_pos ks mn ix f = match resolve_addr ks mn ix with IOk z => f z | IErr e => SReject e end.
Proof. reflexivity. Qed.

(* ---- set_data --------------------------------------------------------------------------- *)
Lemma extend_abs : forall k s, abs (extend s k) = abs s ++ repeat blank_entry k.
Proof.
  induction k as [|k IH]; intro s; simpl; [rewrite app_nil_r; reflexivity|].
  rewrite IH, abs_append, <- app_assoc. reflexivity.
Qed.

Lemma names_for_spec : forall s names, names_for s names = spec_names (abs s) names.
Proof.
  intros s names. unfold names_for, spec_names, pad_names, origs, abs.
  rewrite map_length.
  assert (List.map orig (items s) = List.map e_name (List.map abs_item (items s))) as E.
  { rewrite map_map. apply map_ext. reflexivity. }
  destruct names as [[|m l]|]; try exact E. reflexivity.
Qed.

Lemma bind_abs : forall its names cols,
  List.map abs_item (bind_cols its names cols) = spec_bind (List.map abs_item its) names cols.
Proof.
  induction its as [|it r IH]; intros names cols; simpl; [reflexivity|].
  destruct names as [|m nr]; [reflexivity|]. destruct cols as [|c cr]; [reflexivity|].
  simpl. rewrite IH. reflexivity.
Qed.

Lemma refine_set_data : forall s a names t,
  ires_map abs (set_data s a names t) = spec_set_data (abs s) a names t.
Proof.
  intros s a names t. unfold set_data, spec_set_data. rewrite abs_length.
  destruct a as [d|cols0].
  - destruct t; [reflexivity|]. destruct d; simpl; [rewrite abs_assign_all|]; reflexivity.
  - set (cols := if t then firstn (List.length (items s)) cols0 else cols0).
    destruct (size_pos cols); [|simpl; rewrite abs_assign_all; reflexivity].
    destruct (Nat.ltb (List.length cols) (List.length (items s))); [reflexivity|].
    simpl. rewrite abs_assign_all. unfold abs at 1. simpl. rewrite bind_abs.
    fold (abs (extend s (List.length cols - List.length (items s)))).
    rewrite names_for_spec, extend_abs. reflexivity.
Qed.

(* the lengths bind_cols is called with: never short of names or columns *)
Lemma extend_length : forall k s, List.length (items (extend s k)) = (List.length (items s) + k)%nat.
Proof.
  intros k s. rewrite <- (abs_length (extend s k)), <- (abs_length s), extend_abs, app_length, repeat_length.
  reflexivity.
Qed.
Lemma names_for_length : forall s names, (List.length (items s) <= List.length (names_for s names))%nat.
Proof.
  intros s names. unfold names_for, pad_names, origs.
  destruct names as [[|m l]|]; try (rewrite map_length; lia).
  rewrite app_length, repeat_length. lia.
Qed.
Lemma set_data_lengths : forall s (cols : list (list N)) names,
  (List.length (items s) <= List.length cols)%nat ->
  let s1 := extend s (List.length cols - List.length (items s)) in
  (List.length (items s1) <= List.length (names_for s1 names))%nat /\ List.length (items s1) = List.length cols.
Proof. intros. split; [apply names_for_length|]. unfold s1. rewrite extend_length. lia. Qed.

(* ---- the refinement equation ------------------------------------------------------------ *)
Theorem refine : forall s o, ires_map abs (step s o) = spec_step (abs s) (resolve (keys s) o).
Proof.
  intros s o. destruct o as [a|ix a|x|ix x|mn ix|mn ix u|ix a|k v|a names t]; simpl step; simpl resolve.
  - unfold append_curve, insert_curve. apply (refine_append_item s a).
  - unfold insert_curve. apply refine_insert_item.
  - destruct x as [a|]; [apply refine_append_item|reflexivity].
  - destruct x as [a|]; [apply refine_insert_item|reflexivity].
  - unfold delete_curve. rewrite resolve_addr_cases.
    destruct (resolve_addr (keys s) mn ix) as [z|e]; [|reflexivity]. apply refine_pop.
  - unfold update_curve. rewrite resolve_addr_cases.
    destruct (resolve_addr (keys s) mn ix) as [z|e]; [|reflexivity]. apply refine_update_at.
  - apply refine_replace.
  - destruct v as [d|a]; simpl.
    + destruct (key_index (keys s) k) as [n|] eqn:K.
      * unfold update_curve. simpl. rewrite K. apply refine_update_at.
      * unfold append_curve, insert_curve. apply (refine_append_item s (mkCargs k [] [] [] d)).
    + destruct (negb (str_eqb k (useful_of (c_mnem a)))); [reflexivity|].
      destruct (key_index (keys s) k) as [n|]; [apply refine_replace|apply refine_append_item].
  - apply refine_set_data.
Qed.

(* ---- every history ---------------------------------------------------------------------- *)
Lemma refine_keep : forall s o, abs (step_keep s o) = spec_keep (abs s) (resolve (keys s) o).
Proof.
  intros s o. unfold step_keep, spec_keep. rewrite <- refine.
  destruct (step s o); reflexivity.
Qed.
Lemma refine_outcome : forall s o, outcome (step s o) = outcome (spec_step (abs s) (resolve (keys s) o)).
Proof. intros s o. rewrite <- refine. destruct (step s o); reflexivity. Qed.

Theorem refinement : forall ops s, abs (run s ops) = fold_left spec_keep (resolved s ops) (abs s).
Proof.
  induction ops as [|o ops IH]; intro s; simpl; [reflexivity|].
  unfold run in *. simpl. rewrite IH, refine_keep. reflexivity.
Qed.
Theorem outcomes_agree : forall ops s, outcomes s ops = spec_outcomes (abs s) (resolved s ops).
Proof.
  induction ops as [|o ops IH]; intro s; simpl; [reflexivity|].
  rewrite refine_outcome, IH, refine_keep. reflexivity.
Qed.

(* ======================================================================================= *)
(* the views                                                                                 *)

Lemma obs_values : forall s, values s = spec_values (abs s).
Proof. intro s. unfold values, spec_values, abs. rewrite map_map. reflexivity. Qed.

Lemma obs_items : forall s, las_items s = combine (keys s) (values s).
Proof.
  intro s. unfold las_items, keys, values. induction (items s) as [|a l IH]; simpl; [reflexivity|].
  rewrite IH. reflexivity.
Qed.

Lemma obs_int : forall s z, las_getitem s (KInt z) = spec_int (abs s) z.
Proof.
  intros s z. unfold las_getitem, spec_int, getitem, py_get. simpl. rewrite abs_length.
  destruct (py_index (List.length (items s)) z) as [n|] eqn:P; [|reflexivity].
  unfold abs. rewrite nth_error_map.
  pose proof (py_index_lt _ _ _ P) as Hlt. apply nth_error_Some in Hlt.
  destruct (nth_error (items s) n) as [it|]; [reflexivity|contradiction].
Qed.

Lemma obs_index : forall s, las_index s = spec_int (abs s) 0.
Proof. intro s. apply obs_int. Qed.

(* I1 (distinct under the section's comparison) gives exact distinctness *)
Lemma I1_exact : forall s i j a b, I1 s -> i <> j ->
  nth_error (items s) i = Some a -> nth_error (items s) j = Some b -> sess a <> sess b.
Proof.
  intros s i j a b H N Ea Eb E. specialize (H i j a b N Ea Eb). rewrite E, cmp_refl in H. discriminate.
Qed.

Lemma key_index_own : forall s n k, I1 s -> nth_error (keys s) n = Some k -> key_index (keys s) k = Some n.
Proof.
  intros s n k H E. unfold key_index. apply (find_ix_intro _ _ n k E); [apply str_eqb_refl|].
  intros m y Hm Ey. apply str_eqb_neq. intro F. subst y.
  unfold keys in E, Ey. rewrite nth_error_map in E, Ey.
  destruct (nth_error (items s) n) as [a|] eqn:Ea; [|discriminate].
  destruct (nth_error (items s) m) as [b|] eqn:Eb; [|discriminate].
  simpl in E, Ey. inversion E. inversion Ey. apply (I1_exact s m n b a H); [lia|assumption|assumption|congruence].
Qed.

Lemma key_index_sound : forall ks k n, key_index ks k = Some n -> nth_error ks n = Some k.
Proof.
  intros ks k n H. unfold key_index in H. apply find_ix_Some in H. destruct H as [x [E [P _]]].
  apply str_eqb_eq in P. subst x. exact E.
Qed.

Lemma obs_key : forall s n k, I1 s -> nth_error (keys s) n = Some k ->
  las_getitem s (KStr k) = spec_int (abs s) (Z.of_nat n).
Proof.
  intros s n k H E. unfold keys in E. rewrite nth_error_map in E.
  destruct (nth_error (items s) n) as [it|] eqn:Ei; [|discriminate]. simpl in E. inversion E; subst k.
  rewrite <- obs_int. unfold las_getitem.
  assert (existsb (str_eqb (sess it)) (keys s) = true) as X.
  { apply existsb_exists. exists (sess it). split; [|apply str_eqb_refl].
    unfold keys. apply in_map. eapply nth_error_In; eauto. }
  rewrite X. destruct (I1_I2 s H n it Ei) as [_ G]. rewrite G.
  assert (getitem s (KInt (Z.of_nat n)) = IOk it) as G2.
  { apply getitem_lookup. exists n. split; [|assumption]. simpl.
    assert (n < List.length (items s))%nat as Hlt by (apply nth_error_Some; congruence).
    assert (py_index (List.length (items s)) (Z.of_nat n) = Some n) as P.
    { apply py_index_spec. left. split; lia. }
    rewrite P. reflexivity. }
  rewrite G2. reflexivity.
Qed.

Lemma obs_missing_key : forall s k, ~ In k (keys s) -> las_getitem s (KStr k) = IErr KeyError.
Proof.
  intros s k H. unfold las_getitem.
  destruct (existsb (str_eqb k) (keys s)) eqn:X; [|reflexivity].
  apply existsb_exists in X. destruct X as [x [Hx E]]. apply str_eqb_eq in E. subst x. contradiction.
Qed.

Lemma key_index_missing : forall ks k, ~ In k ks <-> key_index ks k = None.
Proof.
  intros ks k. unfold key_index. rewrite find_ix_None. split.
  - intros H x Hx. apply str_eqb_neq. intro E. subst x. contradiction.
  - intros H Hk. specialize (H k Hk). rewrite str_eqb_refl in H. discriminate.
Qed.

(* get_curve returns the first curve with that session mnemonic: under I1, curve n for key n *)
Lemma find_first : forall {A} (p : A -> bool) l n x,
  nth_error l n = Some x -> p x = true ->
  (forall m y, (m < n)%nat -> nth_error l m = Some y -> p y = false) -> List.find p l = Some x.
Proof.
  intros A p. induction l as [|a l IH]; intros n x E P F; [destruct n; discriminate|].
  destruct n as [|n]; simpl in *.
  - inversion E; subst. rewrite P. reflexivity.
  - rewrite (F O a); [|lia|reflexivity]. apply (IH n x E P).
    intros m y Hm Ey. apply (F (S m) y); [lia|exact Ey].
Qed.
Lemma obs_get_curve : forall s n it, I1 s -> nth_error (items s) n = Some it -> get_curve s (sess it) = Some it.
Proof.
  intros s n it H E. unfold get_curve. apply (find_first _ _ n it E); [apply str_eqb_refl|].
  intros m y Hm Ey. apply str_eqb_neq. apply (I1_exact s m n y it H); [lia|assumption|assumption].
Qed.

(* ---- data ---------------------------------------------------------------------------------- *)
Lemma common_len_spec : forall cols r, common_len cols = Some r ->
  forall d, In d cols -> List.length d = r.
Proof.
  intros cols r H d Hd. destruct cols as [|c rest]; [contradiction|]. simpl in H.
  destruct (forallb _ rest) eqn:F; [|discriminate]. inversion H; subst r.
  destruct Hd as [Hd|Hd]; [subst; reflexivity|].
  rewrite forallb_forall in F. specialize (F d Hd). apply Nat.eqb_eq in F. exact F.
Qed.

Lemma common_len_complete : forall cols r, (forall d, In d cols -> List.length d = r) ->
  cols <> [] -> common_len cols = Some r.
Proof.
  intros cols r H N. destruct cols as [|c rest]; [contradiction|]. simpl.
  assert (forallb (fun d => Nat.eqb (List.length d) (List.length c)) rest = true) as F.
  { apply forallb_forall. intros d Hd. apply Nat.eqb_eq.
    rewrite (H d (or_intror Hd)), (H c (or_introl eq_refl)). reflexivity. }
  rewrite F. rewrite (H c (or_introl eq_refl)). reflexivity.
Qed.

Lemma common_len_ragged : forall cols a b, In a cols -> In b cols -> List.length a <> List.length b ->
  common_len cols = None.
Proof.
  intros cols a b Ha Hb N. destruct (common_len cols) as [r|] eqn:C; [|reflexivity].
  rewrite (common_len_spec cols r C a Ha), (common_len_spec cols r C b Hb) in N. contradiction.
Qed.

Lemma obs_data_defined : forall s r, items s <> [] ->
  (forall it, In it (items s) -> List.length (it_data it) = r) ->
  las_data s = IOk (transpose r (values s)) /\ las_data_shape s = IOk (r, List.length (items s)).
Proof.
  intros s r N H. unfold las_data, las_data_shape.
  assert (common_len (values s) = Some r) as C.
  { apply common_len_complete.
    - intros d Hd. unfold values in Hd. apply in_map_iff in Hd. destruct Hd as [it [E Hit]]. subst d. auto.
    - unfold values. destruct (items s); [contradiction|discriminate]. }
  rewrite C. split; reflexivity.
Qed.

Lemma obs_data_empty : forall s, items s = [] -> las_data s = IOk [] /\ las_data_shape s = IOk (O, O).
Proof. intros s E. unfold las_data, las_data_shape, values. rewrite E. split; reflexivity. Qed.

Lemma obs_data_ragged : forall s a b, In a (items s) -> In b (items s) ->
  List.length (it_data a) <> List.length (it_data b) ->
  las_data s = IErr ValueError /\ las_data_shape s = IErr ValueError.
Proof.
  intros s a b Ha Hb N. unfold las_data, las_data_shape.
  rewrite (common_len_ragged (values s) (it_data a) (it_data b)); [split; reflexivity| | |assumption];
    unfold values; apply in_map; assumption.
Qed.

Lemma obs_data_columns : forall s rows i it, las_data s = IOk rows -> nth_error (items s) i = Some it ->
  column i rows = List.map Some (it_data it).
Proof.
  intros s rows i it D E. unfold las_data in D.
  destruct (common_len (values s)) as [r|] eqn:C; [|discriminate]. inversion D; subst rows. clear D.
  assert (List.length (it_data it) = r) as L.
  { apply (common_len_spec _ _ C). unfold values. apply in_map. eapply nth_error_In; eauto. }
  unfold column, transpose. rewrite map_map.
  assert (forall j, nth_error (List.map (fun c => nth j c 0) (values s)) i = Some (nth j (it_data it) 0)) as Q.
  { intro j. unfold values. rewrite map_map, nth_error_map, E. reflexivity. }
  rewrite (map_ext _ (fun j => Some (nth j (it_data it) 0)) Q).
  rewrite <- L. rewrite <- (map_map (fun j => nth j (it_data it) 0) Some). rewrite nth_seq_self. reflexivity.
Qed.

(* ======================================================================================= *)
(* several LASFiles                                                                          *)

Lemma replace_at_other : forall {A} (l : list A) t x j, j <> t -> nth_error (replace_at t x l) j = nth_error l j.
Proof.
  intros A. induction l as [|a l IH]; intros t x j N; simpl; [reflexivity|].
  destruct t as [|t]; destruct j as [|j]; simpl; try reflexivity; [contradiction|]. apply IH. lia.
Qed.
Lemma replace_at_same : forall {A} (l : list A) t x y, nth_error l t = Some y -> nth_error (replace_at t x l) t = Some x.
Proof.
  intros A. induction l as [|a l IH]; intros t x y E; [destruct t; discriminate|].
  destruct t as [|t]; simpl in *; [reflexivity|]. eapply IH; eauto.
Qed.

Lemma wstep_other : forall w t o j, j <> t -> nth_error (wstep w t o) j = nth_error w j.
Proof.
  intros w t o j N. unfold wstep. destruct (nth_error w t); [|reflexivity]. apply replace_at_other. assumption.
Qed.
Lemma wstep_target : forall w t o, nth_error (wstep w t o) t = option_map (fun s => step_keep s o) (nth_error w t).
Proof.
  intros w t o. unfold wstep. destruct (nth_error w t) as [s|] eqn:E; simpl; [|assumption].
  eapply replace_at_same; eauto.
Qed.

Theorem wrun_projection : forall ops w t,
  nth_error (wrun w ops) t = option_map (fun s => run s (ops_of t ops)) (nth_error w t).
Proof.
  induction ops as [|[u o] ops IH]; intros w t; unfold wrun in *; simpl.
  - destruct (nth_error w t); reflexivity.
  - rewrite IH. unfold ops_of. simpl. destruct (Nat.eqb u t) eqn:Q.
    + apply Nat.eqb_eq in Q. subst u. rewrite wstep_target. destruct (nth_error w t); reflexivity.
    + apply Nat.eqb_neq in Q. rewrite wstep_other; [reflexivity|congruence].
Qed.

(* ======================================================================================= *)
(* the refinement equation, operation by operation (as stated in Props/C14.v)               *)

Lemma refine_append_curve : forall s a,
  ires_map abs (append_curve s a) = IOk (abs s ++ [entry_of a]).
Proof. intros. apply (refine_append_item s a). Qed.

Lemma refine_insert_curve : forall s ix a,
  ires_map abs (insert_curve s ix a) = IOk (py_insert ix (entry_of a) (abs s)).
Proof. intros. apply refine_insert_item. Qed.

Lemma refine_append_curve_item : forall s x,
  ires_map abs (append_curve_item s x) =
  match x with CItem a => IOk (abs s ++ [entry_of a]) | NotCurveItem => IErr AssertionError end.
Proof. intros s [a|]; [apply refine_append_item|reflexivity]. Qed.

Lemma refine_insert_curve_item : forall s ix x,
  ires_map abs (insert_curve_item s ix x) =
  match x with CItem a => IOk (py_insert ix (entry_of a) (abs s)) | NotCurveItem => IErr AssertionError end.
Proof. intros s ix [a|]; [apply refine_insert_item|reflexivity]. Qed.

Lemma refine_delete_curve : forall s mn ix,
  ires_map abs (delete_curve s mn ix) =
  match resolve_addr (keys s) mn ix with
  | IOk z => match py_del z (abs s) with Some l => IOk l | None => IErr IndexError end
  | IErr e => IErr e
  end.
Proof.
  intros. unfold delete_curve. destruct (resolve_addr (keys s) mn ix) as [z|e]; [apply refine_pop|reflexivity].
Qed.

Lemma refine_update_curve : forall s mn ix u,
  ires_map abs (update_curve s mn ix u) =
  match resolve_addr (keys s) mn ix with
  | IOk z => match py_index (List.length (abs s)) z with
             | Some n => IOk (update_at n (upd_entry u) (abs s))
             | None => IErr IndexError
             end
  | IErr e => IErr e
  end.
Proof.
  intros. unfold update_curve. destruct (resolve_addr (keys s) mn ix) as [z|e]; [|reflexivity].
  apply refine_update_at.
Qed.

Lemma refine_replace_curve_item : forall s ix a,
  ires_map abs (replace_curve_item s ix a) =
  match py_set ix (entry_of a) (abs s) with Some l => IOk l | None => IErr IndexError end.
Proof. intros. apply refine_replace. Qed.

Lemma refine_setitem : forall s k v,
  ires_map abs (setitem s k v) = spec_step (abs s) (resolve (keys s) (OSetItem k v)).
Proof. intros. apply (refine s (OSetItem k v)). Qed.

(* the four branches spelled out *)
Lemma refine_setitem_array_present : forall s k d n, key_index (keys s) k = Some n ->
  ires_map abs (setitem s k (VArr d)) = spec_step (abs s) (SUpdate (Z.of_nat n) (mkUpd (Some d) None None None)).
Proof. intros s k d n K. rewrite refine_setitem. simpl. rewrite K. reflexivity. Qed.
Lemma refine_setitem_array_missing : forall s k d, key_index (keys s) k = None ->
  ires_map abs (setitem s k (VArr d)) = IOk (abs s ++ [(k, ([], [], []), d)]).
Proof. intros s k d K. rewrite refine_setitem. simpl. rewrite K. reflexivity. Qed.
Lemma refine_setitem_item_mismatch : forall s k a, k <> useful_of (c_mnem a) ->
  setitem s k (VItem a) = IErr KeyError.
Proof.
  intros s k a N. unfold setitem. simpl. apply str_eqb_neq in N. rewrite N. reflexivity.
Qed.
Lemma refine_setitem_item_present : forall s k a n, k = useful_of (c_mnem a) -> key_index (keys s) k = Some n ->
  ires_map abs (setitem s k (VItem a)) = spec_step (abs s) (SReplace (Z.of_nat n) (entry_of a)).
Proof.
  intros s k a n E K. rewrite refine_setitem. simpl. rewrite <- E, str_eqb_refl, K. reflexivity.
Qed.
Lemma refine_setitem_item_missing : forall s k a, k = useful_of (c_mnem a) -> key_index (keys s) k = None ->
  ires_map abs (setitem s k (VItem a)) = IOk (abs s ++ [entry_of a]).
Proof.
  intros s k a E K. rewrite refine_setitem. simpl. rewrite <- E, str_eqb_refl, K. reflexivity.
Qed.
