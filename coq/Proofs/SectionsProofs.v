(* Proofs.SectionsProofs — find_sections cuts a file exactly at its title lines: every
   body is delimited exactly (inner and last sections alike), nothing is dropped or shared. *)
From Coq Require Import List Arith NArith Bool Lia.
Import ListNotations.
Require Import PyStr Regex Sections.
Open Scope N_scope.

Definition is_title (l : list N) : bool := startswith [ch_tilde] (strip l).

(* a block: a title line followed by body lines none of which is a title *)
Definition block := (list N * list (list N))%type.
Definition wf_block (b : block) : Prop :=
  is_title (fst b) = true /\ forallb (fun l => negb (is_title l)) (snd b) = true.
Definition render_block (b : block) : list (list N) := fst b :: snd b.
Definition render (bs : list block) : list (list N) := flat_map render_block bs.

Fixpoint starts_of (bs : list block) (i : nat) : list (nat * list N) :=
  match bs with
  | [] => []
  | b :: bs' => (i, strip (fst b)) :: starts_of bs' (i + S (List.length (snd b)))
  end.

Fixpoint positions (bs : list block) (i n : nat) : list spos :=
  match bs with
  | [] => []
  | [b] => [mkspos i n (strip (fst b))]
  | b :: ((_ :: _) as bs') =>
      mkspos i (i + List.length (snd b)) (strip (fst b)) :: positions bs' (i + S (List.length (snd b))) n
  end.

Lemma find_starts_notitle : forall ls i,
  forallb (fun l => negb (is_title l)) ls = true -> find_starts ls i = [].
Proof.
  induction ls as [|l ls IH]; intros i H; cbn [find_starts]; [reflexivity|].
  cbn [forallb] in H. apply andb_true_iff in H as [Hl H]. apply negb_true_iff in Hl.
  unfold is_title in Hl. rewrite Hl. apply IH. exact H.
Qed.

Lemma find_starts_app : forall a b i,
  find_starts (a ++ b) i = find_starts a i ++ find_starts b (i + List.length a).
Proof.
  induction a as [|l a IH]; intros b i; cbn [app find_starts List.length].
  - rewrite Nat.add_0_r. reflexivity.
  - rewrite IH. replace (S i + List.length a)%nat with (i + S (List.length a))%nat by lia.
    destruct (startswith [ch_tilde] (strip l)); reflexivity.
Qed.

Lemma find_starts_blocks : forall bs i, Forall wf_block bs ->
  find_starts (render bs) i = starts_of bs i.
Proof.
  induction bs as [|b bs IH]; intros i H; [reflexivity|].
  inversion H as [|b' bs' [Ht Hb] Hrest]; subst.
  cbn [render flat_map]. change (flat_map render_block bs) with (render bs).
  unfold render_block at 1. cbn [app find_starts starts_of]. unfold is_title in Ht. rewrite Ht.
  rewrite find_starts_app, (find_starts_notitle _ _ Hb). cbn [app].
  rewrite IH by exact Hrest. f_equal. f_equal. lia.
Qed.

Lemma render_length_cons b bs :
  List.length (render (b :: bs)) = S (List.length (snd b) + List.length (render bs)).
Proof. cbn [render flat_map render_block]. cbn [List.length]. rewrite app_length. reflexivity. Qed.

Lemma with_ends_cons2 i t j t2 rest n :
  with_ends ((i, t) :: (j, t2) :: rest) n = mkspos i (j - 1) t :: with_ends ((j, t2) :: rest) n.
Proof. reflexivity. Qed.
Lemma positions_cons2 b b2 bs i n :
  positions (b :: b2 :: bs) i n =
  mkspos i (i + List.length (snd b)) (strip (fst b)) :: positions (b2 :: bs) (i + S (List.length (snd b))) n.
Proof. reflexivity. Qed.

Lemma with_ends_blocks : forall bs i n,
  with_ends (starts_of bs i) n = positions bs i n.
Proof.
  induction bs as [|b bs IH]; intros i n; [reflexivity|].
  destruct bs as [|b2 bs]; [reflexivity|].
  change (starts_of (b :: b2 :: bs) i) with
    ((i, strip (fst b)) :: (i + S (List.length (snd b)), strip (fst b2))%nat
       :: starts_of bs (i + S (List.length (snd b)) + S (List.length (snd b2)))%nat).
  rewrite with_ends_cons2, positions_cons2.
  specialize (IH (i + S (List.length (snd b)))%nat n).
  change (starts_of (b2 :: bs) (i + S (List.length (snd b)))) with
    ((i + S (List.length (snd b)), strip (fst b2))%nat
       :: starts_of bs (i + S (List.length (snd b)) + S (List.length (snd b2)))%nat) in IH.
  rewrite IH. f_equal. f_equal. lia.
Qed.

(* the slice each consumer loop reads is exactly the block's body *)
Lemma bodies_blocks : forall bs pre,
  map (body_lines (pre ++ render bs))
      (positions bs (List.length pre) (List.length pre + List.length (render bs)))
  = map snd bs.
Proof.
  induction bs as [|b bs IH]; intros pre; [reflexivity|].
  destruct bs as [|b2 bs].
  - cbn [positions map]. f_equal. unfold body_lines. cbn [sp_first sp_last].
    cbn [render flat_map render_block app]. rewrite app_nil_r.
    replace (S (List.length pre)) with (List.length (pre ++ [fst b])) by (rewrite app_length; cbn; lia).
    replace (pre ++ fst b :: snd b) with ((pre ++ [fst b]) ++ snd b) by (rewrite <- app_assoc; reflexivity).
    rewrite skipn_app, skipn_all, Nat.sub_diag. cbn [skipn app].
    apply firstn_all2. cbn [List.length]. lia.
  - remember (b2 :: bs) as rest eqn:Hrest.
    assert (Hpos : positions (b :: rest) (List.length pre) (List.length pre + List.length (render (b :: rest)))
                   = mkspos (List.length pre) (List.length pre + List.length (snd b)) (strip (fst b))
                     :: positions rest (List.length pre + S (List.length (snd b)))
                                  (List.length pre + List.length (render (b :: rest)))).
    { subst rest. reflexivity. }
    rewrite Hpos. cbn [map]. f_equal.
    + unfold body_lines. cbn [sp_first sp_last].
      cbn [render flat_map render_block app]. change (flat_map render_block rest) with (render rest).
      replace (S (List.length pre)) with (List.length (pre ++ [fst b])) by (rewrite app_length; cbn; lia).
      replace (pre ++ fst b :: snd b ++ render rest) with ((pre ++ [fst b]) ++ snd b ++ render rest)
        by (rewrite <- app_assoc; reflexivity).
      rewrite skipn_app, skipn_all, Nat.sub_diag. cbn [skipn app].
      replace (List.length (pre ++ [fst b]) - 1 + List.length (snd b) - (List.length (pre ++ [fst b]) - 1))%nat
        with (List.length (snd b)) by lia.
      replace (List.length pre + List.length (snd b) - List.length pre)%nat with (List.length (snd b)) by lia.
      rewrite firstn_app, firstn_all, Nat.sub_diag. cbn [firstn]. apply app_nil_r.
    + specialize (IH (pre ++ render_block b)).
      assert (Hl : List.length (pre ++ render_block b) = (List.length pre + S (List.length (snd b)))%nat).
      { rewrite app_length. reflexivity. }
      rewrite Hl in IH.
      replace (pre ++ render (b :: rest)) with ((pre ++ render_block b) ++ render rest)
        by (cbn [render flat_map]; rewrite <- app_assoc; reflexivity).
      replace (List.length pre + List.length (render (b :: rest)))%nat
        with (List.length pre + S (List.length (snd b)) + List.length (render rest))%nat
        by (rewrite render_length_cons; lia).
      exact IH.
Qed.

Theorem find_sections_blocks : forall pre bs,
  forallb (fun l => negb (is_title l)) pre = true -> Forall wf_block bs ->
  find_sections (pre ++ render bs)
  = positions bs (List.length pre) (List.length pre + List.length (render bs)).
Proof.
  intros pre bs Hpre Hbs. unfold find_sections.
  rewrite find_starts_app, (find_starts_notitle _ _ Hpre). cbn [app].
  rewrite (find_starts_blocks _ _ Hbs), app_length. apply with_ends_blocks.
Qed.

Theorem bodies_exact : forall pre bs,
  forallb (fun l => negb (is_title l)) pre = true -> Forall wf_block bs ->
  map (body_lines (pre ++ render bs)) (find_sections (pre ++ render bs)) = map snd bs.
Proof. intros pre bs Hpre Hbs. rewrite (find_sections_blocks _ _ Hpre Hbs). apply bodies_blocks. Qed.

Lemma positions_titles : forall bs i n, map sp_title (positions bs i n) = map (fun b => strip (fst b)) bs.
Proof.
  induction bs as [|b bs IH]; intros i n; [reflexivity|].
  destruct bs as [|b2 bs]; [reflexivity|].
  change (positions (b :: b2 :: bs) i n) with
    (mkspos i (i + List.length (snd b)) (strip (fst b)) :: positions (b2 :: bs) (i + S (List.length (snd b))) n).
  cbn [map sp_title]. f_equal. apply IH.
Qed.

Theorem titles_exact : forall pre bs,
  forallb (fun l => negb (is_title l)) pre = true -> Forall wf_block bs ->
  map sp_title (find_sections (pre ++ render bs)) = map (fun b => strip (fst b)) bs.
Proof. intros pre bs Hpre Hbs. rewrite (find_sections_blocks _ _ Hpre Hbs). apply positions_titles. Qed.
