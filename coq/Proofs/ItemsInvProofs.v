(* Proofs.ItemsInvProofs — the C13 invariant of Model.Items and the C17 copy laws. *)
From Coq Require Import List NArith ZArith Bool String Lia ZifyBool ZifyN ZifyNat Permutation.
Import ListNotations.
Require Import PyStr Items ItemsSpec ItemsProofs.
Open Scope N_scope.

(* ======================================================================================= *)
(* the generated suffix ":<k>"                                                               *)

Definition digitc (c : N) : Prop := 48 <= c /\ c <= 57.

Lemma dec_incr_digits : forall l, Forall digitc l -> Forall digitc (dec_incr l).
Proof.
  induction l as [|d t IH]; intro H; simpl.
  - constructor; [unfold digitc; lia|constructor].
  - inversion H; subst. destruct (d =? 57) eqn:E.
    + constructor; [unfold digitc; lia|auto].
    + constructor; [unfold digitc in *; lia|assumption].
Qed.

Lemma dec_le_digits : forall n, Forall digitc (dec_le n).
Proof.
  induction n; simpl.
  - constructor; [unfold digitc; lia|constructor].
  - apply dec_incr_digits. assumption.
Qed.

Fixpoint val_le (l : list N) : nat :=
  match l with [] => O | d :: t => (N.to_nat (d - 48) + 10 * val_le t)%nat end.

Lemma val_incr : forall l, Forall digitc l -> val_le (dec_incr l) = S (val_le l).
Proof.
  induction l as [|d t IH]; intro H; simpl; [reflexivity|].
  inversion H as [|? ? Hd Ht]; subst. destruct (d =? 57) eqn:E; simpl.
  - rewrite (IH Ht). unfold digitc in Hd. lia.
  - unfold digitc in Hd. lia.
Qed.

Lemma val_dec_le : forall n, val_le (dec_le n) = n.
Proof.
  induction n; simpl; [reflexivity|]. rewrite val_incr; [congruence|apply dec_le_digits].
Qed.

Lemma nat_dec_inj : forall p q, nat_dec p = nat_dec q -> p = q.
Proof.
  intros p q H. unfold nat_dec in H.
  assert (dec_le p = dec_le q) as E.
  { rewrite <- (rev_involutive (dec_le p)), <- (rev_involutive (dec_le q)). congruence. }
  rewrite <- (val_dec_le p), <- (val_dec_le q). congruence.
Qed.

Lemma nat_dec_digits : forall n, Forall digitc (nat_dec n).
Proof. intro n. unfold nat_dec. apply Forall_rev. apply dec_le_digits. Qed.

Lemma upper_digits : forall l, Forall digitc l -> upper l = l.
Proof.
  unfold upper. induction l as [|d t IH]; intro H; simpl; [reflexivity|].
  inversion H as [|? ? Hd Ht]; subst. rewrite (IH Ht).
  unfold ascii_upper. unfold digitc in Hd.
  destruct ((97 <=? d) && (d <=? 122)) eqn:E; [lia|reflexivity].
Qed.

Lemma upper_app : forall a b, upper (a ++ b) = upper a ++ upper b.
Proof. intros. unfold upper. apply map_app. Qed.

Lemma upper_suffix : forall k, upper (suffix k) = suffix k.
Proof.
  intro k. unfold suffix. change (upper (ch_colon :: nat_dec k)) with (ascii_upper ch_colon :: upper (nat_dec k)).
  rewrite upper_digits; [reflexivity|apply nat_dec_digits].
Qed.

Lemma norm_suffix : forall tr a k, norm tr (a ++ suffix k) = norm tr a ++ suffix k.
Proof. intros [] a k; simpl; [|reflexivity]. rewrite upper_app, upper_suffix. reflexivity. Qed.

(* splitting at a separator that does not occur in the tails *)
Lemma app_cons_split : forall (c : N) x y a b,
  ~ In c x -> ~ In c y -> x ++ c :: a = y ++ c :: b -> x = y /\ a = b.
Proof.
  intros c. induction x as [|d x IH]; intros y a b Hx Hy H.
  - destruct y as [|e y]; simpl in H.
    + inversion H. auto.
    + inversion H; subst. exfalso. apply Hy. left. reflexivity.
  - destruct y as [|e y]; simpl in H.
    + inversion H; subst. exfalso. apply Hx. left. reflexivity.
    + inversion H; subst. destruct (IH y a b) as [E1 E2]; auto.
      * intro F. apply Hx. right. assumption.
      * intro F. apply Hy. right. assumption.
      * subst. auto.
Qed.

Lemma digits_no_colon : forall l, Forall digitc l -> ~ In ch_colon l.
Proof.
  intros l H F. rewrite Forall_forall in H. apply H in F. unfold digitc, ch_colon in F. lia.
Qed.

Lemma suffix_split : forall (a b : list N) p q, a ++ suffix p = b ++ suffix q -> a = b /\ p = q.
Proof.
  intros a b p q H. unfold suffix in H.
  assert (rev (nat_dec p) ++ ch_colon :: rev a = rev (nat_dec q) ++ ch_colon :: rev b) as R.
  { apply (f_equal (@rev N)) in H. repeat rewrite rev_app_distr in H. simpl in H.
    repeat rewrite <- app_assoc in H. simpl in H. exact H. }
  apply app_cons_split in R.
  - destruct R as [R1 R2]. split.
    + rewrite <- (rev_involutive a), <- (rev_involutive b). congruence.
    + apply nat_dec_inj. rewrite <- (rev_involutive (nat_dec p)), <- (rev_involutive (nat_dec q)). congruence.
  - intro F. apply in_rev in F. revert F. apply digits_no_colon. apply nat_dec_digits.
  - intro F. apply in_rev in F. revert F. apply digits_no_colon. apply nat_dec_digits.
Qed.

(* D1: suffixed names compare equal only if the stems do and the numbers are equal *)
Lemma suffix_cmp_inj : forall tr a b p q,
  mnemonic_compare tr (a ++ suffix p) (b ++ suffix q) = true ->
  mnemonic_compare tr a b = true /\ p = q.
Proof.
  intros tr a b p q H. apply cmp_norm in H. repeat rewrite norm_suffix in H.
  apply suffix_split in H. destruct H as [H1 H2]. split; [apply cmp_norm; assumption|assumption].
Qed.

(* ======================================================================================= *)
(* keys, well-formedness, clash-freedom on item lists                                         *)

Definition keyn (tr : bool) (it : item) : list N := norm tr (sess it).
Definition nc_items (tr : bool) (l : list item) : Prop :=
  forall a b k, In a l -> In b l -> mnemonic_compare tr (useful a ++ suffix k) (useful b) = false.

Lemma nc_of_names : forall tr names l,
  no_suffix_clash tr names -> (forall it, In it l -> In (orig it) names) -> nc_items tr l.
Proof. intros tr names l H Hl a b k Ha Hb. unfold useful. apply H; apply Hl; assumption. Qed.

(* D2: a renumbered group member never collides with a well-formed item of another group *)
Lemma cross_distinct : forall tr t a b q,
  in_group tr t a = true -> in_group tr t b = false -> wf_item b ->
  (forall k, mnemonic_compare tr (useful a ++ suffix k) (useful b) = false) ->
  norm tr (useful a ++ suffix q) <> keyn tr b.
Proof.
  intros tr t a b q Ga Gb Wb NC E. unfold keyn in E. unfold in_group in *.
  destruct Wb as [W|[j W]]; rewrite W in E.
  - apply cmp_norm in E. rewrite NC in E. discriminate.
  - apply cmp_norm in E. apply suffix_cmp_inj in E. destruct E as [E _].
    rewrite cmp_sym in E. rewrite (cmp_trans tr (useful b) (useful a) t E Ga) in Gb. discriminate.
Qed.

Lemma set_sess_wf : forall b q, wf_item (set_sess b (useful b ++ suffix q)).
Proof. intros b q. right. exists q. reflexivity. Qed.

(* ======================================================================================= *)
(* the suffix rule: elements, positions, distinctness                                        *)

Lemma renumber_In : forall tr t l c y,
  In y (renumber tr t c l) ->
  (exists b q, In b l /\ in_group tr t b = true /\ (c <= q)%nat /\ y = set_sess b (useful b ++ suffix q))
  \/ (In y l /\ in_group tr t y = false).
Proof.
  intros tr t. induction l as [|a l IH]; intros c y H; simpl in H; [contradiction|].
  destruct (mnemonic_compare tr (useful a) t) eqn:G.
  - destruct H as [H|H].
    + left. exists a, c. repeat split; auto. left; reflexivity.
    + destruct (IH (S c) y H) as [[b [q [Hb [Gb [Hq E]]]]]|[Hy Gy]].
      * left. exists b, q. repeat split; auto. right; assumption. lia.
      * right. split; [right; assumption|assumption].
  - destruct H as [H|H].
    + right. subst. split; [left; reflexivity|exact G].
    + destruct (IH c y H) as [[b [q [Hb [Gb [Hq E]]]]]|[Hy Gy]].
      * left. exists b, q. repeat split; auto. right; assumption.
      * right. split; [right; assumption|assumption].
Qed.

Lemma renumber_nodup : forall tr t l c,
  Forall wf_item l -> nc_items tr l ->
  NoDup (List.map (keyn tr) (filter (fun it => negb (in_group tr t it)) l)) ->
  NoDup (List.map (keyn tr) (renumber tr t c l)).
Proof.
  intros tr t. induction l as [|a l IH]; intros c W NC ND; simpl; [constructor|].
  inversion W as [|? ? Wa Wl]; subst.
  assert (nc_items tr l) as NCl.
  { intros x y k Hx Hy. apply NC; right; assumption. }
  simpl in ND. unfold in_group in ND at 1. destruct (mnemonic_compare tr (useful a) t) eqn:G; simpl in ND.
  - (* a is a member: it gets the number c, everything behind has a larger number *)
    simpl. constructor; [|apply IH; assumption].
    intro F. apply in_map_iff in F. destruct F as [y [Ey Hy]].
    apply renumber_In in Hy. destruct Hy as [[b [q [Hb [Gb [Hq E]]]]]|[Hy Gy]].
    + subst y. unfold keyn in Ey. simpl in Ey. symmetry in Ey. apply cmp_norm in Ey.
      apply suffix_cmp_inj in Ey. lia.
    + unfold keyn at 2 in Ey. simpl in Ey. symmetry in Ey. revert Ey.
      apply (cross_distinct tr t a y c); auto.
      * rewrite Forall_forall in Wl. apply Wl. assumption.
      * intro k. apply NC; [left; reflexivity|right; assumption].
  - (* a is no member: unchanged *)
    inversion ND as [|? ? Hnot ND']; subst. constructor; [|apply IH; assumption].
    intro F. apply in_map_iff in F. destruct F as [y [Ey Hy]].
    apply renumber_In in Hy. destruct Hy as [[b [q [Hb [Gb [Hq E]]]]]|[Hy Gy]].
    + subst y. unfold keyn at 1 in Ey. simpl in Ey. revert Ey.
      apply (cross_distinct tr t b a q); auto.
      intro k. apply NC; [right; assumption|left; reflexivity].
    + apply Hnot. apply in_map_iff. exists y. split; [assumption|].
      apply filter_In. split; [assumption|]. rewrite Gy. reflexivity.
Qed.

Lemma renumber_wf : forall tr t l c, Forall wf_item l -> Forall wf_item (renumber tr t c l).
Proof.
  intros tr t. induction l as [|a l IH]; intros c W; simpl; [constructor|].
  inversion W; subst. destruct (mnemonic_compare tr (useful a) t).
  - constructor; [apply set_sess_wf|apply IH; assumption].
  - constructor; [assumption|apply IH; assumption].
Qed.

Lemma renumber_orig : forall tr t l c, List.map orig (renumber tr t c l) = List.map orig l.
Proof.
  intros tr t. induction l as [|a l IH]; intro c; simpl; [reflexivity|].
  destruct (mnemonic_compare tr (useful a) t); simpl; rewrite IH; reflexivity.
Qed.

Lemma assign_orig : forall t s, origs (assign_suffixes t s) = origs s.
Proof.
  intros t s. unfold origs, assign_suffixes. destruct (Nat.ltb _ _); [|reflexivity]. simpl. apply renumber_orig.
Qed.

Lemma group_count_cons : forall tr t a l,
  group_count tr t (a :: l) = if in_group tr t a then S (group_count tr t l) else group_count tr t l.
Proof. intros. unfold group_count. simpl. destruct (in_group tr t a); reflexivity. Qed.

(* position-wise description of renumber (R1) *)
Lemma renumber_nth : forall tr t l c n,
  nth_error (renumber tr t c l) n =
  option_map (fun it => if in_group tr t it
                        then set_sess it (useful it ++ suffix (c + group_count tr t (firstn n l)))
                        else it) (nth_error l n).
Proof.
  intros tr t. induction l as [|a l IH]; intros c n.
  - simpl. destruct n; reflexivity.
  - simpl renumber. destruct (mnemonic_compare tr (useful a) t) eqn:G.
    + destruct n as [|n].
      * simpl. unfold in_group. rewrite G. unfold group_count. simpl. rewrite Nat.add_0_r. reflexivity.
      * simpl nth_error. rewrite IH. simpl firstn. rewrite group_count_cons.
        unfold in_group at 3. rewrite G.
        destruct (nth_error l n) as [i|]; [|reflexivity]. simpl.
        destruct (in_group tr t i); [|reflexivity].
        rewrite Nat.add_succ_r. reflexivity.
    + destruct n as [|n].
      * simpl. unfold in_group. rewrite G. reflexivity.
      * simpl nth_error. rewrite IH. simpl firstn. rewrite group_count_cons.
        unfold in_group at 3. rewrite G. reflexivity.
Qed.

(* ======================================================================================= *)
(* permutations, filters, the two forms of I1                                                *)

Lemma perm_filter : forall {A} (p : A -> bool) l l', Permutation l l' -> Permutation (filter p l) (filter p l').
Proof.
  intros A p l l' H. induction H as [|x l l' H IH|x y l|l l' l'' H1 IH1 H2 IH2]; simpl.
  - constructor.
  - destruct (p x); [apply perm_skip|]; assumption.
  - destruct (p x); destruct (p y); try apply Permutation_refl. apply perm_swap.
  - eapply perm_trans; eauto.
Qed.

Lemma group_count_perm : forall tr t l l', Permutation l l' -> group_count tr t l = group_count tr t l'.
Proof. intros tr t l l' H. unfold group_count. apply Permutation_length. apply perm_filter. assumption. Qed.

Lemma nodup_map_filter : forall {A B} (f : A -> B) (p : A -> bool) l,
  NoDup (List.map f l) -> NoDup (List.map f (filter p l)).
Proof.
  intros A B f p. induction l as [|a l IH]; intro H; simpl; [constructor|].
  inversion H as [|? ? Hn Hl]; subst. destruct (p a); simpl.
  - constructor; [|apply IH; assumption]. intro F. apply Hn.
    apply in_map_iff in F. destruct F as [y [Ey Hy]]. apply filter_In in Hy.
    apply in_map_iff. exists y. tauto.
  - apply IH. assumption.
Qed.

Lemma group_count_zero : forall tr t l, group_count tr t l = O -> forall b, In b l -> in_group tr t b = false.
Proof.
  intros tr t l H b Hb. destruct (in_group tr t b) eqn:G; [|reflexivity].
  assert (In b (filter (in_group tr t) l)) as F by (apply filter_In; auto).
  unfold group_count in H. destruct (filter (in_group tr t) l); [contradiction|discriminate].
Qed.

Definition I1_nodup (s : section) : Prop := NoDup (List.map (keyn (transforms s)) (items s)).

Lemma I1_forms : forall s, I1 s <-> I1_nodup s.
Proof.
  intro s. unfold I1, I1_nodup. split.
  - intro H. apply NoDup_nth_error. intros i j Hi E.
    rewrite map_length in Hi. repeat rewrite nth_error_map in E.
    destruct (nth_error (items s) i) as [a|] eqn:Ea; [|apply nth_error_None in Ea; lia].
    destruct (nth_error (items s) j) as [b|] eqn:Eb; [|discriminate].
    destruct (Nat.eq_dec i j) as [|N]; [assumption|].
    specialize (H i j a b N Ea Eb). apply cmp_false_norm in H. simpl in E. inversion E. contradiction.
  - intros H i j a b N Ea Eb. apply cmp_false_norm. intro E.
    apply N. apply (proj1 (NoDup_nth_error _) H).
    + rewrite map_length. apply nth_error_Some. congruence.
    + repeat rewrite nth_error_map. rewrite Ea, Eb. simpl. unfold keyn. congruence.
Qed.

(* I1 gives I2: every item is found under its own session name, at its own position *)
Lemma I1_I2 : forall s, I1 s -> I2 s.
Proof.
  intros s H n it E.
  assert (lookup_ix s (KStr (sess it)) = IOk n) as L.
  { rewrite lookup_str. rewrite (find_ix_intro (key_pred s (sess it)) (items s) n it E).
    - reflexivity.
    - unfold key_pred. apply cmp_refl.
    - intros m y Hm Ey. unfold key_pred. apply (H m n y it); [lia|assumption|assumption]. }
  split; [assumption|]. apply getitem_lookup. exists n. auto.
Qed.

(* ======================================================================================= *)
(* the general insertion lemma: a fresh item x joins `core`, then the suffix rule runs        *)

Definition names_in (names : list (list N)) (l : list item) : Prop := forall it, In it l -> In (orig it) names.

Lemma in_group_self : forall tr x, in_group tr (useful x) x = true.
Proof. intros. unfold in_group. apply cmp_refl. Qed.

Lemma assign_inv : forall tr names x core l',
  NoDup (List.map (keyn tr) core) -> Forall wf_item core -> names_in names core ->
  In (orig x) names -> sess x = useful x -> no_suffix_clash tr names ->
  Permutation (x :: core) l' ->
  let s' := assign_suffixes (useful x) (mkSection l' tr) in
  NoDup (List.map (keyn tr) (items s')) /\ Forall wf_item (items s') /\ names_in names (items s')
  /\ transforms s' = tr.
Proof.
  intros tr names x core l' ND W NI Hx Fx NC P s'.
  assert (Forall wf_item l') as Wl.
  { apply Forall_forall. intros y Hy. apply (Permutation_in _ (Permutation_sym P)) in Hy.
    destruct Hy as [Hy|Hy]; [subst; left; assumption|]. rewrite Forall_forall in W. auto. }
  assert (names_in names l') as NIl.
  { intros y Hy. apply (Permutation_in _ (Permutation_sym P)) in Hy.
    destruct Hy as [Hy|Hy]; [subst; assumption|auto]. }
  assert (nc_items tr l') as NCl by (eapply nc_of_names; eauto).
  unfold s', assign_suffixes. simpl transforms. simpl items.
  destruct (Nat.ltb 1 (group_count tr (useful x) l')) eqn:C; simpl.
  - split; [|split; [|split]].
    + apply renumber_nodup; auto.
      assert (Permutation (filter (fun it => negb (in_group tr (useful x) it)) (x :: core))
                          (filter (fun it => negb (in_group tr (useful x) it)) l')) as PF by (apply perm_filter; assumption).
      simpl in PF. rewrite in_group_self in PF. simpl in PF.
      eapply Permutation_NoDup; [apply Permutation_map; exact PF|].
      apply nodup_map_filter. assumption.
    + apply renumber_wf. assumption.
    + intros y Hy. apply in_map with (f := orig) in Hy. rewrite renumber_orig in Hy.
      apply in_map_iff in Hy. destruct Hy as [z [Ez Hz]]. rewrite <- Ez. apply NIl. assumption.
    + reflexivity.
  - split; [|split; [|split]]; auto.
    eapply Permutation_NoDup; [apply Permutation_map; exact P|]. simpl. constructor; [|assumption].
    assert (group_count tr (useful x) core = O) as Z.
    { rewrite <- (group_count_perm tr (useful x) _ _ P) in C. rewrite group_count_cons, in_group_self in C. lia. }
    intro F. apply in_map_iff in F. destruct F as [b [Eb Hb]].
    pose proof (group_count_zero tr (useful x) core Z b Hb) as Gb. unfold in_group in Gb.
    unfold keyn in Eb. rewrite Fx in Eb. rewrite Forall_forall in W. destruct (W b Hb) as [Wb|[k Wb]]; rewrite Wb in Eb.
    + apply cmp_norm in Eb. congruence.
    + apply cmp_norm in Eb. unfold useful in Eb. rewrite (NC (orig b) (orig x) k) in Eb; [discriminate|auto|auto].
Qed.

(* ======================================================================================= *)
(* every operation preserves the invariant                                                   *)

Definition SI (names : list (list N)) (s : section) : Prop :=
  I1_nodup s /\ Forall wf_item (items s) /\ names_in names (items s).

Lemma SI_Inv : forall names s, SI names s -> Inv s.
Proof.
  intros names s [H1 [H2 H3]]. assert (I1 s) as A by (apply I1_forms; assumption).
  split; [assumption|split; [apply I1_I2; assumption|]]. intros it Hit. rewrite Forall_forall in H2. auto.
Qed.

Lemma make_fresh : forall a, sess (make a) = useful (make a) /\ orig (make a) = a_mnem a.
Proof. intro a. split; reflexivity. Qed.

Lemma SI_insertion : forall names s x core l',
  SI names s -> (forall y, In y core -> In y (items s)) -> NoDup (List.map (keyn (transforms s)) core) ->
  In (orig x) names -> sess x = useful x -> no_suffix_clash (transforms s) names ->
  Permutation (x :: core) l' ->
  SI names (assign_suffixes (useful x) (with_items s l')) /\
  transforms (assign_suffixes (useful x) (with_items s l')) = transforms s.
Proof.
  intros names s x core l' [H1 [H2 H3]] Hc ND Hx Fx NC P.
  destruct (assign_inv (transforms s) names x core l') as [A [B [C D]]]; auto.
  - apply Forall_forall. intros y Hy. rewrite Forall_forall in H2. auto.
  - intros y Hy. auto.
  - unfold with_items. split; [|exact D]. split; [|split]; auto.
    unfold I1_nodup. rewrite D. exact A.
Qed.

Lemma nodup_remove_at : forall {B} (f : item -> B) l n,
  NoDup (List.map f l) -> NoDup (List.map f (remove_at n l)).
Proof.
  intros B f l n H. destruct (nth_error l n) as [b|] eqn:E.
  - pose proof (remove_at_perm l n b E) as P.
    apply (Permutation_map f) in P. apply (Permutation_NoDup P) in H. simpl in H. inversion H; assumption.
  - assert (remove_at n l = l) as R; [|rewrite R; assumption].
    apply nth_error_None in E. clear H. revert n E. induction l as [|a l IH]; intros n E; simpl; [reflexivity|].
    destruct n as [|n]; simpl in E; [lia|]. rewrite IH; [reflexivity|lia].
Qed.

Lemma update_at_In : forall {A} (f : A -> A) l n y,
  In y (update_at n f l) -> In y l \/ exists b, In b l /\ y = f b.
Proof.
  intros A f. induction l as [|a l IH]; intros n y H; simpl in H; [contradiction|].
  destruct n as [|n]; simpl in H.
  - destruct H as [H|H]; [right; exists a; split; [left; reflexivity|auto]|left; right; assumption].
  - destruct H as [H|H]; [left; left; assumption|].
    destruct (IH n y H) as [K|[b [Hb E]]]; [left; right; assumption|right; exists b; split; [right; assumption|assumption]].
Qed.

Lemma get_default_fresh : forall s m d,
  let x := get_default_item s m (inl d) in sess x = useful x /\ orig x = m.
Proof.
  intros s m d. simpl. destruct (items s) as [|f r]; [split; reflexivity|].
  destruct (is_curve f); split; reflexivity.
Qed.

Lemma step_SI : forall names s o,
  SI names s -> incl (op_names o) names -> no_suffix_clash (transforms s) names ->
  SI names (step s o) /\ transforms (step s o) = transforms s.
Proof.
  intros names s o HS Hn NC. pose proof HS as [H1 [H2 H3]].
  destruct o as [a|i a|k|k a|k v|m d]; unfold step; simpl exec.
  - (* append *)
    unfold append. destruct (make_fresh a) as [F O]. apply (SI_insertion names s (make a) (items s)); auto.
    + rewrite O. apply Hn. left; reflexivity.
    + apply Permutation_cons_append.
  - (* insert *)
    unfold insert. destruct (make_fresh a) as [F O]. apply (SI_insertion names s (make a) (items s)); auto.
    + rewrite O. apply Hn. left; reflexivity.
    + unfold py_insert. apply insert_at_perm.
  - (* delete *)
    unfold delitem. destruct (lookup_ix s k) as [n|e]; [|auto]. split; [|reflexivity].
    split; [|split]; simpl.
    + unfold I1_nodup. simpl. apply nodup_remove_at. exact H1.
    + apply Forall_forall. intros y Hy. apply remove_at_In in Hy. rewrite Forall_forall in H2. auto.
    + intros y Hy. apply remove_at_In in Hy. auto.
  - (* replace *)
    destruct (make_fresh a) as [F O].
    assert (forall n, (n < List.length (items s))%nat ->
            SI names (assign_suffixes (useful (make a)) (with_items s (replace_at n (make a) (items s)))) /\
            transforms (assign_suffixes (useful (make a)) (with_items s (replace_at n (make a) (items s)))) = transforms s) as R.
    { intros n Hlt. apply (SI_insertion names s (make a) (remove_at n (items s))); auto.
      - intros y Hy. eapply remove_at_In; eauto.
      - apply nodup_remove_at. exact H1.
      - rewrite O. apply Hn. left; reflexivity.
      - apply replace_at_perm. assumption. }
    destruct k as [m|z]; simpl.
    + destruct (find_ix _ _) as [n|] eqn:Fi.
      * apply R. eapply find_ix_lt; eauto.
      * unfold append. apply (SI_insertion names s (make a) (items s)); auto.
        -- rewrite O. apply Hn. left; reflexivity.
        -- apply Permutation_cons_append.
    + destruct (py_index _ _) as [n|] eqn:Pi; [|auto]. apply R. eapply py_index_lt; eauto.
  - (* plain value *)
    unfold set_item_value. destruct (lookup_ix s k) as [n|e]; [|auto]. split; [|reflexivity].
    split; [|split]; simpl.
    + unfold I1_nodup. simpl. rewrite update_at_map; [exact H1|reflexivity].
    + apply Forall_forall. intros y Hy. rewrite Forall_forall in H2.
      apply update_at_In in Hy. destruct Hy as [Hy|[b [Hb E]]]; [auto|]. subst. apply (H2 b Hb).
    + intros y Hy. apply update_at_In in Hy. destruct Hy as [Hy|[b [Hb E]]]; [auto|]. subst. apply (H3 b Hb).
  - (* get(add=True) *)
    unfold get. destruct (contains s m) eqn:C.
    + destruct (getitem s (KStr m)); simpl; auto.
    + simpl. destruct (get_default_fresh s m d) as [F O].
      unfold append. apply (SI_insertion names s (get_default_item s m (inl d)) (items s)); auto.
      * rewrite O. apply Hn. left; reflexivity.
      * apply Permutation_cons_append.
Qed.

Lemma SI_empty : forall names tr, SI names (empty_section tr).
Proof. intros. split; [constructor|split; [constructor|intros y []]]. Qed.

Lemma reachable_SI : forall names ops s,
  SI names s -> incl (flat_map op_names ops) names -> no_suffix_clash (transforms s) names ->
  SI names (fold_left step ops s) /\ transforms (fold_left step ops s) = transforms s.
Proof.
  intros names. induction ops as [|o ops IH]; intros s HS Hn NC; simpl; [auto|].
  simpl in Hn. destruct (step_SI names s o HS) as [A B]; auto.
  - intros x Hx. apply Hn. apply in_or_app. left. assumption.
  - destruct (IH (step s o)) as [C D]; auto.
    + intros x Hx. apply Hn. apply in_or_app. right. assumption.
    + rewrite B. assumption.
    + split; [assumption|congruence].
Qed.

(* the invariant at every state reachable from the empty section *)
Lemma inv_empty : forall tr, Inv (empty_section tr).
Proof. intro tr. apply (SI_Inv []). apply SI_empty. Qed.

Lemma inv_reachable : forall tr ops,
  no_suffix_clash tr (flat_map op_names ops) -> Inv (fold_left step ops (empty_section tr)).
Proof.
  intros tr ops NC. apply (SI_Inv (flat_map op_names ops)).
  apply reachable_SI; [apply SI_empty|apply incl_refl|exact NC].
Qed.

(* from any state satisfying the invariant (e.g. a section as read from a file) *)
Lemma Inv_SI : forall s, Inv s -> SI (origs s) s.
Proof.
  intros s [H1 [H2 H3]]. split; [apply I1_forms; assumption|split].
  - apply Forall_forall. exact H3.
  - intros y Hy. unfold origs. apply in_map. assumption.
Qed.

Lemma inv_step : forall s o,
  Inv s -> no_suffix_clash (transforms s) (origs s ++ op_names o) -> Inv (step s o).
Proof.
  intros s o HI NC. apply (SI_Inv (origs s ++ op_names o)).
  apply step_SI; auto.
  - destruct (Inv_SI s HI) as [A [B C]]. split; [assumption|split; [assumption|]].
    intros y Hy. apply in_or_app. left. auto.
  - intros x Hx. apply in_or_app. right. assumption.
Qed.

Lemma inv_reachable_from : forall s ops,
  Inv s -> no_suffix_clash (transforms s) (origs s ++ flat_map op_names ops) -> Inv (fold_left step ops s).
Proof.
  intros s ops HI NC. apply (SI_Inv (origs s ++ flat_map op_names ops)).
  apply reachable_SI; auto.
  - destruct (Inv_SI s HI) as [A [B C]]. split; [assumption|split; [assumption|]].
    intros y Hy. apply in_or_app. left. auto.
  - intros x Hx. apply in_or_app. right. assumption.
Qed.

(* ======================================================================================= *)
(* numbering post-condition of the suffix rule                                               *)

Lemma set_sess_same : forall it, set_sess it (sess it) = it.
Proof. intros []. reflexivity. Qed.

Lemma assign_nth : forall t s n,
  nth_error (items (assign_suffixes t s)) n =
  option_map (fun it => set_sess it (numbered (transforms s) t (items s) n it)) (nth_error (items s) n).
Proof.
  intros t s n. unfold assign_suffixes, numbered.
  destruct (Nat.ltb 1 (group_count (transforms s) t (items s))) eqn:C; simpl.
  - rewrite renumber_nth. destruct (nth_error (items s) n) as [it|]; [|reflexivity]. simpl.
    destruct (in_group (transforms s) t it); simpl; [reflexivity|]. rewrite set_sess_same. reflexivity.
  - destruct (nth_error (items s) n) as [it|]; [|reflexivity]. simpl.
    rewrite andb_false_r. rewrite set_sess_same. reflexivity.
Qed.

Lemma numbering_after : forall s t l' n it',
  nth_error (items (assign_suffixes t (with_items s l'))) n = Some it' ->
  exists it, nth_error l' n = Some it /\ payload it' = payload it /\
             sess it' = numbered (transforms s) t l' n it.
Proof.
  intros s t l' n it' H. rewrite assign_nth in H. simpl in H.
  destruct (nth_error l' n) as [it|]; [|discriminate]. simpl in H. inversion H; subst.
  exists it. repeat split.
Qed.

(* ranks of group members are strictly increasing: the numbers are 1..n in section order *)
Lemma rank_lt : forall tr t l i j a,
  (i < j)%nat -> nth_error l i = Some a -> in_group tr t a = true -> (rank tr t l i < rank tr t l j)%nat.
Proof.
  intros tr t. induction l as [|x l IH]; intros i j a Hij Ha Ga; [destruct i; discriminate|].
  destruct j as [|j]; [lia|]. unfold rank in *. destruct i as [|i]; simpl in *.
  - inversion Ha; subst. rewrite group_count_cons, Ga. unfold group_count. simpl. lia.
  - repeat rewrite group_count_cons. specialize (IH i j a ltac:(lia) Ha Ga).
    destruct (in_group tr t x); lia.
Qed.

Lemma rank_le_count : forall tr t l n, (rank tr t l n <= group_count tr t l)%nat.
Proof.
  intros tr t. induction l as [|x l IH]; intro n; unfold rank in *.
  - rewrite firstn_nil. lia.
  - destruct n as [|n]; simpl; [unfold group_count at 1; simpl; lia|].
    repeat rewrite group_count_cons. specialize (IH n). destruct (in_group tr t x); lia.
Qed.

Lemma rank_member_lt_count : forall tr t l n a,
  nth_error l n = Some a -> in_group tr t a = true -> (rank tr t l n < group_count tr t l)%nat.
Proof.
  intros tr t. induction l as [|x l IH]; intros n a Ha Ga; [destruct n; discriminate|].
  unfold rank in *. destruct n as [|n]; simpl in *.
  - inversion Ha; subst. rewrite group_count_cons, Ga. unfold group_count at 1. simpl. lia.
  - repeat rewrite group_count_cons. specialize (IH n a Ha Ga). destruct (in_group tr t x); lia.
Qed.

(* ======================================================================================= *)
(* I4: the original mnemonics are only moved by the list operation itself                     *)

Lemma map_insert_at : forall {A B} (f : A -> B) l n x, List.map f (insert_at n x l) = insert_at n (f x) (List.map f l).
Proof.
  intros A B f. induction l as [|a l IH]; intros n x; destruct n; simpl; try reflexivity. rewrite IH. reflexivity.
Qed.
Lemma map_remove_at : forall {A B} (f : A -> B) l n, List.map f (remove_at n l) = remove_at n (List.map f l).
Proof.
  intros A B f. induction l as [|a l IH]; intro n; simpl; [reflexivity|]. destruct n; simpl; [reflexivity|].
  rewrite IH. reflexivity.
Qed.
Lemma map_replace_at : forall {A B} (f : A -> B) l n x, List.map f (replace_at n x l) = replace_at n (f x) (List.map f l).
Proof.
  intros A B f. induction l as [|a l IH]; intros n x; simpl; [reflexivity|]. destruct n; simpl; [reflexivity|].
  rewrite IH. reflexivity.
Qed.

Lemma origs_append : forall s it, origs (append s it) = origs s ++ [orig it].
Proof. intros. unfold append. rewrite assign_orig. unfold origs. simpl. apply map_app. Qed.

Lemma origs_insert : forall s i it, origs (insert s i it) = py_insert i (orig it) (origs s).
Proof.
  intros. unfold insert. rewrite assign_orig. unfold origs, py_insert. simpl.
  rewrite map_insert_at, map_length. reflexivity.
Qed.

Lemma origs_delitem : forall s k s', delitem s k = IOk s' ->
  exists n, lookup_ix s k = IOk n /\ origs s' = remove_at n (origs s).
Proof.
  intros s k s' H. unfold delitem in H. destruct (lookup_ix s k) as [n|e]; inversion H; subst.
  exists n. split; [reflexivity|]. unfold origs. simpl. apply map_remove_at.
Qed.

Lemma origs_set_item : forall s k it s', set_item s k it = IOk s' ->
  (exists n, (n < List.length (items s))%nat /\ origs s' = replace_at n (orig it) (origs s))
  \/ origs s' = origs s ++ [orig it].
Proof.
  intros s k it s' H. destruct k as [m|z]; simpl in H.
  - destruct (find_ix _ _) as [n|] eqn:F; inversion H; subst.
    + left. exists n. split; [eapply find_ix_lt; eauto|]. rewrite assign_orig. unfold origs. simpl. apply map_replace_at.
    + right. apply origs_append.
  - destruct (py_index _ _) as [n|] eqn:F; inversion H; subst.
    left. exists n. split; [eapply py_index_lt; eauto|]. rewrite assign_orig. unfold origs. simpl. apply map_replace_at.
Qed.

Lemma origs_set_value : forall s k v s', set_item_value s k v = IOk s' -> origs s' = origs s.
Proof.
  intros s k v s' H. unfold set_item_value in H. destruct (lookup_ix s k) as [n|e]; inversion H; subst.
  unfold origs. simpl. apply update_at_map. reflexivity.
Qed.

Local Arguments get_default_item : simpl never.

(* no operation invents or edits an original: after any step every original is an old one or
   the mnemonic the operation brought in *)
Lemma origs_step_incl : forall s o, incl (origs (step s o)) (origs s ++ op_names o).
Proof.
  intros s o x Hx. apply in_or_app. unfold step in Hx.
  destruct o as [a|i a|k|k a|k v|m d]; simpl in Hx.
  - rewrite origs_append in Hx. apply in_app_or in Hx. destruct Hx as [Hx|Hx]; [left|right]; assumption.
  - rewrite origs_insert in Hx. unfold py_insert in Hx.
    apply (Permutation_in _ (Permutation_sym (insert_at_perm _ _ _))) in Hx.
    destruct Hx as [Hx|Hx]; [right; left; assumption|left; assumption].
  - destruct (delitem s k) as [s'|e] eqn:D; [|left; assumption].
    destruct (origs_delitem _ _ _ D) as [n [_ E]]. rewrite E in Hx. left. eapply remove_at_In; eauto.
  - destruct (set_item s k (make a)) as [s'|e] eqn:D; [|left; assumption].
    destruct (origs_set_item _ _ _ _ D) as [[n [Hn E]]|E]; rewrite E in Hx.
    + rewrite <- (map_length orig) in Hn. fold (origs s) in Hn.
      apply (Permutation_in _ (Permutation_sym (replace_at_perm _ _ _ Hn))) in Hx.
      destruct Hx as [Hx|Hx]; [right; left; assumption|left; eapply remove_at_In; eauto].
    + apply in_app_or in Hx. destruct Hx as [Hx|Hx]; [left|right]; assumption.
  - destruct (set_item_value s k v) as [s'|e] eqn:D; [|left; assumption].
    rewrite (origs_set_value _ _ _ _ D) in Hx. left; assumption.
  - unfold get in Hx. destruct (contains s m).
    + destruct (getitem s (KStr m)); simpl in Hx; left; assumption.
    + simpl in Hx. rewrite origs_append in Hx. apply in_app_or in Hx. destruct Hx as [Hx|Hx]; [left; assumption|].
      right. destruct (get_default_fresh s m d) as [_ O]. rewrite O in Hx. assumption.
Qed.

(* blank originals show as UNKNOWN *)
Lemma wf_blank : forall it, wf_item it -> is_blank (orig it) = true ->
  sess it = s_UNKNOWN \/ exists k, sess it = s_UNKNOWN ++ suffix k.
Proof.
  intros it W B. unfold wf_item, useful, useful_of in W. rewrite B in W. exact W.
Qed.

(* ======================================================================================= *)
(* reading = appending in order: closed form of the session names, round trip                *)

Lemma nth_ext_eq : forall {A} (l l' : list A), (forall n, nth_error l n = nth_error l' n) -> l = l'.
Proof.
  intros A. induction l as [|a l IH]; intros l' H.
  - destruct l' as [|b l']; [reflexivity|]. specialize (H O). discriminate.
  - destruct l' as [|b l']; [specialize (H O); discriminate|].
    pose proof (H O) as H0. simpl in H0. inversion H0; subst. f_equal. apply IH. intro n. apply (H (S n)).
Qed.

Lemma filter_map_length : forall {A B} (f : A -> B) (p : B -> bool) l,
  List.length (filter p (List.map f l)) = List.length (filter (fun a => p (f a)) l).
Proof.
  intros A B f p. induction l as [|a l IH]; simpl; [reflexivity|]. destruct (p (f a)); simpl; rewrite IH; reflexivity.
Qed.

Lemma group_count_names : forall tr t l, group_count tr t l = names_count tr t (List.map orig l).
Proof. intros. unfold group_count, names_count. rewrite filter_map_length. reflexivity. Qed.

Lemma names_count_cong : forall tr u t l, mnemonic_compare tr u t = true -> names_count tr u l = names_count tr t l.
Proof.
  intros tr u t l H. unfold names_count. induction l as [|z l IH]; simpl; [reflexivity|].
  assert (mnemonic_compare tr (useful_of z) u = mnemonic_compare tr (useful_of z) t) as E.
  { destruct (mnemonic_compare tr (useful_of z) t) eqn:E1.
    - rewrite cmp_sym in H. apply (cmp_trans tr _ t u E1 H).
    - destruct (mnemonic_compare tr (useful_of z) u) eqn:E2; [|reflexivity].
      rewrite (cmp_trans tr _ u t E2 H) in E1. discriminate. }
  rewrite E. destruct (mnemonic_compare tr (useful_of z) t); simpl; rewrite IH; reflexivity.
Qed.

Lemma names_count_app : forall tr u l l', names_count tr u (l ++ l') = (names_count tr u l + names_count tr u l')%nat.
Proof. intros. unfold names_count. rewrite filter_app, app_length. reflexivity. Qed.

Lemma names_count_one : forall tr u m,
  names_count tr u [m] = if mnemonic_compare tr (useful_of m) u then 1%nat else 0%nat.
Proof. intros. unfold names_count. simpl. destruct (mnemonic_compare tr (useful_of m) u); reflexivity. Qed.

Lemma names_count_firstn_le : forall tr u l n, (names_count tr u (firstn n l) <= names_count tr u l)%nat.
Proof.
  intros tr u l n. rewrite <- (firstn_skipn n l) at 2. rewrite names_count_app. lia.
Qed.

Lemma spec_keys_aux_nth : forall tr names rest k n,
  nth_error (spec_keys_aux tr names k rest) n = option_map (spec_sess tr names (k + n)) (nth_error rest n).
Proof.
  intros tr names. induction rest as [|m r IH]; intros k n; simpl.
  - destruct n; reflexivity.
  - destruct n as [|n]; simpl; [rewrite Nat.add_0_r; reflexivity|].
    rewrite IH. replace (S k + n)%nat with (k + S n)%nat by lia. reflexivity.
Qed.

Definition canon (tr : bool) (names : list (list N)) (s : section) : Prop :=
  origs s = names /\ transforms s = tr /\
  forall n it, nth_error (items s) n = Some it -> sess it = spec_sess tr names n (orig it).

Lemma canon_keys : forall tr names s, canon tr names s -> keys s = spec_keys tr names.
Proof.
  intros tr names s [O [_ C]]. subst names. apply nth_ext_eq. intro n. unfold keys, spec_keys.
  rewrite nth_error_map, spec_keys_aux_nth. simpl. unfold origs at 2. rewrite nth_error_map.
  destruct (nth_error (items s) n) as [it|] eqn:E; simpl; [|reflexivity]. rewrite (C n it E). reflexivity.
Qed.

Lemma canon_append : forall tr names s a,
  canon tr names s -> canon tr (names ++ [a_mnem a]) (append s (make a)).
Proof.
  intros tr names s a [O [T C]]. set (x := make a). set (m := a_mnem a).
  assert (orig x = m) as Ox by reflexivity.
  assert (sess x = useful_of m) as Sx by reflexivity.
  assert (useful x = useful_of m) as Ux by reflexivity.
  split; [rewrite origs_append, O; reflexivity|]. split; [unfold append; rewrite assign_transforms; exact T|].
  intros n it' H. unfold append in H. apply numbering_after in H.
  destruct H as [it [E [P S]]]. rewrite T in S.
  assert (orig it' = orig it) as Oi by (unfold payload in P; inversion P; reflexivity).
  rewrite S, Oi. clear S P Oi it'.
  set (raw := items s ++ [x]) in *.
  assert (List.map orig raw = names ++ [m]) as Mr.
  { unfold raw. rewrite map_app. simpl. fold (origs s). rewrite O. reflexivity. }
  unfold numbered, spec_sess, rank. rewrite Ux.
  repeat rewrite group_count_names. rewrite <- firstn_map, Mr.
  set (u := useful_of (orig it)). fold (useful it). change (useful it) with u.
  destruct (in_group tr (useful_of m) it) eqn:G.
  - (* it belongs to the group of the new item *)
    unfold in_group in G. change (useful it) with u in G.
    rewrite (names_count_cong tr u (useful_of m) (names ++ [m]) G).
    rewrite (names_count_cong tr u (useful_of m) (firstn n (names ++ [m])) G). simpl.
    destruct (Nat.ltb 1 (names_count tr (useful_of m) (names ++ [m]))) eqn:C1; [reflexivity|].
    (* the new item is alone in its group: the session name is the useful mnemonic *)
    destruct (Nat.lt_ge_cases n (List.length (items s))) as [Hlt|Hge].
    + unfold raw in E. rewrite nth_error_app1 in E by assumption.
      rewrite (C n it E). unfold spec_sess. fold u.
      rewrite (names_count_cong tr u (useful_of m) names G).
      rewrite names_count_app in C1.
      destruct (Nat.ltb 1 (names_count tr (useful_of m) names)) eqn:C2; [lia|reflexivity].
    + unfold raw in E. rewrite nth_error_app2 in E by assumption.
      destruct (n - List.length (items s))%nat as [|k]; simpl in E; [|destruct k; discriminate].
      inversion E; subst it. exact Sx.
  - (* another group: nothing changes, and the new name does not count for it *)
    simpl. unfold in_group in G. change (useful it) with u in G.
    assert (mnemonic_compare tr (useful_of m) u = false) as G' by (rewrite cmp_sym; exact G).
    destruct (Nat.lt_ge_cases n (List.length (items s))) as [Hlt|Hge].
    + unfold raw in E. rewrite nth_error_app1 in E by assumption.
      rewrite (C n it E). unfold spec_sess. fold u.
      rewrite names_count_app, names_count_one, G', Nat.add_0_r.
      assert (List.length names = List.length (items s)) as Ln by (rewrite <- O; unfold origs; apply map_length).
      rewrite firstn_app. replace (n - List.length names)%nat with 0%nat by lia. simpl. rewrite app_nil_r. reflexivity.
    + unfold raw in E. rewrite nth_error_app2 in E by assumption.
      destruct (n - List.length (items s))%nat as [|k]; simpl in E; [|destruct k; discriminate].
      inversion E; subst it. unfold u in G. rewrite Ox in G. rewrite cmp_refl in G. discriminate.
Qed.

Lemma read_section_snoc : forall tr l a, read_section tr (l ++ [a]) = append (read_section tr l) (make a).
Proof. intros. unfold read_section. rewrite fold_left_app. reflexivity. Qed.

Lemma read_canon : forall tr l, canon tr (List.map a_mnem l) (read_section tr l).
Proof.
  intros tr l. induction l as [|a l IH] using rev_ind.
  - split; [reflexivity|split; [reflexivity|]]. intros n it H. destruct n; discriminate.
  - rewrite read_section_snoc, map_app. simpl. apply canon_append. exact IH.
Qed.

Lemma read_keys : forall tr l, keys (read_section tr l) = spec_keys tr (List.map a_mnem l).
Proof. intros. apply canon_keys. apply read_canon. Qed.

Lemma read_origs : forall tr l, origs (read_section tr l) = List.map a_mnem l.
Proof. intros. apply (read_canon tr l). Qed.

(* writing emits the originals; reading them again gives the same session names *)
Lemma roundtrip_names : forall tr l l2,
  List.map a_mnem l2 = origs (read_section tr l) ->
  keys (read_section tr l2) = keys (read_section tr l) /\ origs (read_section tr l2) = origs (read_section tr l).
Proof.
  intros tr l l2 H. repeat rewrite read_keys. repeat rewrite read_origs. rewrite read_origs in H. rewrite H. auto.
Qed.

(* ======================================================================================= *)
(* C17: __reduce__ / reconstruction                                                          *)

Lemma copy_item_id : forall it, item_ok it = true -> copy_item it = it.
Proof.
  intros [o ss u v d dat c] H. unfold item_ok in H. simpl in H.
  unfold copy_item, rebuild, reduce, new_item, set_sess. simpl.
  destruct c; [|reflexivity]. apply negb_true_iff in H. rewrite H. reflexivity.
Qed.

Lemma map_copy_id : forall l, forallb item_ok l = true -> List.map copy_item l = l.
Proof.
  induction l as [|a l IH]; intro H; simpl; [reflexivity|].
  simpl in H. apply andb_true_iff in H. destruct H as [Ha Hl]. rewrite copy_item_id, IH; auto.
Qed.

Lemma pickle_section_id : forall s, forallb item_ok (items s) = true -> pickle_section s = s.
Proof.
  intros [l tr] H. unfold pickle_section, section_setstate, section_init. simpl in *.
  rewrite map_copy_id; auto.
Qed.

Lemma deepcopy_section_id : forall s, forallb item_ok (items s) = true -> deepcopy_section s = s.
Proof. exact pickle_section_id. Qed.

Lemma copy_las_id : forall copy_sec las,
  (forall s, forallb item_ok (items s) = true -> copy_sec s = s) ->
  forallb (fun p => forallb item_ok (items (snd p))) las = true -> copy_las copy_sec las = las.
Proof.
  intros cs las Hc. induction las as [|[n s] las IH]; intro H; simpl; [reflexivity|].
  simpl in H. apply andb_true_iff in H. destruct H as [Hs Hl]. rewrite Hc, IH; auto.
Qed.

(* operations keep item_ok: items are built by the constructor *)
Lemma new_item_ok : forall c m u v d dat, item_ok (new_item c m u v d dat) = true.
Proof.
  intros c m u v d dat. unfold item_ok, new_item. simpl. destruct c; [|reflexivity].
  destruct (str_eqb dat none_data) eqn:E; [reflexivity|]. rewrite E. reflexivity.
Qed.

(* every section built through the API contains only constructor-made items *)
Definition all_ok (s : section) : Prop := forall it, In it (items s) -> item_ok it = true.

Lemma set_sess_ok : forall it x, item_ok (set_sess it x) = item_ok it.
Proof. intros [] x. reflexivity. Qed.
Lemma set_value_ok : forall it v, item_ok (set_value v it) = item_ok it.
Proof. intros [] v. reflexivity. Qed.

Lemma assign_ok : forall t s, all_ok s -> all_ok (assign_suffixes t s).
Proof.
  intros t s H it Hit. unfold assign_suffixes in Hit. destruct (Nat.ltb _ _); [|auto]. simpl in Hit.
  apply renumber_In in Hit. destruct Hit as [[b [q [Hb [_ [_ E]]]]]|[Hy _]]; [|auto].
  subst. rewrite set_sess_ok. auto.
Qed.

Lemma make_ok : forall a, item_ok (make a) = true.
Proof. intro a. apply new_item_ok. Qed.

Lemma get_default_ok : forall s m d, item_ok (get_default_item s m (inl d)) = true.
Proof.
  intros s m d. unfold get_default_item. destruct (items s) as [|f r]; [apply new_item_ok|].
  destruct (is_curve f); apply new_item_ok.
Qed.

Lemma step_ok : forall s o, all_ok s -> all_ok (step s o).
Proof.
  intros s o H. destruct o as [a|i a|k|k a|k v|m d]; unfold step; simpl exec.
  - unfold append. apply assign_ok. intros it Hit. simpl in Hit. apply in_app_or in Hit.
    destruct Hit as [Hit|[Hit|[]]]; [auto|subst; apply make_ok].
  - unfold insert. apply assign_ok. intros it Hit. simpl in Hit. unfold py_insert in Hit.
    apply (Permutation_in _ (Permutation_sym (insert_at_perm _ _ _))) in Hit.
    destruct Hit as [Hit|Hit]; [subst; apply make_ok|auto].
  - unfold delitem. destruct (lookup_ix s k); [|assumption]. intros it Hit. simpl in Hit.
    apply remove_at_In in Hit. auto.
  - assert (forall n, (n < List.length (items s))%nat ->
            all_ok (assign_suffixes (useful (make a)) (with_items s (replace_at n (make a) (items s))))) as R.
    { intros n Hn. apply assign_ok. intros it Hit. simpl in Hit.
      apply (Permutation_in _ (Permutation_sym (replace_at_perm _ _ _ Hn))) in Hit.
      destruct Hit as [Hit|Hit]; [subst; apply make_ok|apply remove_at_In in Hit; auto]. }
    destruct k as [m|z]; simpl.
    + destruct (find_ix _ _) as [n|] eqn:F; [apply R; eapply find_ix_lt; eauto|].
      unfold append. apply assign_ok. intros it Hit. simpl in Hit. apply in_app_or in Hit.
      destruct Hit as [Hit|[Hit|[]]]; [auto|subst; apply make_ok].
    + destruct (py_index _ _) as [n|] eqn:F; [apply R; eapply py_index_lt; eauto|assumption].
  - unfold set_item_value. destruct (lookup_ix s k); [|assumption]. intros it Hit. simpl in Hit.
    apply update_at_In in Hit. destruct Hit as [Hit|[b [Hb E]]]; [auto|]. subst. rewrite set_value_ok. auto.
  - unfold get. destruct (contains s m).
    + destruct (getitem s (KStr m)); simpl; assumption.
    + simpl. unfold append. apply assign_ok. intros it Hit. simpl in Hit. apply in_app_or in Hit.
      destruct Hit as [Hit|[Hit|[]]]; [auto|subst; apply get_default_ok].
Qed.

Lemma reachable_ok : forall ops s, all_ok s -> all_ok (fold_left step ops s).
Proof. induction ops as [|o ops IH]; intros s H; simpl; [assumption|]. apply IH. apply step_ok. assumption. Qed.

Lemma all_ok_forallb : forall s, all_ok s -> forallb item_ok (items s) = true.
Proof. intros s H. apply forallb_forall. exact H. Qed.

Lemma reachable_copy_id : forall tr ops,
  let s := fold_left step ops (empty_section tr) in pickle_section s = s /\ deepcopy_section s = s.
Proof.
  intros tr ops s.
  assert (forallb item_ok (items s) = true) as H.
  { apply all_ok_forallb. apply reachable_ok. intros it []. }
  split; [apply pickle_section_id|apply deepcopy_section_id]; assumption.
Qed.

(* a handy sufficient condition for no_suffix_clash: no mnemonic contains a colon *)
Lemma upper_colon : forall l, In ch_colon (upper l) -> In ch_colon l.
Proof.
  unfold upper. intros l H. apply in_map_iff in H. destruct H as [c [E Hc]].
  unfold ascii_upper, ch_colon in E. destruct ((97 <=? c) && (c <=? 122)) eqn:B; [lia|]. subst. assumption.
Qed.

Lemma norm_colon : forall tr l, In ch_colon (norm tr l) <-> In ch_colon l.
Proof.
  intros [] l; simpl; [|tauto]. split; [apply upper_colon|].
  intro H. unfold upper. apply in_map_iff. exists ch_colon. split; [reflexivity|assumption].
Qed.

Lemma colon_free_no_clash : forall tr names,
  forallb (fun m => negb (in_str ch_colon m)) names = true -> no_suffix_clash tr names.
Proof.
  intros tr names H a b k Ha Hb. apply cmp_false_norm. intro E.
  assert (In ch_colon (norm tr (useful_of a ++ suffix k))) as C1.
  { apply norm_colon. apply in_or_app. right. left. reflexivity. }
  rewrite E in C1. apply norm_colon in C1.
  rewrite forallb_forall in H. specialize (H b Hb). apply negb_true_iff in H.
  unfold useful_of in C1. destruct (is_blank b).
  - vm_compute in C1. repeat (destruct C1 as [C1|C1]; [discriminate|]). contradiction.
  - unfold in_str in H. assert (existsb (N.eqb ch_colon) b = true) as X; [|congruence].
    apply existsb_exists. exists ch_colon. split; [assumption|apply N.eqb_refl].
Qed.

(* ======================================================================================= *)
(* statements used as they are by Props/C13.v and Props/C17.v                                *)

Lemma inv_resolves : forall class_attrs s n it,
  Inv s -> nth_error (items s) n = Some it ->
  lookup_ix s (KStr (sess it)) = IOk n /\ getitem s (KStr (sess it)) = IOk it /\
  (existsb (str_eqb (sess it)) class_attrs = false -> str_eqb (sess it) s_mnemonic_transforms = false ->
   py_getattr class_attrs s (sess it) = IOk (AttrItem it)).
Proof.
  intros ca s n it [_ [H2 _]] E. destruct (H2 n it E) as [L G]. split; [assumption|split; [assumption|]].
  intros X1 X2. rewrite py_getattr_present; auto.
  - rewrite G. reflexivity.
  - apply contains_iff. eauto.
Qed.

Lemma inv_blank_unknown : forall s it,
  Inv s -> In it (items s) -> is_blank (orig it) = true ->
  sess it = s_UNKNOWN \/ exists k, sess it = s_UNKNOWN ++ suffix k.
Proof. intros s it [_ [_ H3]] Hit B. apply wf_blank; auto. Qed.

Lemma numbering_insert : forall s i a n it',
  nth_error (items (insert s i (make a))) n = Some it' ->
  exists it, nth_error (py_insert i (make a) (items s)) n = Some it /\ payload it' = payload it /\
             sess it' = numbered (transforms s) (useful (make a)) (py_insert i (make a) (items s)) n it.
Proof. intros s i a n it' H. unfold insert in H. apply numbering_after. exact H. Qed.

Lemma numbering_append : forall s a n it',
  nth_error (items (append s (make a))) n = Some it' ->
  exists it, nth_error (items s ++ [make a]) n = Some it /\ payload it' = payload it /\
             sess it' = numbered (transforms s) (useful (make a)) (items s ++ [make a]) n it.
Proof. intros s a n it' H. unfold append in H. apply numbering_after. exact H. Qed.

Lemma numbering_order : forall tr t l i j a b,
  (i < j)%nat -> nth_error l i = Some a -> nth_error l j = Some b ->
  in_group tr t a = true -> in_group tr t b = true ->
  (rank tr t l i < rank tr t l j < group_count tr t l)%nat.
Proof.
  intros tr t l i j a b Hij Ha Hb Ga Gb. split.
  - eapply rank_lt; eauto.
  - eapply rank_member_lt_count; eauto.
Qed.

Lemma read_names : forall tr l,
  keys (read_section tr l) = spec_keys tr (List.map a_mnem l) /\ origs (read_section tr l) = List.map a_mnem l.
Proof. intros. split; [apply read_keys|apply read_origs]. Qed.

Lemma lasfile_copy_id : forall las,
  forallb (fun p => forallb item_ok (items (snd p))) las = true ->
  copy_las pickle_section las = las /\ copy_las deepcopy_section las = las.
Proof.
  intros las H. split; apply copy_las_id; auto.
  - exact pickle_section_id.
  - exact deepcopy_section_id.
Qed.

Lemma lasfile_write_same : forall (W : Type) (write : lasfile -> W) las,
  forallb (fun p => forallb item_ok (items (snd p))) las = true ->
  write (copy_las pickle_section las) = write las /\ write (copy_las deepcopy_section las) = write las.
Proof.
  intros W write las H. destruct (lasfile_copy_id las H) as [A B]. rewrite A, B. auto.
Qed.
