(* Proofs.RegexMatchFacts — which split the backtracking matcher CHOOSES (RegexFacts.m_ok
   only says whether some split exists).  Generic lemmas about the greedy / lazy star of
   PyLib/Regex.v, used by HeaderLineProofs.v. *)
From Coq Require Import List Arith NArith Bool Lia ZifyBool ZifyN ZifyNat.
Import ListNotations.
Require Import PyStr Regex RegexFacts.
Open Scope N_scope.

(* ---------- lists -------------------------------------------------------------------- *)
Lemma firstn_app_len (a b : list N) :
  firstn (List.length (a ++ b) - List.length b) (a ++ b) = a.
Proof.
  rewrite app_length. replace (List.length a + List.length b - List.length b)%nat with (List.length a) by lia.
  rewrite firstn_app, Nat.sub_diag, firstn_all. cbn. apply app_nil_r.
Qed.

Lemma firstn_len_self (b : list N) : firstn (List.length b - List.length b) b = [].
Proof. rewrite Nat.sub_diag. reflexivity. Qed.

Lemma firstn_len_nil (a : list N) : firstn (List.length a - 0) a = a.
Proof. rewrite Nat.sub_0_r. apply firstn_all. Qed.

(* ---------- greedy star -------------------------------------------------------------- *)
(* the continuation succeeds at the maximal split: that is the answer *)
Lemma star_g_max k : forall s1 s2 p cs cont r,
  forallb (cmatch k) s1 = true ->
  match s2 with [] => True | c :: _ => cmatch k c = false end ->
  cont (mkst (rev s1 ++ p) s2 cs) = Some r ->
  star_g k p (s1 ++ s2) cs cont = Some r.
Proof.
  induction s1 as [|c s1 IH]; intros s2 p cs cont r Hall Hhd Hk; cbn [app rev] in *.
  - destruct s2 as [|c s2]; cbn [star_g]; [exact Hk|]. rewrite Hhd. exact Hk.
  - cbn [forallb] in Hall. apply andb_true_iff in Hall as [Hc Hall].
    cbn [star_g]. rewrite Hc.
    rewrite (IH s2 (c :: p) cs cont r Hall Hhd); [reflexivity|].
    rewrite <- app_assoc in Hk. exact Hk.
Qed.

(* the continuation fails at every non-empty class prefix: the star matches nothing *)
Lemma star_g_first_fail k cont cs : forall s p,
  (forall a b, a <> [] -> s = a ++ b -> forallb (cmatch k) a = true ->
     cont (mkst (rev a ++ p) b cs) = None) ->
  star_g k p s cs cont = cont (mkst p s cs).
Proof.
  induction s as [|c s IH]; intros p H; cbn [star_g]; [reflexivity|].
  destruct (cmatch k c) eqn:Hc; [|reflexivity].
  rewrite IH.
  - assert (H1 : cont (mkst (c :: p) s cs) = None).
    { apply (H [c] s); [discriminate|reflexivity|]. cbn [forallb]. rewrite Hc. reflexivity. }
    rewrite H1. reflexivity.
  - intros a b Ha E Hall. specialize (H (c :: a) b). cbn [rev] in H.
    rewrite <- app_assoc in H. cbn [app] in H. apply H.
    + discriminate.
    + subst s. reflexivity.
    + cbn [forallb]. rewrite Hc. exact Hall.
Qed.

(* the continuation succeeds at s1|s2 and fails at every longer split: s1 is taken *)
Lemma star_g_pick k cont cs r : forall s1 s2 p,
  forallb (cmatch k) s1 = true ->
  cont (mkst (rev s1 ++ p) s2 cs) = Some r ->
  (forall a b, a <> [] -> s2 = a ++ b -> forallb (cmatch k) a = true ->
     cont (mkst (rev a ++ rev s1 ++ p) b cs) = None) ->
  star_g k p (s1 ++ s2) cs cont = Some r.
Proof.
  induction s1 as [|c s1 IH]; intros s2 p Hall Hk Hf.
  - cbn [app rev] in *. rewrite star_g_first_fail; assumption.
  - cbn [forallb] in Hall. apply andb_true_iff in Hall as [Hc Hall].
    cbn [app star_g]. rewrite Hc. rewrite (IH s2 (c :: p)); [reflexivity|exact Hall| |].
    + cbn [rev] in Hk. rewrite <- app_assoc in Hk. exact Hk.
    + intros a b Ha E Hk'. specialize (Hf a b Ha E Hk'). cbn [rev] in Hf.
      rewrite <- !app_assoc in Hf. exact Hf.
Qed.

(* the continuation fails at every class prefix: the star fails *)
Lemma star_g_none k cont cs : forall s p,
  (forall a b, s = a ++ b -> forallb (cmatch k) a = true ->
     cont (mkst (rev a ++ p) b cs) = None) ->
  star_g k p s cs cont = None.
Proof.
  induction s as [|c s IH]; intros p H; cbn [star_g].
  - apply (H [] []); reflexivity.
  - assert (H0 : cont (mkst p (c :: s) cs) = None) by (apply (H [] (c :: s)); reflexivity).
    destruct (cmatch k c) eqn:Hc; [|exact H0].
    rewrite IH; [exact H0|].
    intros a b E Hall. specialize (H (c :: a) b). cbn [rev] in H.
    rewrite <- app_assoc in H. cbn [app] in H. apply H.
    + subst s. reflexivity.
    + cbn [forallb]. rewrite Hc. exact Hall.
Qed.

(* ---------- lazy star ---------------------------------------------------------------- *)
(* the continuation fails at every shorter split and succeeds at s1|s2: s1 is taken *)
Lemma star_l_pick k cont cs r : forall s1 s2 p,
  forallb (cmatch k) s1 = true ->
  cont (mkst (rev s1 ++ p) s2 cs) = Some r ->
  (forall a b, b <> [] -> s1 = a ++ b -> cont (mkst (rev a ++ p) (b ++ s2) cs) = None) ->
  star_l k p (s1 ++ s2) cs cont = Some r.
Proof.
  induction s1 as [|c s1 IH]; intros s2 p Hall Hk Hf.
  - cbn [app rev] in *. destruct s2; cbn [star_l]; rewrite Hk; reflexivity.
  - cbn [forallb] in Hall. apply andb_true_iff in Hall as [Hc Hall].
    cbn [app star_l].
    assert (H1 : cont (mkst p (c :: s1 ++ s2) cs) = None).
    { apply (Hf [] (c :: s1)); [discriminate|reflexivity]. }
    rewrite H1, Hc.
    apply IH; [exact Hall| |].
    + cbn [rev] in Hk. rewrite <- app_assoc in Hk. exact Hk.
    + intros a b Hb E. specialize (Hf (c :: a) b Hb). cbn [rev] in Hf.
      rewrite <- app_assoc in Hf. cbn [app] in Hf. apply Hf. subst s1. reflexivity.
Qed.

(* the continuation fails at every class prefix: the lazy star fails *)
Lemma star_l_none k cont cs : forall s p,
  (forall a b, s = a ++ b -> forallb (cmatch k) a = true ->
     cont (mkst (rev a ++ p) b cs) = None) ->
  star_l k p s cs cont = None.
Proof.
  induction s as [|c s IH]; intros p H.
  - cbn [star_l]. assert (H0 : cont (mkst p [] cs) = None) by (apply (H [] []); reflexivity).
    rewrite H0. reflexivity.
  - cbn [star_l].
    assert (H0 : cont (mkst p (c :: s) cs) = None) by (apply (H [] (c :: s)); reflexivity).
    rewrite H0. destruct (cmatch k c) eqn:Hc; [|reflexivity].
    apply IH. intros a b E Hall. specialize (H (c :: a) b). cbn [rev] in H.
    rewrite <- app_assoc in H. cbn [app] in H. apply H.
    + subst s. reflexivity.
    + cbn [forallb]. rewrite Hc. exact Hall.
Qed.
