(* Proofs.WriteHeaderProofs — the header writer (Model/Writer.v: section_lines, format_item,
   standardize) against the header reader (Model/SectionParse.v: parse_body, parse_line,
   build_item; Model/HeaderLine.v: read_header_line).  (C03; C12 uses the item lemmas.)

   Plan: the column widths a section computes cover every item of the section
   (widths_cover); a formatted line IS a C04 layout  MNEM pad . UNIT pad+ RHS " : " TAIL  with
   blank paddings, the second one non-empty (format_is_layout); so the C04 grammar theorem
   (HeaderLineProofs.parse_all) reads the four fields back (line_roundtrip), build_item undoes
   the value/description order the writer chose (item_roundtrip; the orders agree by
   OrderTableProofs), and parse_body walks a whole section (body_roundtrip). *)
From Coq Require Import List Arith NArith ZArith Bool Lia ZifyBool ZifyN ZifyNat String.
Import ListNotations.
Require Import PyStr Regex Regexes NumLit Num NumSpec HeaderLine Tables SectionParse DataRead Read TextWrap Writer.
Require Import HeaderLineSpec HeaderLineFragments HeaderLineProofs BlankMnemonicProofs NumProofs IntTextProofs ItemsBindProofs OrderTableProofs.
Open Scope string_scope.
Open Scope list_scope.
Open Scope N_scope.

(* ====================================================================================== *)
(* 1. column widths                                                                        *)
(* ====================================================================================== *)
Lemma fold_max_ge : forall l a, (a <= fold_left Nat.max l a)%nat.
Proof.
  induction l as [|x l IH]; intros a; cbn [fold_left]; [lia|].
  specialize (IH (Nat.max a x)). lia.
Qed.

Lemma fold_max_in : forall l a x, In x l -> (x <= fold_left Nat.max l a)%nat.
Proof.
  induction l as [|y l IH]; intros a x Hin; [destruct Hin|]. cbn [fold_left].
  destruct Hin as [->|Hin].
  - pose proof (fold_max_ge l (Nat.max a x)). lia.
  - apply IH. exact Hin.
Qed.

Lemma max_list_ge l x : In x l -> (x <= max_list l)%nat.
Proof. apply fold_max_in. Qed.

Lemma max_list_map_ge {A} (f : A -> nat) l x : In x l -> (f x <= max_list (map f l))%nat.
Proof. intros H. apply max_list_ge. apply in_map. exact H. Qed.

(* the order, and the two widths, exactly as section_lines computes them *)
Definition sec_ord (v : las_version) (sect : list N) (it : hitem) : item_order :=
  match order_of v sect (i_orig it) with Some o => o | None => ValueDescr end.
Definition sec_lw (items : list hitem) : nat :=
  max_list (map (fun it => List.length (i_orig it)) items).
Definition sec_mw (fstr : list N -> list N) (ord : hitem -> item_order) (items : list hitem) : nat :=
  max_list (map (fun it => (List.length (i_unit it) + 1 + List.length (rhs_text fstr (ord it) it))%nat) items).

Lemma section_lines_eq fstr v sect items :
  section_lines fstr v sect items =
  match lookup_order_entry v sect order_definitions with
  | None => None
  | Some _ => Some (map (fun it => format_item fstr (sec_ord v sect it) (sec_lw items)
                                     (sec_mw fstr (sec_ord v sect) items) it) items)
  end.
Proof. reflexivity. Qed.

(* an item is covered by a pair of widths: its mnemonic fits the left column, and unit, at
   least one blank, and right-hand field fit the middle column *)
Definition covers (fstr : list N -> list N) (o : item_order) (lw mw : nat) (it : hitem) : Prop :=
  (List.length (i_orig it) <= lw)%nat /\
  (List.length (i_unit it) + 1 + List.length (rhs_text fstr o it) <= mw)%nat.

Theorem widths_cover fstr (ord : hitem -> item_order) items it : In it items ->
  covers fstr (ord it) (sec_lw items) (sec_mw fstr ord items) it.
Proof.
  intros Hin. split.
  - unfold sec_lw. exact (max_list_map_ge (fun it => List.length (i_orig it)) items it Hin).
  - unfold sec_mw.
    exact (max_list_map_ge
             (fun it => (List.length (i_unit it) + 1 + List.length (rhs_text fstr (ord it) it))%nat) items it Hin).
Qed.

(* ====================================================================================== *)
(* 2. a formatted line is a layout                                                         *)
(* ====================================================================================== *)
Lemma match46 {T} (c : N) (u : list N) (A B : T) :
  match c :: u with 46 :: _ => A | _ => B end = if c =? 46 then A else B.
Proof.
  destruct (c =? 46) eqn:E.
  - apply N.eqb_eq in E. subst c. reflexivity.
  - destruct c as [|p]; [reflexivity|].
    do 6 (try destruct p as [p|p|]); try reflexivity; discriminate E.
Qed.

(* the left column before the unit-period rule: a mnemonic that ends with a period is not
   padded (unreachable for conformant mnemonics, which contain no period) *)
Definition left_base (lw : nat) (it : hitem) : list N :=
  if endswith [ch_dot] (i_orig it) then i_orig it else ljust lw 32 (i_orig it).
(* the blank the writer inserts before a unit that starts with a period *)
Definition dot_gap (lw : nat) (it : hitem) : list N :=
  match i_unit it with
  | [] => []
  | c :: _ => if c =? 46 then (if endswith [32] (left_base lw it) then [] else [32]) else []
  end.
(* first padding: left-justification of the mnemonic, plus that blank *)
Definition pad1 (lw : nat) (it : hitem) : list N :=
  (if endswith [ch_dot] (i_orig it) then [] else repeat_ch 32 (lw - List.length (i_orig it)))
  ++ dot_gap lw it.
(* second padding: fills the middle column *)
Definition pad2 (fstr : list N -> list N) (o : item_order) (mw : nat) (it : hitem) : list N :=
  repeat_ch 32 (mw - List.length (i_unit it) - List.length (rhs_text fstr o it)).

Lemma left_base_eq lw it :
  left_base lw it =
  i_orig it ++ (if endswith [ch_dot] (i_orig it) then [] else repeat_ch 32 (lw - List.length (i_orig it))).
Proof.
  unfold left_base. destruct (endswith [ch_dot] (i_orig it)); [rewrite app_nil_r; reflexivity|reflexivity].
Qed.

Lemma left_col_eq lw it : left_col lw it = i_orig it ++ pad1 lw it.
Proof.
  unfold left_col, pad1, dot_gap. fold (left_base lw it). rewrite app_assoc, <- left_base_eq.
  destruct (i_unit it) as [|c u].
  - rewrite app_nil_r. reflexivity.
  - rewrite (match46 c u). destruct (c =? 46).
    + destruct (endswith [32] (left_base lw it)); [rewrite app_nil_r|]; reflexivity.
    + rewrite app_nil_r. reflexivity.
Qed.

Lemma blanks_repeat n : blanks (repeat_ch 32 n) = true.
Proof. induction n as [|n IH]; [reflexivity|]. cbn. exact IH. Qed.

Lemma blanks_app a b : blanks (a ++ b) = blanks a && blanks b.
Proof. apply forallb_app. Qed.

Lemma blanks_pad1 lw it : blanks (pad1 lw it) = true.
Proof.
  unfold pad1. rewrite blanks_app.
  assert (H1 : blanks (if endswith [ch_dot] (i_orig it) then [] else repeat_ch 32 (lw - List.length (i_orig it))) = true)
    by (destruct (endswith [ch_dot] (i_orig it)); [reflexivity|apply blanks_repeat]).
  rewrite H1. unfold dot_gap.
  destruct (i_unit it) as [|c u]; [reflexivity|]. destruct (c =? 46); [|reflexivity].
  destruct (endswith [32] (left_base lw it)); reflexivity.
Qed.

Lemma blanks_pad2 fstr o mw it : blanks (pad2 fstr o mw it) = true.
Proof. apply blanks_repeat. Qed.

Lemma pad2_nonempty fstr o lw mw it : covers fstr o lw mw it -> pad2 fstr o mw it <> [].
Proof.
  intros [_ H]. unfold pad2.
  destruct (mw - List.length (i_unit it) - List.length (rhs_text fstr o it))%nat eqn:E; [lia|].
  discriminate.
Qed.

Lemma pad2_length fstr o lw mw it : covers fstr o lw mw it ->
  (1 <= List.length (pad2 fstr o mw it))%nat.
Proof. intros [_ H]. unfold pad2, repeat_ch. rewrite repeat_length. lia. Qed.

Lemma sep_text : s2l " : " = [32; 58; 32].
Proof. reflexivity. Qed.

Theorem format_is_layout fstr o lw mw it :
  format_item fstr o lw mw it =
  layout [] (i_orig it) (pad1 lw it) (i_unit it) (pad2 fstr o mw it) (rhs_text fstr o it)
         [32] [32] (tail_text fstr o it) [].
Proof.
  unfold format_item, layout, pad2. rewrite left_col_eq, sep_text.
  change [ch_dot] with [46]. cbn [app]. rewrite <- !app_assoc, app_nil_r. reflexivity.
Qed.

(* the line as parse_body sees it (stripped): when the field after the colon is empty the
   blank after the colon goes away *)
Definition pad4 (tail : list N) : list N := match tail with [] => [] | _ => [32] end.

Lemma last_app_ne (a b : list N) : b <> [] -> last (a ++ b) 0 = last b 0.
Proof.
  intros Hb. rewrite (app_removelast_last 0 Hb), app_assoc, !last_last. reflexivity.
Qed.

Lemma stripped_sandwich (a mid b : list N) :
  a <> [] -> b <> [] -> stripped a = true -> stripped b = true -> stripped (a ++ mid ++ b) = true.
Proof.
  intros Ha Hb Hsa Hsb. destruct a as [|c a]; [congruence|].
  unfold stripped in Hsa. apply andb_true_iff in Hsa as [Hc _].
  unfold stripped. cbn [app]. rewrite Hc. cbn [andb].
  change (c :: a ++ mid ++ b) with ((c :: a) ++ mid ++ b).
  rewrite app_assoc, last_app_ne by exact Hb.
  destruct b as [|d b]; [congruence|]. unfold stripped in Hsb.
  apply andb_true_iff in Hsb as [_ Hl]. exact Hl.
Qed.

Lemma strip_line (mn p1 u p2 v d : list N) :
  mn <> [] -> stripped mn = true -> stripped d = true ->
  strip (layout [] mn p1 u p2 v [32] [32] d []) = layout [] mn p1 u p2 v [32] (pad4 d) d [].
Proof.
  intros Hne Hmn Hd. unfold layout. cbn [app]. rewrite !app_nil_r.
  destruct d as [|c d].
  - cbn [pad4 app].
    replace (mn ++ p1 ++ 46 :: u ++ p2 ++ v ++ [32; 58; 32])
      with ([] ++ (mn ++ (p1 ++ 46 :: u ++ p2 ++ v ++ [32]) ++ [58]) ++ [32]).
    + rewrite strip_pad; [|reflexivity|reflexivity|].
      * rewrite <- !app_assoc. cbn [app]. rewrite <- !app_assoc. reflexivity.
      * apply stripped_sandwich; [exact Hne|discriminate|exact Hmn|reflexivity].
    + cbn [app]. rewrite <- !app_assoc. cbn [app]. rewrite <- !app_assoc. reflexivity.
  - cbn [pad4 app].
    replace (mn ++ p1 ++ 46 :: u ++ p2 ++ v ++ 32 :: 58 :: 32 :: c :: d)
      with (mn ++ (p1 ++ 46 :: u ++ p2 ++ v ++ [32; 58; 32]) ++ c :: d).
    + apply strip_stripped. apply stripped_sandwich; [exact Hne|discriminate|exact Hmn|exact Hd].
    + rewrite <- !app_assoc. cbn [app]. rewrite <- !app_assoc. reflexivity.
Qed.

Lemma blanks_pad4 d : blanks (pad4 d) = true.
Proof. destruct d; reflexivity. Qed.

(* ====================================================================================== *)
(* 3. one line: read_header_line inverts format_item                                       *)
(* ====================================================================================== *)
(* conformant item, from the property text.  rhs is the field between unit and colon, tail the
   field after the colon (value and description in the order the writer uses for the item):
     mnemonic  non-empty, no '.', no ':', no leading/trailing white space      (conf_mnem)
     unit      no white space, does not end with '.', not entirely digits      (conf_unit)
     rhs, tail stripped, no newline                                            (conf_text)
     outside ~Parameter: no ':' in the field after the colon;
     in ~Parameter: every colon of rhs is a clock colon (C04's clock_colons), and when the
       description is empty the unit has no colon (the line then ends with the separator);
     in ~Curves: no ".." in the line. *)
Definition conf_fields (fstr : list N -> list N) (k : skind) (o : item_order) (it : hitem) : bool :=
  let rhs := rhs_text fstr o it in
  let tail := tail_text fstr o it in
  conf_mnem (i_orig it) && conf_unit (i_unit it) && conf_text rhs && conf_text tail &&
  match k with
  | KParameter => clock_colons rhs && (negb (is_nil tail) || negb (in_str 58 (i_unit it)))
  | _ => negb (in_str 58 tail)
  end.
Definition conf_line (fstr : list N -> list N) (k : skind) (o : item_order) (lw mw : nat) (it : hitem) : bool :=
  match k with KCurves => no_double_dot (format_item fstr o lw mw it) | _ => true end.
Definition conf_item (fstr : list N -> list N) (k : skind) (o : item_order) (lw mw : nat) (it : hitem) : bool :=
  conf_fields fstr k o it && conf_line fstr k o lw mw it.

Definition is_curves_of (k : skind) : bool := match k with KCurves => true | _ => false end.
Definition is_param_of (k : skind) : bool := match k with KParameter => true | _ => false end.

(* contains is monotone in the text *)
Lemma startswith_app p : forall s t, startswith p s = true -> startswith p (s ++ t) = true.
Proof.
  induction p as [|x p IH]; intros s t H; [reflexivity|].
  destruct s as [|y s]; [discriminate|]. cbn [app startswith] in *.
  apply andb_true_iff in H as [H1 H2]. rewrite H1. cbn [andb]. apply IH. exact H2.
Qed.

Lemma contains_app_l p : forall s t, contains p (s ++ t) = false -> contains p s = false.
Proof.
  destruct p as [|x p].
  - intros s t H. exfalso. unfold contains, find in H. destruct (s ++ t); discriminate H.
  - induction s as [|c s IH]; intros t H.
    + reflexivity.
    + cbn [app] in H. rewrite contains_cons in H |- *. apply orb_false_iff in H as [H1 H2].
      rewrite (IH t H2), orb_false_r.
      destruct (startswith (x :: p) (c :: s)) eqn:E; [|reflexivity].
      change (c :: s ++ t) with ((c :: s) ++ t) in H1.
      rewrite (startswith_app _ _ t E) in H1. discriminate.
Qed.

Lemma no_double_dot_prefix s t : no_double_dot (s ++ t) = true -> no_double_dot s = true.
Proof.
  unfold no_double_dot. intros H. apply negb_true_iff in H. apply negb_true_iff.
  exact (contains_app_l _ _ _ H).
Qed.

Lemma layout_pad4_prefix (mn p1 u p2 v d : list N) :
  exists t, layout [] mn p1 u p2 v [32] [32] d [] = layout [] mn p1 u p2 v [32] (pad4 d) d [] ++ t.
Proof.
  destruct d as [|c d].
  - exists [32]. unfold layout. cbn [pad4 app]. rewrite <- !app_assoc. cbn [app].
    rewrite <- !app_assoc. cbn [app]. reflexivity.
  - exists []. rewrite app_nil_r. reflexivity.
Qed.

Section OneLine.
  Variable fstr : list N -> list N.
  Variables (k : skind) (o : item_order) (lw mw : nat) (it : hitem).
  Hypothesis Hconf : conf_item fstr k o lw mw it = true.
  Hypothesis Hcov : covers fstr o lw mw it.

  Let rhs := rhs_text fstr o it.
  Let tail := tail_text fstr o it.

  Lemma ol_fields :
    conf_mnem (i_orig it) = true /\ conf_unit (i_unit it) = true /\ conf_text rhs = true /\
    conf_text tail = true.
  Proof.
    unfold conf_item, conf_fields in Hconf. fold rhs tail in Hconf.
    apply andb_true_iff in Hconf as [H _]. apply andb_true_iff in H as [H _].
    apply andb_true_iff in H as [H H4]. apply andb_true_iff in H as [H H3].
    apply andb_true_iff in H as [H1 H2]. repeat split; assumption.
  Qed.

  Lemma ol_value_set_off : value_set_off (pad2 fstr o mw it) rhs = true.
  Proof.
    unfold value_set_off. pose proof (pad2_nonempty fstr o lw mw it Hcov) as H.
    destruct (pad2 fstr o mw it); [congruence|]. apply orb_true_r.
  Qed.

  (* the section-dependent side conditions of C04, for the fourth padding p4 = " " (the line as
     written) or p4 = pad4 tail (the line as parse_body strips it) *)
  Lemma ol_sect_ok p4 line :
    (p4 = [32] \/ p4 = pad4 tail) ->
    (k = KCurves -> no_double_dot line = true) ->
    sect_ok (is_curves_of k) (is_param_of k) line (i_unit it) rhs [32] p4 tail = true.
  Proof.
    intros Hp4 Hdd. unfold conf_item, conf_fields in Hconf. fold rhs tail in Hconf.
    apply andb_true_iff in Hconf as [H _]. apply andb_true_iff in H as [_ Hk].
    unfold sect_ok. apply andb_true_iff. split.
    - destruct k; cbn [is_curves_of negb orb]; try reflexivity.
      apply no_double_dot_plain. apply Hdd. reflexivity.
    - destruct k; cbn [is_param_of]; try exact Hk.
      apply andb_true_iff in Hk as [Hcc Hor]. rewrite Hcc. cbn [andb is_nil negb].
      destruct Hp4 as [->| ->]; [reflexivity|].
      destruct tail as [|c t]; cbn [pad4 is_nil negb andb orb] in *; [|reflexivity].
      rewrite Hor. reflexivity.
  Qed.

  Lemma ol_line_dd : k = KCurves -> no_double_dot (format_item fstr o lw mw it) = true.
  Proof.
    intros ->. unfold conf_item, conf_line in Hconf. apply andb_true_iff in Hconf as [_ H]. exact H.
  Qed.

  (* C03.3 the line as written *)
  Theorem line_roundtrip :
    read_header_line (format_item fstr o lw mw it) (is_curves_of k) (is_param_of k)
    = Some (mkhl (i_orig it) (i_unit it) rhs tail).
  Proof.
    destruct ol_fields as (Hm & Hu & Hr & Ht).
    rewrite format_is_layout. fold rhs tail. apply parse_all; try assumption.
    - unfold padding6. rewrite blanks_pad1, blanks_pad2. reflexivity.
    - exact ol_value_set_off.
    - apply ol_sect_ok; [left; reflexivity|]. intros Hk. unfold rhs, tail.
      rewrite <- format_is_layout. exact (ol_line_dd Hk).
  Qed.

  Lemma strip_format :
    strip (format_item fstr o lw mw it) =
    layout [] (i_orig it) (pad1 lw it) (i_unit it) (pad2 fstr o mw it) rhs [32] (pad4 tail) tail [].
  Proof.
    destruct ol_fields as (Hm & Hu & Hr & Ht).
    rewrite format_is_layout. fold rhs tail. unfold conf_mnem in Hm. unfold conf_text in Ht.
    apply andb_true_iff in Hm as [Hm Hs]. apply andb_true_iff in Hm as [Hm _].
    apply andb_true_iff in Hm as [Hne _]. apply andb_true_iff in Ht as [Ht _].
    apply strip_line; [apply is_nil_false; exact Hne|exact Hs|exact Ht].
  Qed.

  (* ... and the line as parse_body passes it on (stripped) *)
  Theorem stripped_line_roundtrip :
    read_header_line (strip (format_item fstr o lw mw it)) (is_curves_of k) (is_param_of k)
    = Some (mkhl (i_orig it) (i_unit it) rhs tail).
  Proof.
    destruct ol_fields as (Hm & Hu & Hr & Ht).
    rewrite strip_format. apply parse_all; try assumption.
    - unfold padding6. rewrite blanks_pad1, blanks_pad2, blanks_pad4. reflexivity.
    - exact ol_value_set_off.
    - apply ol_sect_ok; [right; reflexivity|]. intros Hk.
      destruct (layout_pad4_prefix (i_orig it) (pad1 lw it) (i_unit it) (pad2 fstr o mw it) rhs tail)
        as [t Ht'].
      apply (no_double_dot_prefix _ t). rewrite <- Ht'. unfold rhs, tail.
      rewrite <- format_is_layout. exact (ol_line_dd Hk).
  Qed.

  (* the first character of the stripped line is the first character of the mnemonic *)
  Lemma strip_format_head :
    exists c0 rest mn', i_orig it = c0 :: mn' /\ strip (format_item fstr o lw mw it) = c0 :: rest.
  Proof.
    destruct ol_fields as (Hm & _). rewrite strip_format. unfold conf_mnem in Hm.
    destruct (i_orig it) as [|c0 mn'] eqn:E; [discriminate Hm|].
    eexists c0, _, mn'. split; [reflexivity|]. unfold layout. cbn [app]. reflexivity.
  Qed.
End OneLine.

(* ====================================================================================== *)
(* 4. one item: parse_line / build_item undo the writer's value/description order          *)
(* ====================================================================================== *)
Lemma is_number_string_case c m : is_number_string (apply_case c m) = is_number_string m.
Proof. unfold is_number_string. rewrite upper_apply_case. reflexivity. Qed.

(* the value the reader builds from the text s of a value, per section kind *)
Definition read_value (k : skind) (name s : list N) : hval :=
  match k with
  | KCurves => VStr s
  | KParameter => num s
  | _ => if is_number_string name then VStr s else num s
  end.

(* what reading the written line of an item gives *)
Definition expected_item (fstr : list N -> list N) (k : skind) (c : mcase) (it : hitem) : hitem :=
  new_item (apply_case c (i_orig it)) (strip_brackets (i_unit it))
           (read_value k (i_orig it) (vstr fstr (i_value it))) (i_descr it).

Lemma build_item_unswaps fstr v k o name u (it : hitem) :
  o = reader_order v k name ->
  build_item v k (mkhl name u (rhs_text fstr o it) (tail_text fstr o it)) =
  new_item name (strip_brackets u) (read_value k name (vstr fstr (i_value it))) (i_descr it).
Proof.
  intros Ho.
  destruct k; cbn [reader_order] in Ho;
    cbn [build_item h_name h_unit h_value h_descr read_value];
    try (rewrite <- Ho; destruct o; reflexivity); subst o; reflexivity.
Qed.

Section OneItem.
  Variable fstr : list N -> list N.
  Variables (v : las_version) (k : skind) (c : mcase) (o : item_order) (lw mw : nat) (it : hitem).
  Hypothesis Hconf : conf_item fstr k o lw mw it = true.
  Hypothesis Hcov : covers fstr o lw mw it.
  Hypothesis Hord : o = reader_order v k (apply_case c (i_orig it)).

  Lemma parse_line_of_hline line :
    read_header_line line (is_curves_of k) (is_param_of k)
    = Some (mkhl (i_orig it) (i_unit it) (rhs_text fstr o it) (tail_text fstr o it)) ->
    parse_line v k c line = Some (expected_item fstr k c it).
  Proof.
    intros H. unfold parse_line.
    change (match k with KCurves => true | _ => false end) with (is_curves_of k).
    change (match k with KParameter => true | _ => false end) with (is_param_of k).
    rewrite H. cbn [h_name h_unit h_value h_descr].
    rewrite (build_item_unswaps fstr v k o _ _ it Hord). unfold expected_item, read_value.
    rewrite is_number_string_case. reflexivity.
  Qed.

  (* C03.4 *)
  Theorem item_roundtrip :
    parse_line v k c (format_item fstr o lw mw it) = Some (expected_item fstr k c it).
  Proof. apply parse_line_of_hline. exact (line_roundtrip fstr k o lw mw it Hconf Hcov). Qed.

  Theorem stripped_item_roundtrip :
    parse_line v k c (strip (format_item fstr o lw mw it)) = Some (expected_item fstr k c it).
  Proof. apply parse_line_of_hline. exact (stripped_line_roundtrip fstr k o lw mw it Hconf Hcov). Qed.
End OneItem.

(* ---------- the fields of the expected item -------------------------------------------- *)
(* the unit is not a bracketed text [..] or (..) *)
Definition not_bracketed (u : list N) : bool :=
  negb (((hd 0 u =? 91) && (last u 0 =? 93)) || ((hd 0 u =? 40) && (last u 0 =? 41))).

Lemma strip_brackets_plain u : stripped u = true -> not_bracketed u = true -> strip_brackets u = u.
Proof.
  intros Hs Hb. unfold strip_brackets. cbn [strip_brackets_fuel]. rewrite (strip_stripped u Hs).
  destruct u as [|a [|b u]]; [reflexivity|reflexivity|].
  unfold not_bracketed in Hb. cbn [hd] in Hb. apply negb_true_iff in Hb. rewrite Hb. reflexivity.
Qed.

Lemma strip_brackets_conf u : conf_unit u = true -> not_bracketed u = true -> strip_brackets u = u.
Proof.
  intros Hu. apply strip_brackets_plain. unfold conf_unit in Hu.
  apply andb_true_iff in Hu as [Hu _]. apply andb_true_iff in Hu as [Hu _].
  apply no_space_stripped. exact Hu.
Qed.

(* text values that are not plain decimal literals come back verbatim, in every section *)
Lemma read_value_text k name s : ~ plain_decimal (comma_to_dot s) -> read_value k name s = VStr s.
Proof.
  intros H. unfold read_value. destruct k; try reflexivity;
    try (destruct (is_number_string name); [reflexivity|]); apply num_text; exact H.
Qed.

(* ~Curves values and API / UWI outside ~Parameter are never converted *)
Lemma read_value_curves name s : read_value KCurves name s = VStr s.
Proof. reflexivity. Qed.
Lemma read_value_number_string k name s :
  k <> KParameter -> is_number_string name = true -> read_value k name s = VStr s.
Proof. intros Hk Hn. unfold read_value. destruct k; try reflexivity; try rewrite Hn; try reflexivity. congruence. Qed.

(* "numbers compared numerically": equality of header values up to the float literal *)
Definition val_equiv (numeq : list N -> list N -> bool) (a b : hval) : Prop :=
  match a, b with
  | VFloat x, VFloat y => numeq x y = true
  | _, _ => a = b
  end.

Lemma read_value_numeric numeq fstr k name val :
  k <> KCurves -> (k = KParameter \/ is_number_string name = false) ->
  val_equiv numeq (num (vstr fstr val)) val ->
  val_equiv numeq (read_value k name (vstr fstr val)) val.
Proof.
  intros Hc Hn H. unfold read_value. destruct k; try congruence; try exact H;
    destruct Hn as [Hn|Hn]; try discriminate Hn; rewrite Hn; exact H.
Qed.

(* under the two hypotheses "unit not bracketed" and "the value text reads back as the value"
   the item read back is the item written, with the mnemonic case-mapped *)
Lemma expected_meta fstr k c it :
  conf_unit (i_unit it) = true -> not_bracketed (i_unit it) = true ->
  read_value k (i_orig it) (vstr fstr (i_value it)) = i_value it ->
  meta (expected_item fstr k c it) = (apply_case c (i_orig it), i_unit it, i_value it, i_descr it).
Proof.
  intros Hu Hb Hv. unfold expected_item, meta, new_item. cbn [i_orig i_unit i_value i_descr].
  rewrite Hv, (strip_brackets_conf _ Hu Hb). reflexivity.
Qed.

(* ====================================================================================== *)
(* 5. a whole section                                                                      *)
(* ====================================================================================== *)
(* the line is neither a comment nor a section title: first character of the mnemonic *)
Definition starts_ok (cc : list N) (it : hitem) : bool :=
  match i_orig it with [] => false | c0 :: _ => negb (in_str c0 cc) && negb (c0 =? 126) end.

Lemma parse_body_step v k c ie cc tr raw rest acc c0 L x :
  strip raw = c0 :: L -> in_str c0 cc = false -> (c0 =? 126) = false ->
  parse_line v k c (c0 :: L) = Some x ->
  parse_body v k c ie cc tr (raw :: rest) acc = parse_body v k c ie cc tr rest (sect_append tr acc x).
Proof.
  intros Hs H1 H2 H3. cbn [parse_body]. rewrite Hs, H1. change ch_tilde with 126.
  rewrite H2, H3. reflexivity.
Qed.

Definition item_ok (fstr : list N -> list N) (v : las_version) (k : skind) (c : mcase) (cc : list N)
           (ord : hitem -> item_order) (lw mw : nat) (it : hitem) : Prop :=
  conf_item fstr k (ord it) lw mw it = true /\ covers fstr (ord it) lw mw it /\
  ord it = reader_order v k (apply_case c (i_orig it)) /\ starts_ok cc it = true.

Theorem body_roundtrip fstr v k c ie cc tr lw mw (ord : hitem -> item_order) : forall items acc,
  (forall it, In it items -> item_ok fstr v k c cc ord lw mw it) ->
  exists acc',
    parse_body v k c ie cc tr (map (fun it => format_item fstr (ord it) lw mw it) items) acc = POk acc' /\
    map meta acc' = map meta acc ++ map (fun it => meta (expected_item fstr k c it)) items.
Proof.
  induction items as [|it items IH]; intros acc Hall.
  - exists acc. split; [reflexivity|]. cbn [map]. rewrite app_nil_r. reflexivity.
  - destruct (Hall it (or_introl eq_refl)) as (Hconf & Hcov & Hord & Hst).
    destruct (strip_format_head fstr k (ord it) lw mw it Hconf) as (c0 & L & mn' & Hmn & Hs).
    unfold starts_ok in Hst. rewrite Hmn in Hst. apply andb_true_iff in Hst as [H1 H2].
    apply negb_true_iff in H1. apply negb_true_iff in H2.
    pose proof (stripped_item_roundtrip fstr v k c (ord it) lw mw it Hconf Hcov Hord) as Hp.
    rewrite Hs in Hp. cbn [map].
    rewrite (parse_body_step v k c ie cc tr _ _ acc c0 L _ Hs H1 H2 Hp).
    destruct (IH (sect_append tr acc (expected_item fstr k c it))
                 (fun it' Hin => Hall it' (or_intror Hin))) as (acc' & Hpb & Hmeta).
    exists acc'. split; [exact Hpb|]. rewrite Hmeta, sect_append_meta, <- app_assoc. reflexivity.
Qed.

(* C03.5 the lines section_lines writes for a standard section read back, in order, as the
   expected items — widths and orders are the ones section_lines computes *)
Theorem section_roundtrip fstr v k c ie cc tr items : is_std k = true ->
  (forall it, In it items ->
     conf_item fstr k (sec_ord v (sect_table_name k) it) (sec_lw items)
               (sec_mw fstr (sec_ord v (sect_table_name k)) items) it = true /\
     starts_ok cc it = true) ->
  exists lines items',
    section_lines fstr v (sect_table_name k) items = Some lines /\
    parse_body v k c ie cc tr lines [] = POk items' /\
    map meta items' = map (fun it => meta (expected_item fstr k c it)) items.
Proof.
  intros Hk Hall. rewrite section_lines_eq. destruct (lookup_complete v k Hk) as [e He]. rewrite He.
  destruct (body_roundtrip fstr v k c ie cc tr (sec_lw items)
              (sec_mw fstr (sec_ord v (sect_table_name k)) items) (sec_ord v (sect_table_name k)) items [])
    as (acc' & Hpb & Hmeta).
  - intros it Hin. destruct (Hall it Hin) as [Hc Hs]. split; [exact Hc|]. split; [|split; [|exact Hs]].
    + apply widths_cover. exact Hin.
    + unfold sec_ord. rewrite (writer_order_is_reader_order v k c (i_orig it) Hk). reflexivity.
  - eexists _, acc'. split; [reflexivity|]. split; [exact Hpb|]. exact Hmeta.
Qed.

(* ====================================================================================== *)
(* 6. standardize_value                                                                    *)
(* ====================================================================================== *)
Lemma standardize_cases fzero (val : hval) (u : list N) :
  (standardize fzero val u = val /\ val <> VNone /\ (u = [] \/ val <> VStr []))
  \/ (val = VNone /\ u = [] /\ standardize fzero val u = VStr [])
  \/ (u <> [] /\ (val = VNone \/ val = VStr []) /\ standardize fzero val u = VInt 0).
Proof.
  unfold standardize. destruct u as [|c u].
  - destruct val; [left|left|left|right; left]; repeat split; try discriminate; try (left; reflexivity).
  - destruct val as [z|l|s|]; cbn [v_falsy v_is_zero].
    + left. destruct (z =? 0)%Z; cbn [andb negb]; repeat split; try discriminate; right; discriminate.
    + left. destruct (fzero l); cbn [andb negb]; repeat split; try discriminate; right; discriminate.
    + destruct s as [|d s]; cbn [andb negb].
      * right; right. repeat split; [discriminate|right; reflexivity].
      * left. repeat split; try discriminate. right. discriminate.
    + right; right. cbn [andb negb]. repeat split; [discriminate|left; reflexivity].
Qed.

Lemma standardize_idem fzero (val : hval) (u : list N) :
  standardize fzero (standardize fzero val u) u = standardize fzero val u.
Proof.
  destruct (standardize_cases fzero val u) as [(H & _ & _)|[(Hv & Hu & H)|(Hu & Hv & H)]].
  - rewrite H. exact H.
  - rewrite H. subst u. reflexivity.
  - rewrite H. unfold standardize. destruct u as [|c u]; [congruence|]. reflexivity.
Qed.

(* ====================================================================================== *)
(* 7. the value/description order is a matter of the text only (C12)                       *)
(* ====================================================================================== *)
(* what is on disk for each order *)
Lemma format_value_first fstr lw mw it :
  format_item fstr ValueDescr lw mw it =
  layout [] (i_orig it) (pad1 lw it) (i_unit it) (pad2 fstr ValueDescr mw it) (vstr fstr (i_value it))
         [32] [32] (i_descr it) [].
Proof. apply format_is_layout. Qed.
Lemma format_descr_first fstr lw mw it :
  format_item fstr DescrValue lw mw it =
  layout [] (i_orig it) (pad1 lw it) (i_unit it) (pad2 fstr DescrValue mw it) (i_descr it)
         [32] [32] (vstr fstr (i_value it)) [].
Proof. apply format_is_layout. Qed.

(* an item written for version v1 and read as version v1, and the same item written for v2 and
   read as v2 (column widths arbitrary, possibly different), give the same item: the expected
   item mentions neither the version nor the order *)
Theorem version_swap_meaning fstr k c it v1 v2 lw1 mw1 lw2 mw2 : is_std k = true ->
  let o1 := sec_ord v1 (sect_table_name k) it in
  let o2 := sec_ord v2 (sect_table_name k) it in
  conf_item fstr k o1 lw1 mw1 it = true -> covers fstr o1 lw1 mw1 it ->
  conf_item fstr k o2 lw2 mw2 it = true -> covers fstr o2 lw2 mw2 it ->
  parse_line v1 k c (format_item fstr o1 lw1 mw1 it) = Some (expected_item fstr k c it) /\
  parse_line v2 k c (format_item fstr o2 lw2 mw2 it) = Some (expected_item fstr k c it).
Proof.
  intros Hk o1 o2 Hc1 Hv1 Hc2 Hv2. split; apply item_roundtrip; try assumption.
  - unfold o1, sec_ord. rewrite (writer_order_is_reader_order v1 k c (i_orig it) Hk). reflexivity.
  - unfold o2, sec_ord. rewrite (writer_order_is_reader_order v2 k c (i_orig it) Hk). reflexivity.
Qed.

(* for ~Well the two orders really differ between 1.2 and 2.0, except for the listed mnemonics *)
Lemma well_orders_differ it : is_exception V12 KWell (i_orig it) = false ->
  sec_ord V12 (sect_table_name KWell) it = DescrValue /\ sec_ord V20 (sect_table_name KWell) it = ValueDescr.
Proof.
  intros Hx. unfold sec_ord.
  rewrite !(order_tables_agree _ KWell _ eq_refl).
  rewrite (order_for_default V12 KWell _ eq_refl Hx), well_default_12.
  rewrite (order_for_default V20 KWell _ eq_refl (well_20_no_exception _)), well_default_20. split; reflexivity.
Qed.

(* ====================================================================================== *)
(* 8. ~Curves: "no '..' in the line" from conditions on the fields                         *)
(* ====================================================================================== *)
Definition dd (s : list N) : bool := contains [46; 46] s.

Lemma dd_nil : dd [] = false.
Proof. reflexivity. Qed.

Lemma dd_cons x s : dd (x :: s) = ((x =? 46) && startswith [46] s) || dd s.
Proof.
  unfold dd. rewrite contains_cons. f_equal. cbn [startswith]. rewrite (N.eqb_sym 46 x). reflexivity.
Qed.

Lemma sw_app_ne (a b : list N) : a <> [] -> startswith [46] (a ++ b) = startswith [46] a.
Proof. destruct a as [|x a]; [congruence|]. intros _. cbn [app startswith]. reflexivity. Qed.

Lemma ew_single x : endswith [46] [x] = (x =? 46).
Proof. unfold endswith. cbn [rev app startswith]. rewrite andb_true_r. apply N.eqb_sym. Qed.

(* no ".." in a ++ b when there is none in a, none in b, and none across the seam *)
Lemma dd_app_false : forall a b,
  dd a = false -> dd b = false -> endswith [46] a = false \/ startswith [46] b = false ->
  dd (a ++ b) = false.
Proof.
  induction a as [|x a IH]; intros b Ha Hb Hseam; [exact Hb|].
  cbn [app]. rewrite dd_cons in Ha |- *. apply orb_false_iff in Ha as [Hx Ha].
  destruct a as [|y a].
  - cbn [app]. rewrite Hb, orb_false_r. rewrite ew_single in Hseam.
    destruct Hseam as [-> | ->]; [reflexivity|apply andb_false_r].
  - rewrite IH; [|exact Ha|exact Hb|].
    + rewrite orb_false_r. rewrite sw_app_ne by discriminate. exact Hx.
    + destruct Hseam as [H|H]; [left|right; exact H].
      change (x :: y :: a) with ([x] ++ (y :: a)) in H.
      rewrite endswith_app_ne in H by discriminate. exact H.
Qed.

Lemma nodot_dd s : in_str 46 s = false -> dd s = false.
Proof.
  induction s as [|x s IH]; intros H; [reflexivity|]. rewrite in_str_cons in H.
  apply orb_false_iff in H as [Hx Hs]. rewrite dd_cons, (IH Hs), (N.eqb_sym x 46), Hx. reflexivity.
Qed.

Lemma nodot_ew s : in_str 46 s = false -> endswith [46] s = false.
Proof.
  intros H. unfold endswith. cbn [rev app]. destruct (rev s) as [|x r] eqn:E; [reflexivity|].
  cbn [startswith]. rewrite andb_true_r.
  assert (Hin : In x s) by (apply in_rev; rewrite E; left; reflexivity).
  destruct (46 =? x) eqn:Ex; [|reflexivity]. apply N.eqb_eq in Ex. subst x.
  unfold in_str in H. assert (Ht : existsb (N.eqb 46) s = true)
    by (apply existsb_exists; exists 46; split; [exact Hin|apply N.eqb_refl]).
  rewrite Ht in H. discriminate.
Qed.

Lemma nodot_sw s : in_str 46 s = false -> startswith [46] s = false.
Proof.
  destruct s as [|x s]; [reflexivity|]. rewrite in_str_cons. intros H.
  apply orb_false_iff in H as [Hx _]. cbn [startswith]. rewrite Hx. reflexivity.
Qed.

Lemma blanks_nodot p : blanks p = true -> in_str 46 p = false.
Proof. apply blanks_in_str. reflexivity. Qed.

(* unit without "..", not starting with '.'; the two text fields without ".." *)
Definition curves_fields_ok (fstr : list N -> list N) (o : item_order) (it : hitem) : bool :=
  negb (dd (i_unit it)) && negb (startswith [46] (i_unit it)) &&
  negb (dd (rhs_text fstr o it)) && negb (dd (tail_text fstr o it)).

Theorem curves_line_ok fstr o lw mw it :
  conf_mnem (i_orig it) = true -> conf_unit (i_unit it) = true -> covers fstr o lw mw it ->
  curves_fields_ok fstr o it = true ->
  no_double_dot (format_item fstr o lw mw it) = true.
Proof.
  intros Hm Hu Hcov Hf. unfold curves_fields_ok in Hf.
  apply andb_true_iff in Hf as [Hf Ht]. apply andb_true_iff in Hf as [Hf Hr].
  apply andb_true_iff in Hf as [Hud Hus].
  apply negb_true_iff in Ht, Hr, Hud, Hus.
  unfold conf_mnem in Hm. apply andb_true_iff in Hm as [Hm _]. apply andb_true_iff in Hm as [Hm _].
  apply andb_true_iff in Hm as [_ Hmd]. apply negb_true_iff in Hmd.
  unfold conf_unit in Hu. apply andb_true_iff in Hu as [Hu _]. apply andb_true_iff in Hu as [_ Hue].
  apply negb_true_iff in Hue.
  pose proof (pad2_nonempty fstr o lw mw it Hcov) as Hp2.
  pose proof (blanks_nodot _ (blanks_pad2 fstr o mw it)) as Hp2d.
  pose proof (blanks_nodot _ (blanks_pad1 lw it)) as Hp1d.
  unfold no_double_dot. apply negb_true_iff. change (contains [46; 46]) with dd.
  rewrite format_is_layout. unfold layout. cbn [app]. rewrite app_nil_r.
  set (rhs := rhs_text fstr o it) in *. set (tail := tail_text fstr o it) in *.
  set (p2 := pad2 fstr o mw it) in *. set (p1 := pad1 lw it) in *.
  (* from the right *)
  assert (T0 : dd (32 :: 58 :: 32 :: tail) = false).
  { rewrite !dd_cons. cbn. exact Ht. }
  assert (T1 : dd (rhs ++ 32 :: 58 :: 32 :: tail) = false).
  { apply dd_app_false; [exact Hr|exact T0|right; reflexivity]. }
  assert (T2 : dd (p2 ++ rhs ++ 32 :: 58 :: 32 :: tail) = false).
  { apply dd_app_false; [apply nodot_dd; exact Hp2d|exact T1|left; apply nodot_ew; exact Hp2d]. }
  assert (S2 : startswith [46] (p2 ++ rhs ++ 32 :: 58 :: 32 :: tail) = false).
  { rewrite sw_app_ne by exact Hp2. apply nodot_sw. exact Hp2d. }
  assert (T3 : dd (i_unit it ++ p2 ++ rhs ++ 32 :: 58 :: 32 :: tail) = false).
  { apply dd_app_false; [exact Hud|exact T2|right; exact S2]. }
  assert (S3 : startswith [46] (i_unit it ++ p2 ++ rhs ++ 32 :: 58 :: 32 :: tail) = false).
  { destruct (i_unit it) as [|c u] eqn:E; [exact S2|]. rewrite sw_app_ne by discriminate. exact Hus. }
  assert (T4 : dd (46 :: i_unit it ++ p2 ++ rhs ++ 32 :: 58 :: 32 :: tail) = false).
  { rewrite dd_cons, S3, T3. reflexivity. }
  rewrite app_assoc. apply dd_app_false; [|exact T4|left].
  - apply nodot_dd. rewrite in_str_app, Hmd, Hp1d. reflexivity.
  - apply nodot_ew. rewrite in_str_app, Hmd, Hp1d. reflexivity.
Qed.

(* ====================================================================================== *)
(* 9. blank mnemonics, on lines with no further period                                     *)
(* ====================================================================================== *)
(* the item has an empty mnemonic; unit, value and description are conformant as before and
   contain no period (the leading period of the stripped line is then the only one) *)
Definition conf_blank (fstr : list N -> list N) (k : skind) (o : item_order) (it : hitem) : bool :=
  let rhs := rhs_text fstr o it in
  let tail := tail_text fstr o it in
  is_nil (i_orig it) && conf_unit (i_unit it) && conf_text rhs && conf_text tail &&
  negb (in_str 46 (i_unit it)) && negb (in_str 46 rhs) && negb (in_str 46 tail) &&
  match k with
  | KParameter => clock_colons rhs && (negb (is_nil tail) || negb (in_str 58 (i_unit it)))
  | _ => negb (in_str 58 tail)
  end.

Lemma strip_blank_line (p1 u p2 v d : list N) :
  blanks p1 = true -> stripped d = true ->
  strip (layout [] [] p1 u p2 v [32] [32] d []) = layout_blank u p2 v [32] (pad4 d) d [].
Proof.
  intros Hp1 Hd. unfold layout, layout_blank. cbn [app]. rewrite !app_nil_r.
  destruct d as [|c d].
  - cbn [pad4 app].
    replace (p1 ++ 46 :: u ++ p2 ++ v ++ [32; 58; 32])
      with (p1 ++ ([46] ++ (u ++ p2 ++ v ++ [32]) ++ [58]) ++ [32]).
    + rewrite strip_pad; [|exact Hp1|reflexivity|].
      * cbn [app]. rewrite <- !app_assoc. reflexivity.
      * apply stripped_sandwich; [discriminate|discriminate|reflexivity|reflexivity].
    + cbn [app]. rewrite <- !app_assoc. cbn [app]. reflexivity.
  - cbn [pad4 app].
    replace (p1 ++ 46 :: u ++ p2 ++ v ++ 32 :: 58 :: 32 :: c :: d)
      with (p1 ++ ([46] ++ (u ++ p2 ++ v ++ [32; 58; 32]) ++ c :: d) ++ []).
    + rewrite strip_pad; [|exact Hp1|reflexivity|].
      * cbn [app]. rewrite <- !app_assoc. reflexivity.
      * apply stripped_sandwich; [discriminate|discriminate|reflexivity|exact Hd].
    + rewrite app_nil_r. cbn [app]. rewrite <- !app_assoc. reflexivity.
Qed.

Section BlankLine.
  Variable fstr : list N -> list N.
  Variables (k : skind) (o : item_order) (lw mw : nat) (it : hitem).
  Hypothesis Hconf : conf_blank fstr k o it = true.
  Hypothesis Hcov : covers fstr o lw mw it.

  Let rhs := rhs_text fstr o it.
  Let tail := tail_text fstr o it.

  Lemma bl_fields :
    i_orig it = [] /\ conf_unit (i_unit it) = true /\ conf_text rhs = true /\ conf_text tail = true /\
    in_str 46 (i_unit it) = false /\ in_str 46 rhs = false /\ in_str 46 tail = false /\
    match k with
    | KParameter => clock_colons rhs && (negb (is_nil tail) || negb (in_str 58 (i_unit it)))
    | _ => negb (in_str 58 tail)
    end = true.
  Proof.
    unfold conf_blank in Hconf. fold rhs tail in Hconf.
    apply andb_true_iff in Hconf as [H H8]. apply andb_true_iff in H as [H H7].
    apply andb_true_iff in H as [H H6]. apply andb_true_iff in H as [H H5].
    apply andb_true_iff in H as [H H4]. apply andb_true_iff in H as [H H3].
    apply andb_true_iff in H as [H1 H2].
    apply negb_true_iff in H5, H6, H7.
    destruct (i_orig it); [|discriminate H1]. repeat split; assumption.
  Qed.

  Lemma strip_format_blank :
    strip (format_item fstr o lw mw it) =
    layout_blank (i_unit it) (pad2 fstr o mw it) rhs [32] (pad4 tail) tail [].
  Proof.
    destruct bl_fields as (Hm & _ & _ & Ht & _). rewrite format_is_layout. fold rhs tail.
    pose proof (blanks_pad1 lw it) as Hp1. rewrite Hm in *.
    unfold conf_text in Ht. apply andb_true_iff in Ht as [Ht _].
    apply strip_blank_line; assumption.
  Qed.

  Theorem blank_stripped_line_roundtrip :
    read_header_line (strip (format_item fstr o lw mw it)) (is_curves_of k) (is_param_of k)
    = Some (mkhl [] (i_unit it) rhs tail).
  Proof.
    destruct bl_fields as (Hm & Hu & Hr & Ht & Hud & Hrd & Htd & Hk).
    rewrite strip_format_blank. apply blank_name_parse; try assumption.
    - rewrite blanks_pad2, blanks_pad4. reflexivity.
    - unfold value_set_off. pose proof (pad2_nonempty fstr o lw mw it Hcov) as H.
      destruct (pad2 fstr o mw it); [congruence|]. apply orb_true_r.
    - unfold sect_ok. apply andb_true_iff. split.
      + destruct k; cbn [is_curves_of negb orb]; try reflexivity.
        apply no_double_dot_plain. unfold no_double_dot. apply negb_true_iff.
        change (contains [46; 46]) with dd. unfold layout_blank. cbn [app].
        pose proof (blanks_nodot _ (blanks_pad2 fstr o mw it)) as Hp2d.
        assert (HR : in_str 46 (i_unit it ++ pad2 fstr o mw it ++ rhs ++ 32 :: 58 :: pad4 tail ++ tail ++ []) = false).
        { rewrite !in_str_app, !in_str_cons, !in_str_app, Hud, Hp2d, Hrd, Htd.
          rewrite (blanks_nodot _ (blanks_pad4 tail)). reflexivity. }
        rewrite dd_cons, (nodot_sw _ HR), (nodot_dd _ HR). reflexivity.
      + destruct k; cbn [is_param_of]; try exact Hk.
        apply andb_true_iff in Hk as [Hcc Hor]. rewrite Hcc. cbn [andb is_nil negb].
        destruct tail as [|c t]; cbn [pad4 is_nil negb andb orb] in *; [|reflexivity].
        rewrite Hor. reflexivity.
  Qed.
End BlankLine.

(* a line that parse_body reads as the item x *)
Definition line_reads (v : las_version) (k : skind) (c : mcase) (cc : list N) (raw : list N) (x : hitem) : Prop :=
  exists c0 L, strip raw = c0 :: L /\ in_str c0 cc = false /\ (c0 =? 126) = false /\
               parse_line v k c (c0 :: L) = Some x.

Theorem body_roundtrip_gen fstr v k c ie cc tr (line : hitem -> list N) : forall items acc,
  (forall it, In it items -> line_reads v k c cc (line it) (expected_item fstr k c it)) ->
  exists acc',
    parse_body v k c ie cc tr (map line items) acc = POk acc' /\
    map meta acc' = map meta acc ++ map (fun it => meta (expected_item fstr k c it)) items.
Proof.
  induction items as [|it items IH]; intros acc Hall.
  - exists acc. split; [reflexivity|]. cbn [map]. rewrite app_nil_r. reflexivity.
  - destruct (Hall it (or_introl eq_refl)) as (c0 & L & Hs & H1 & H2 & Hp). cbn [map].
    rewrite (parse_body_step v k c ie cc tr _ _ acc c0 L _ Hs H1 H2 Hp).
    destruct (IH (sect_append tr acc (expected_item fstr k c it))
                 (fun it' Hin => Hall it' (or_intror Hin))) as (acc' & Hpb & Hmeta).
    exists acc'. split; [exact Hpb|]. rewrite Hmeta, sect_append_meta, <- app_assoc. reflexivity.
Qed.

Lemma line_reads_conf fstr v k c cc o lw mw it :
  conf_item fstr k o lw mw it = true -> covers fstr o lw mw it ->
  o = reader_order v k (apply_case c (i_orig it)) -> starts_ok cc it = true ->
  line_reads v k c cc (format_item fstr o lw mw it) (expected_item fstr k c it).
Proof.
  intros Hconf Hcov Hord Hst.
  destruct (strip_format_head fstr k o lw mw it Hconf) as (c0 & L & mn' & Hmn & Hs).
  unfold starts_ok in Hst. rewrite Hmn in Hst. apply andb_true_iff in Hst as [H1 H2].
  apply negb_true_iff in H1. apply negb_true_iff in H2.
  pose proof (stripped_item_roundtrip fstr v k c o lw mw it Hconf Hcov Hord) as Hp.
  rewrite Hs in Hp. exists c0, L. repeat split; assumption.
Qed.

Lemma line_reads_blank fstr v k c cc o lw mw it :
  conf_blank fstr k o it = true -> covers fstr o lw mw it ->
  o = reader_order v k (apply_case c (i_orig it)) -> in_str 46 cc = false ->
  line_reads v k c cc (format_item fstr o lw mw it) (expected_item fstr k c it).
Proof.
  intros Hconf Hcov Hord Hcc.
  pose proof (blank_stripped_line_roundtrip fstr k o lw mw it Hconf Hcov) as Hr.
  pose proof (strip_format_blank fstr k o lw mw it Hconf) as Hs.
  destruct (bl_fields fstr k o it Hconf) as (Hm & _).
  unfold layout_blank in Hs. cbn [app] in Hs.
  eexists 46, _. split; [exact Hs|]. split; [exact Hcc|]. split; [reflexivity|].
  rewrite <- Hs. apply (parse_line_of_hline fstr v k c o it Hord). rewrite Hm. exact Hr.
Qed.

(* C03.5 with blank mnemonics: every item is conformant, or has a blank mnemonic and no period *)
Theorem section_roundtrip_blanks fstr v k c ie cc tr items : is_std k = true ->
  (forall it, In it items ->
     (conf_item fstr k (sec_ord v (sect_table_name k) it) (sec_lw items)
                (sec_mw fstr (sec_ord v (sect_table_name k)) items) it = true /\
      starts_ok cc it = true)
     \/ (conf_blank fstr k (sec_ord v (sect_table_name k) it) it = true /\ in_str 46 cc = false)) ->
  exists lines items',
    section_lines fstr v (sect_table_name k) items = Some lines /\
    parse_body v k c ie cc tr lines [] = POk items' /\
    map meta items' = map (fun it => meta (expected_item fstr k c it)) items.
Proof.
  intros Hk Hall. rewrite section_lines_eq. destruct (lookup_complete v k Hk) as [e He]. rewrite He.
  destruct (body_roundtrip_gen fstr v k c ie cc tr
              (fun it => format_item fstr (sec_ord v (sect_table_name k) it) (sec_lw items)
                           (sec_mw fstr (sec_ord v (sect_table_name k)) items) it) items [])
    as (acc' & Hpb & Hmeta).
  - intros it Hin.
    assert (Hord : sec_ord v (sect_table_name k) it = reader_order v k (apply_case c (i_orig it))).
    { unfold sec_ord. rewrite (writer_order_is_reader_order v k c (i_orig it) Hk). reflexivity. }
    pose proof (widths_cover fstr (sec_ord v (sect_table_name k)) items it Hin) as Hcov.
    destruct (Hall it Hin) as [[Hc Hs]|[Hb Hcc]].
    + apply line_reads_conf; assumption.
    + apply line_reads_blank; assumption.
  - eexists _, acc'. split; [reflexivity|]. split; [exact Hpb|]. exact Hmeta.
Qed.

(* ====================================================================================== *)
(* 10. integer values read back exactly (no oracle)                                        *)
(* ====================================================================================== *)
Lemma read_value_int fstr k name z :
  k <> KCurves -> (k = KParameter \/ is_number_string name = false) -> in_int64 z = true ->
  read_value k name (vstr fstr (VInt z)) = VInt z.
Proof.
  intros Hc Hn Hz. cbn [vstr]. unfold read_value.
  destruct k; try congruence; try (apply num_z_to_str; exact Hz);
    destruct Hn as [Hn|Hn]; try discriminate Hn; rewrite Hn; apply num_z_to_str; exact Hz.
Qed.

(* ====================================================================================== *)
(* 11. statements as Props/C03.v and Props/C12.v quote them                                *)
(* ====================================================================================== *)
Lemma padding_facts fstr o lw mw it :
  blanks (pad1 lw it) = true /\ blanks (pad2 fstr o mw it) = true /\
  (covers fstr o lw mw it -> (1 <= List.length (pad2 fstr o mw it))%nat).
Proof. split; [apply blanks_pad1|]. split; [apply blanks_pad2|]. apply pad2_length. Qed.

Lemma expected_item_fields fstr k c it :
  i_orig (expected_item fstr k c it) = apply_case c (i_orig it) /\
  i_unit (expected_item fstr k c it) = strip_brackets (i_unit it) /\
  i_value (expected_item fstr k c it) = read_value k (i_orig it) (vstr fstr (i_value it)) /\
  i_descr (expected_item fstr k c it) = i_descr it.
Proof. repeat split. Qed.

Lemma blank_mnemonic_line fstr k o lw mw it :
  conf_blank fstr k o it = true -> covers fstr o lw mw it ->
  strip (format_item fstr o lw mw it) =
    layout_blank (i_unit it) (pad2 fstr o mw it) (rhs_text fstr o it) [32]
                 (pad4 (tail_text fstr o it)) (tail_text fstr o it) [] /\
  read_header_line (strip (format_item fstr o lw mw it)) (is_curves_of k) (is_param_of k)
  = Some (mkhl [] (i_unit it) (rhs_text fstr o it) (tail_text fstr o it)).
Proof.
  intros Hc Hv. split.
  - exact (strip_format_blank fstr k o lw mw it Hc).
  - exact (blank_stripped_line_roundtrip fstr k o lw mw it Hc Hv).
Qed.

Lemma swap_on_disk fstr lw mw it :
  is_exception V12 KWell (i_orig it) = false ->
  sec_ord V12 (sect_table_name KWell) it = DescrValue /\
  sec_ord V20 (sect_table_name KWell) it = ValueDescr /\
  format_item fstr DescrValue lw mw it =
    layout [] (i_orig it) (pad1 lw it) (i_unit it) (pad2 fstr DescrValue mw it) (i_descr it)
           [32] [32] (vstr fstr (i_value it)) [] /\
  format_item fstr ValueDescr lw mw it =
    layout [] (i_orig it) (pad1 lw it) (i_unit it) (pad2 fstr ValueDescr mw it) (vstr fstr (i_value it))
           [32] [32] (i_descr it) [].
Proof.
  intros Hx. destruct (well_orders_differ it Hx) as [H1 H2].
  split; [exact H1|]. split; [exact H2|]. split; [apply format_descr_first|apply format_value_first].
Qed.
