(* Proofs.FileRoundTripVersion — C12 at file level: the same object written as LAS 1.2 and as
   LAS 2.0 (all other options equal) reads back with the same ~Well, ~Curves, ~Parameter
   metadata, the same ~Other text and the same data.  (The ~Well lines of the two texts differ
   — value and description change places for most mnemonics — and the reader undoes the
   swap with the version it derives from the VERS line of each text.) *)
From Coq Require Import List Arith NArith ZArith Bool Lia String.
Import ListNotations.
Require Import PyStr Regex NumLit Num HeaderLine Tables SectionParse Sections DataRead Read TextWrap Writer.
Require Import ItemsBindProofs WriteHeaderProofs WriteOptionsProofs WriteReadProofs WriteDataProofs WriteDataTextProofs
  FileRoundTripText FileRoundTripFind FileRoundTripHeader FileRoundTripData FileRoundTrip FileRoundTripMain
  FileRoundTripCheck.
Open Scope string_scope.
Open Scope list_scope.
Open Scope N_scope.

Definition set_wversion (o : wopts) (v : option wver) : wopts :=
  mkwopts v (wo_wrap o) (wo_fmt o) (wo_column_fmt o) (wo_len_numeric_field o) (wo_lhs_spacer o) (wo_spacer o)
          (wo_data_width o) (wo_header_width o) (wo_data_section_header o) (wo_mnemonics_header o).

Lemma col_fmt_set_wversion o v j : col_fmt (set_wversion o v) j = col_fmt o j.
Proof. reflexivity. Qed.

Section WithOracles.
Variable fmtv : list N -> list N -> list N.
Variable fmt_diff : list N -> list N -> list N -> list N.
Variable fmt_pi : list N -> list N.
Variable fstr : list N -> list N.
Variable fzero : list N -> bool.
Variable numeq : list N -> list N -> bool.
Variable fhex : list N -> option (list N).

Lemma row_toks_from_ext o1 o2 nt : (forall j, col_fmt o1 j = col_fmt o2 j) ->
  forall row j, row_toks_from fmtv o1 nt j row = row_toks_from fmtv o2 nt j row.
Proof.
  intros H. induction row as [|c row IH]; intros j; [reflexivity|]. cbn [row_toks_from].
  rewrite IH. f_equal. destruct c; cbn [field_tok]; try reflexivity. rewrite H. reflexivity.
Qed.

Lemma tok_matrix_ext o1 o2 nt rows : (forall j, col_fmt o1 j = col_fmt o2 j) ->
  tok_matrix fmtv o1 nt rows = tok_matrix fmtv o2 nt rows.
Proof. intros H. unfold tok_matrix, row_toks. apply map_ext. intros row. apply row_toks_from_ext. exact H. Qed.

(* the file left in memory and the wrap flag do not depend on the version written *)
Lemma write_sections_las_version_free v1 v2 wrapo ifmt m hs1 hs2 :
  write_sections fmtv fmt_diff fstr fzero numeq v1 wrapo ifmt m = Some hs1 ->
  write_sections fmtv fmt_diff fstr fzero numeq v2 wrapo ifmt m = Some hs2 ->
  hs_las hs1 = hs_las hs2 /\ hs_wrap hs1 = hs_wrap hs2.
Proof.
  unfold write_sections.
  destruct wrapo as [[|]|];
    [ | | destruct (sect_find (s_transforms (l_version (m_las m))) (s2l "WRAP") (s_items (l_version (m_las m)))); [|discriminate] ];
    cbv zeta;
    (match goal with |- context [refresh_sss ?a ?b ?c ?d ?e] => destruct (refresh_sss a b c d e) as [l2|] end);
    repeat (match goal with |- context [match ?x with Some v => _ | None => None end] =>
       destruct x as [?v|]; [|discriminate] end);
    try (intros; discriminate);
    repeat (match goal with |- context [match section_lines ?a ?b ?c ?d with _ => _ end] =>
              destruct (section_lines a b c d) as [?|]; [|try discriminate; intros; discriminate] end);
    intros H1 H2; inversion H1; inversion H2; subst; cbn [hs_las hs_wrap]; split; reflexivity.
Qed.

(* the file in memory after the call is the one the written form hs carries *)
Lemma written_state_is_hs_las o m text m' hs :
  write fmtv fmt_diff fmt_pi fstr fzero numeq o m = WOk text m' ->
  write_sections fmtv fmt_diff fstr fzero numeq (wo_version o) (wo_wrap o) (col_fmt o 0%nat) m = Some hs ->
  m' = mkmlas (hs_las hs) (m_index_initial m).
Proof.
  intros Hw Hs. destruct (write_ok_inv fmtv fmt_diff fmt_pi fstr fzero numeq o m text m' Hw) as (hs0 & d & Hs0 & _ & _ & ->).
  rewrite Hs in Hs0. injection Hs0 as <-. reflexivity.
Qed.

(* C12 at file level *)
Theorem file_version_independent ro o m v1 v2 t1 m1 t2 m2 hs1 hs2 dl1 dl2 rts1 rts2 nt :
  let o1 := set_wversion o (Some v1) in
  let o2 := set_wversion o (Some v2) in
  write fmtv fmt_diff fmt_pi fstr fzero numeq o1 m = WOk t1 m1 ->
  write fmtv fmt_diff fmt_pi fstr fzero numeq o2 m = WOk t2 m2 ->
  write_sections fmtv fmt_diff fstr fzero numeq (Some v1) (wo_wrap o) (col_fmt o 0%nat) m = Some hs1 ->
  write_sections fmtv fmt_diff fstr fzero numeq (Some v2) (wo_wrap o) (col_fmt o 0%nat) m = Some hs2 ->
  dsh_of fmtv fmt_pi fstr o1 hs1 = Some dl1 -> dsh_of fmtv fmt_pi fstr o2 hs2 = Some dl2 ->
  las_null_text fstr (hs_las hs1) = Some nt ->
  opt_all (map (row_text fmtv fmt_pi o1 (Some nt) 0%nat) (las_rows (hs_las hs1))) = Some rts1 ->
  opt_all (map (row_text fmtv fmt_pi o2 (Some nt) 0%nat) (las_rows (hs_las hs2))) = Some rts2 ->
  file_hypsb fmtv fmt_pi fstr fhex ro o1 hs1 nt = true -> file_hypsb fmtv fmt_pi fstr fhex ro o2 hs2 nt = true ->
  (List.length (filter (in_class (o_mcase ro) (s2l "NULL")) (s_items (l_well (hs_las hs1)))) <= 1)%nat ->
  o_ignore_data ro = false ->
  exists l1 l2,
    read fhex fstr numeq ro t1 = ROk l1 /\ read fhex fstr numeq ro t2 = ROk l2 /\
    map meta (s_items (l_well l1)) = map meta (s_items (l_well l2)) /\
    map meta (s_items (l_curves l1)) = map meta (s_items (l_curves l2)) /\
    map meta (s_items (l_params l1)) = map meta (s_items (l_params l2)) /\
    l_other l1 = l_other l2 /\ l_custom l1 = l_custom l2 /\ l_data l1 = l_data l2.
Proof.
  intros o1 o2 Hw1 Hw2 Hs1 Hs2 Hd1 Hd2 Hnt Hr1 Hr2 Hb1 Hb2 Hnull Hig.
  destruct (write_sections_las_version_free _ _ _ _ _ _ _ Hs1 Hs2) as (El & _).
  assert (Hnt2 : las_null_text fstr (hs_las hs2) = Some nt) by (rewrite <- El; exact Hnt).
  destruct (read_written_file_checked fmtv fmt_diff fmt_pi fstr fzero numeq fhex ro o1 m t1 m1 hs1 dl1 rts1 nt
              Hw1 Hs1 Hd1 Hnt Hr1 Hb1 Hig) as (l1 & pn1 & R1 & B1 & N1 & D1).
  destruct (read_written_file_checked fmtv fmt_diff fmt_pi fstr fzero numeq fhex ro o2 m t2 m2 hs2 dl2 rts2 nt
              Hw2 Hs2 Hd2 Hnt2 Hr2 Hb2 Hig) as (l2 & pn2 & R2 & B2 & N2 & D2).
  exists l1, l2. split; [exact R1|]. split; [exact R2|].
  destruct B1 as (_ & W1 & C1 & P1 & O1 & K1 & _). destruct B2 as (_ & W2 & C2 & P2 & O2 & K2 & _).
  rewrite <- El in W2, C2, P2, O2.
  split; [rewrite W1, W2; reflexivity|]. split; [rewrite C1, C2; reflexivity|].
  split; [rewrite P1, P2; reflexivity|]. split; [rewrite O1, O2; reflexivity|].
  split; [rewrite K1, K2; reflexivity|].
  rewrite D1, D2, <- El.
  assert (Epn : pn1 = pn2).
  { unfold null_read in N1, N2. rewrite <- El in N2.
    destruct (filter (in_class (o_mcase ro) (s2l "NULL")) (s_items (l_well (hs_las hs1)))) as [|nit [|n2 r]].
    - rewrite N1, N2. reflexivity.
    - rewrite N1, N2. reflexivity.
    - cbn [List.length] in Hnull. lia. }
  rewrite Epn. f_equal. apply tok_matrix_ext. intros j. reflexivity.
Qed.

End WithOracles.
