(* Proofs.SecondCycleHeader — C11, second cycle, header side.
   hs is the written form of a file in memory after a first write (Proofs/WriteOptionsProofs.v
   write_sections); l is an object whose four header sections are the canonical sections built
   from the items read back from hs (expected_item: values through str() and num(), mnemonics
   case-mapped, units through strip_brackets) — Proofs/SecondCycleRead.v shows that this is what
   Model/Read.v read returns.  On the domain where every item of hs is STABLE (reading its
   line back and normalising the value prints the same mnemonic, unit, value text), where WRAP,
   VERS, STRT, STOP, STEP, NULL name exactly one item each, the units of STRT/STOP/STEP and of the
   first curve agree, and the refresh of STRT/STOP/STEP is not triggered,
      write_sections applied to l returns the SAME item lines, wrap flag and version,
      and leaves l itself (up to the value normalisation) in memory. *)
From Coq Require Import List Arith NArith ZArith Bool Lia String.
Import ListNotations.
Require Import PyStr Regex NumLit Num HeaderLine Tables SectionParse Sections DataRead Read TextWrap Writer.
Require Import ItemsBindProofs JunkProofs JunkSteering WriteStateProofs WriteIdemProofs WriteHeaderProofs WriteOptionsProofs
  WriteReadProofs WriteDataTextProofs FileRoundTripFind FileRoundTripHeader FileRoundTrip SecondCycleRead SecondCycleItems.
Open Scope string_scope.
Open Scope list_scope.
Open Scope N_scope.

Definition k_null : list N := s2l "NULL".
Definition k_dlm : list N := s2l "DLM".

Lemma key_plain_wrap : in_str ch_colon k_wrap = false. Proof. reflexivity. Qed.
Lemma key_plain_vers : in_str ch_colon k_vers = false. Proof. reflexivity. Qed.
Lemma key_plain_dlm : in_str ch_colon k_dlm = false. Proof. reflexivity. Qed.
Lemma key_plain_strt : in_str ch_colon k_strt = false. Proof. reflexivity. Qed.
Lemma key_plain_stop : in_str ch_colon k_stop = false. Proof. reflexivity. Qed.
Lemma key_plain_step : in_str ch_colon k_step = false. Proof. reflexivity. Qed.
Lemma key_plain_null : in_str ch_colon k_null = false. Proof. reflexivity. Qed.

Lemma k_vers_dlm tr : mn_compare tr k_vers k_dlm = false.
Proof. destruct tr; vm_compute; reflexivity. Qed.

(* a section is its items and its comparison flag *)
Lemma sect_eta s : mksect (s_items s) (s_transforms s) = s.
Proof. destruct s. reflexivity. Qed.

Lemma las_well_curves_eta l : with_curves (with_well l (l_well l)) (l_curves l) = l.
Proof. destruct l. reflexivity. Qed.

Lemma with_version_eta l : with_version l (l_version l) = l.
Proof. destruct l. reflexivity. Qed.

Section WithOracles.
Variable fmtv : list N -> list N -> list N.
Variable fmt_diff : list N -> list N -> list N -> list N.
Variable fmt_pi : list N -> list N.
Variable fstr : list N -> list N.
Variable fzero : list N -> bool.
Variable numeq : list N -> list N -> bool.

(* ---- write_sections in stages ------------------------------------------------------------------ *)
Definition wstep (wrapo : option bool) (l0 : las) : option (bool * las) :=
  let trv := s_transforms (l_version l0) in
  match wrapo with
  | None => match sect_find trv k_wrap (s_items (l_version l0)) with Some _ => Some (false, l0) | None => None end
  | Some b => Some (b, with_version l0 (mksect (set_item trv k_wrap (wrap_item b) (s_items (l_version l0))) trv))
  end.

Definition vers_sel (ver : option wver) (trv : bool) (vs : section) : option las_version :=
  match ver with
  | Some W12 => Some V12
  | Some W20 => Some V20
  | None => bind (item_value_by trv k_vers (s_items vs)) version_of
  end.

Lemma write_sections_eq ver wrapo ifmt m :
  write_sections fmtv fmt_diff fstr fzero numeq ver wrapo ifmt m =
  match wstep wrapo (m_las m) with
  | None => None
  | Some (wrap, l1) =>
      let trv := s_transforms (l_version (m_las m)) in
      match vers_sel ver trv (l_version l1) with
      | None => None
      | Some v =>
          match refresh_sss fmtv fmt_diff numeq ifmt (mkmlas l1 (m_index_initial m)) with
          | None => None
          | Some l2 =>
              let l3 := norm_las fzero l2 in
              let vsw := vsw_of v trv (l_version l1) in
              match section_lines fstr v (s2l "Version") vsw, section_lines fstr v (s2l "Well") (s_items (l_well l3)),
                    section_lines fstr v (s2l "Curves") (s_items (l_curves l3)),
                    section_lines fstr v (s2l "Parameter") (s_items (l_params l3)) with
              | Some lv, Some lw, Some lc, Some lp => Some (mkhs wrap v vsw lv lw lc lp l3)
              | _, _, _, _ => None
              end
          end
      end
  end.
Proof. unfold write_sections, wstep. destruct wrapo as [[|]|]; reflexivity. Qed.

(* the wrap flag and the version written, from the options *)
Lemma write_sections_flags ver wrapo ifmt m hs :
  write_sections fmtv fmt_diff fstr fzero numeq ver wrapo ifmt m = Some hs ->
  hs_wrap hs = match wrapo with Some b => b | None => false end /\
  match ver with Some W12 => hs_version hs = V12 | Some W20 => hs_version hs = V20 | None => True end.
Proof.
  rewrite write_sections_eq. destruct (wstep wrapo (m_las m)) as [[wrap l1]|] eqn:Ew; [|discriminate]. cbv zeta.
  destruct (vers_sel ver _ (l_version l1)) as [v|] eqn:Ev; [|discriminate].
  destruct (refresh_sss _ _ _ _ _) as [l2|]; [|discriminate].
  repeat (match goal with |- context [match section_lines ?a ?b ?c ?d with _ => _ end] =>
            destruct (section_lines a b c d) as [?|]; [|discriminate] end).
  intros [= <-]. cbn [hs_wrap hs_version]. split.
  - unfold wstep in Ew. destruct wrapo as [b|].
    + injection Ew as <- _. reflexivity.
    + destruct (sect_find _ _ _); [|discriminate]. injection Ew as <- _. reflexivity.
  - unfold vers_sel in Ev. destruct ver as [[|]|]; [injection Ev as <-; reflexivity|injection Ev as <-; reflexivity|exact I].
Qed.

(* ---- items read back ------------------------------------------------------------------------------ *)
Variable ro : ropts.
Notation c := (o_mcase ro).
Notation tr := (trc (o_mcase ro)).

(* the canonical section built from the items read back from `items` *)
Definition reb (k : skind) (items : list hitem) : list hitem :=
  append_all tr [] (map (expected_item fstr k c) items).

Lemma expected_plain k items : Forall plain (map (expected_item fstr k c) items).
Proof. apply Forall_forall. intros x Hx. apply in_map_iff in Hx as (it & <- & _). reflexivity. Qed.

Lemma reb_meta k items : map meta (reb k items) = map (fun it => meta (expected_item fstr k c it)) items.
Proof. unfold reb. rewrite append_all_meta, map_map. reflexivity. Qed.

Lemma reb_length k items : List.length (reb k items) = List.length items.
Proof. rewrite <- (map_length meta), reb_meta, map_length. reflexivity. Qed.

Lemma reb_class k key items :
  filter (inclass tr key) (map (expected_item fstr k c) items) =
  map (expected_item fstr k c) (filter (in_class c key) items).
Proof. rewrite filter_map_comm. reflexivity. Qed.

Lemma reb_find k key items x : in_str ch_colon key = false ->
  filter (in_class c key) items = [x] ->
  exists p, fidx tr key (reb k items) = Some p /\
            nth_error (reb k items) p = Some (expected_item fstr k c x) /\
            count_matching tr key (reb k items) = 1%nat.
Proof.
  intros Hk Hf.
  destruct (canon_find_unique tr key Hk (map (expected_item fstr k c) items) (expected_item fstr k c x)
              (expected_plain k items)) as (p & H1 & H2 & H3 & _).
  { rewrite reb_class, Hf. reflexivity. }
  exists p. repeat split; assumption.
Qed.

Lemma reb_absent k key items : in_str ch_colon key = false ->
  filter (in_class c key) items = [] -> fidx tr key (reb k items) = None.
Proof.
  intros Hk Hf. apply (canon_find_absent tr key Hk); [apply expected_plain|]. rewrite reb_class, Hf. reflexivity.
Qed.

(* canonical sections with the same metadata are the same sections *)
Lemma canon_is_reb k items (s : section) :
  canon_sect s -> s_transforms s = tr ->
  map meta (s_items s) = map (fun it => meta (expected_item fstr k c it)) items ->
  s = mksect (reb k items) tr.
Proof.
  intros Hc Ht Hm. rewrite <- (sect_eta s), Ht. f_equal. unfold canon_sect in Hc. rewrite Ht in Hc.
  apply (canon_of_meta tr _ _ Hc (expected_plain k items)). rewrite Hm, map_map. reflexivity.
Qed.

(* ---- stability of an item under one read ------------------------------------------------------- *)
(* what the next write prints for the item read back: ~Well and ~Parameter values are normalised *)
Definition post (std : bool) (y : hitem) : hitem := if std then stdf fzero y else y.

Definition stable_item (k : skind) (std : bool) (it : hitem) : Prop :=
  pm fstr (post std (expected_item fstr k c it)) = pm fstr it.

Definition stable_itemb (k : skind) (std : bool) (it : hitem) : bool :=
  let e := expected_item fstr k c it in
  str_eqb (i_orig e) (i_orig it) && str_eqb (i_unit e) (i_unit it) &&
  str_eqb (vstr fstr (i_value (post std e))) (vstr fstr (i_value it)).

Lemma post_fields std y :
  i_orig (post std y) = i_orig y /\ i_unit (post std y) = i_unit y /\ i_descr (post std y) = i_descr y /\
  i_sess (post std y) = i_sess y.
Proof. destruct std; repeat split. Qed.

Lemma stable_itemb_ok k std it : stable_itemb k std it = true -> stable_item k std it.
Proof.
  unfold stable_itemb, stable_item. cbv zeta. intros H.
  apply andb_true_iff in H as [H H3]. apply andb_true_iff in H as [H1 H2].
  apply ws_str_eqb_eq in H1, H2, H3.
  destruct (post_fields std (expected_item fstr k c it)) as (P1 & P2 & P3 & _).
  unfold pm. rewrite P1, P2, P3, H1, H2, H3. reflexivity.
Qed.

Lemma post_meta std y y' : meta y = meta y' -> pm fstr (post std y) = pm fstr (post std y').
Proof.
  destruct y as [o s u v d], y' as [o' s' u' v' d']. unfold meta. cbn [i_orig i_unit i_value i_descr].
  intros [= -> -> -> ->]. destruct std; reflexivity.
Qed.

Lemma stable_section k std items B :
  Forall (stable_item k std) items ->
  map meta B = map (fun it => meta (expected_item fstr k c it)) items ->
  map (pm fstr) (map (post std) B) = map (pm fstr) items.
Proof.
  revert B. induction items as [|it items IH]; intros B Hst Hm; destruct B as [|y B]; try discriminate; [reflexivity|].
  inversion Hst as [|? ? H1 H2]; subst. cbn [map] in *.
  assert (M1 : meta y = meta (expected_item fstr k c it)) by (exact (f_equal (hd (meta y)) Hm)).
  assert (M2 : map meta B = map (fun it => meta (expected_item fstr k c it)) items) by (exact (f_equal (@tl _) Hm)).
  rewrite (post_meta std _ _ M1), H1, (IH B H2 M2). reflexivity.
Qed.

Lemma map_post_false l : map (post false) l = l.
Proof. unfold post. apply map_id. Qed.

(* fields of a stable item read back *)
Lemma stable_fields k std it : stable_item k std it ->
  i_orig (expected_item fstr k c it) = i_orig it /\ i_unit (expected_item fstr k c it) = i_unit it /\
  vstr fstr (i_value (post std (expected_item fstr k c it))) = vstr fstr (i_value it).
Proof.
  unfold stable_item, pm. destruct (post_fields std (expected_item fstr k c it)) as (P1 & P2 & _).
  rewrite P1, P2. intros [= H1 H2 H3 _]. auto.
Qed.

(* the weaker notion: mnemonic and unit survive one read (the value text may change) *)
Definition wstable_item (k : skind) (it : hitem) : Prop :=
  i_orig (expected_item fstr k c it) = i_orig it /\ i_unit (expected_item fstr k c it) = i_unit it.
Definition wstable_itemb (k : skind) (it : hitem) : bool :=
  str_eqb (i_orig (expected_item fstr k c it)) (i_orig it) && str_eqb (i_unit (expected_item fstr k c it)) (i_unit it).
Lemma wstable_itemb_ok k it : wstable_itemb k it = true -> wstable_item k it.
Proof.
  unfold wstable_itemb, wstable_item. intros H. apply andb_true_iff in H as [H1 H2].
  apply ws_str_eqb_eq in H1, H2. split; assumption.
Qed.
Lemma stable_weak k std it : stable_item k std it -> wstable_item k it.
Proof. intros H. destruct (stable_fields k std it H) as (H1 & H2 & _). split; assumption. Qed.
Lemma Forall_stable_weak k std items : Forall (stable_item k std) items -> Forall (wstable_item k) items.
Proof. intros H. eapply Forall_impl; [|exact H]. intros it. apply stable_weak. Qed.

(* what is read back from an item depends on what the item prints only *)
Lemma expected_pm k a b : pm fstr a = pm fstr b -> expected_item fstr k c a = expected_item fstr k c b.
Proof.
  unfold pm, expected_item. intros H. injection H as H1 H2 H3 H4. rewrite H1, H2, H3, H4. reflexivity.
Qed.

Lemma meta_pm a b : meta a = meta b -> pm fstr a = pm fstr b.
Proof. unfold meta, pm. intros H. injection H as H1 H2 H3 H4. rewrite H1, H2, H3, H4. reflexivity. Qed.

(* ====================================================================================== *)
(* the second write                                                                        *)
(* ====================================================================================== *)
Variables (ver : option wver) (wrapo : option bool) (ifmt : list N) (m : mlas) (hs : hdr_sections).
Hypothesis Hs : write_sections fmtv fmt_diff fstr fzero numeq ver wrapo ifmt m = Some hs.

Notation AV := (hs_vers_items hs).
Notation AW := (s_items (l_well (hs_las hs))).
Notation AC := (s_items (l_curves (hs_las hs))).
Notation AP := (s_items (l_params (hs_las hs))).

(* the object read back *)
Variable l : las.
Hypothesis HlV : l_version l = mksect (reb KVersion AV) tr.
Hypothesis HlW : l_well l = mksect (reb KWell AW) tr.
Hypothesis HlC : l_curves l = mksect (reb KCurves AC) tr.
Hypothesis HlP : l_params l = mksect (reb KParameter AP) tr.

(* the domain *)
Hypothesis WV : Forall (wstable_item KVersion) AV.
Hypothesis WW : Forall (wstable_item KWell) AW.
Hypothesis WC : Forall (wstable_item KCurves) AC.

Variables wit vit : hitem.
Hypothesis HcW : filter (in_class c k_wrap) AV = [wit].
Hypothesis HwI : forall b, wrapo = Some b -> expected_item fstr KVersion c wit = wrap_item b.
Hypothesis HcV : filter (in_class c k_vers) AV = [vit].
Hypothesis Hstd : std_version (hs_version hs).
Hypothesis Hfv : fstr_vers_ok fstr.
Hypothesis Hdlm : dlm_ok fstr c hs.

Variables sit pit eit c0 : hitem.
Variable crest : list hitem.
Hypothesis HcS : filter (in_class c k_strt) AW = [sit].
Hypothesis HcP : filter (in_class c k_stop) AW = [pit].
Hypothesis HcE : filter (in_class c k_step) AW = [eit].
Hypothesis HC0 : AC = c0 :: crest.
Hypothesis HuS : i_unit sit = i_unit c0.
Hypothesis HuP : i_unit pit = i_unit c0.
Hypothesis HuE : i_unit eit = i_unit c0.

Variable ii : option (list cell).
Hypothesis Hneed : need_of fmtv numeq ifmt (mkmlas l ii) = Some false.

(* -- ~Version ------------------------------------------------------------------------------------ *)
Lemma in_cls key items x : filter (in_class c key) items = [x] -> In x items.
Proof.
  intros H. assert (Hin : In x (filter (in_class c key) items)) by (rewrite H; left; reflexivity).
  apply filter_In in Hin. tauto.
Qed.

Lemma second_wstep : wstep wrapo l = Some (hs_wrap hs, l).
Proof.
  destruct (write_sections_flags ver wrapo ifmt m hs Hs) as (Hw & _). rewrite Hw. clear Hw.
  destruct (reb_find KVersion k_wrap AV wit key_plain_wrap HcW) as (p & Hp & Hn & Hcnt).
  unfold wstep. rewrite HlV. cbn [s_items s_transforms].
  generalize HwI. generalize wrapo. intros [b|] HI.
  - f_equal. f_equal. rewrite <- (with_version_eta l) at 2. rewrite HlV. f_equal. f_equal.
    rewrite (set_item_at tr k_wrap (wrap_item b) (reb KVersion AV) p Hp).
    + apply upd_same. intros x Hx. rewrite Hn in Hx. injection Hx as <-. symmetry. apply HI. reflexivity.
    + intros x Hx. rewrite Hn in Hx. injection Hx as <-. rewrite (HI b eq_refl). apply mnc_refl.
    + destruct (wrap_item_facts tr b) as (_ & _ & Hu). rewrite Hu, Hcnt. apply le_n.
  - rewrite sect_find_nth, Hp, Hn. reflexivity.
Qed.

(* the VERS item of the written copy is the one the writer substitutes *)
Lemma vers_item_meta :
  meta vit = meta (if las_version_eqb (hs_version hs) V12 then vers_item_12 else vers_item_20).
Proof.
  destruct (write_sections_vers_item fmtv fmt_diff fstr fzero numeq _ _ _ _ _ Hs) as (I12 & I20).
  destruct Hstd as [Hv|Hv]; rewrite Hv; cbn [las_version_eqb].
  - pose proof (I12 Hv) as J. apply in_map_iff in J as (y & My & Hy).
    assert (Oy : i_orig y = s2l "VERS") by (injection My; intros; assumption).
    rewrite <- (class_member_unique c _ _ _ _ HcV Hy (in_class_vers c y Oy)). exact My.
  - pose proof (I20 Hv) as J. apply in_map_iff in J as (y & My & Hy).
    assert (Oy : i_orig y = s2l "VERS") by (injection My; intros; assumption).
    rewrite <- (class_member_unique c _ _ _ _ HcV Hy (in_class_vers c y Oy)). exact My.
Qed.

Lemma second_vers : vers_sel ver tr (l_version l) = Some (hs_version hs).
Proof.
  destruct (write_sections_flags ver wrapo ifmt m hs Hs) as (_ & Hv). revert Hv.
  generalize Hs. generalize ver. intros [[|]|] Hs' Hv; unfold vers_sel; [rewrite Hv; reflexivity|rewrite Hv; reflexivity|].
  destruct (reb_find KVersion k_vers AV vit key_plain_vers HcV) as (p & Hp & Hn & _).
  rewrite HlV. cbn [s_items]. unfold item_value_by. rewrite sect_find_nth, Hp, Hn. cbn [bind].
  apply (reader_version fmtv fmt_diff fstr fzero numeq c vit hs None wrapo ifmt m Hs' Hstd Hfv HcV).
Qed.


Lemma num_space : num (s2l "SPACE") = VStr (s2l "SPACE").
Proof. vm_compute. reflexivity. Qed.

Lemma num_two_zero : num (s2l "2.0") = VFloat (s2l "2.0") /\ num (s2l "1.2") = VFloat (s2l "1.2").
Proof. split; vm_compute; reflexivity. Qed.

(* the ~Version items written the second time print like the ~Version items read back: the DLM
   and VERS substitutions change nothing on them *)
Lemma second_vsw :
  map (pm fstr) (vsw_of (hs_version hs) tr (l_version l)) = map (pm fstr) (reb KVersion AV).
Proof.
  set (f := fun it : hitem => set_value it (VStr (s2l "SPACE"))).
  destruct (reb_find KVersion k_vers AV vit key_plain_vers HcV) as (pV & HpV & HnV & HcntV).
  (* the DLM step *)
  assert (Hvc : exists X, vcopy_of tr (l_version l) = X /\ map (pm fstr) X = map (pm fstr) (reb KVersion AV) /\
                          fidx tr k_vers X = Some pV /\ count_matching tr k_vers X = 1%nat /\
                          (forall x, nth_error X pV = Some x -> x = expected_item fstr KVersion c vit)).
  { unfold vcopy_of. rewrite HlV. cbn [s_items]. fold k_dlm. fold f. rewrite update_first_upd.
    unfold dlm_ok in Hdlm. fold k_dlm in Hdlm.
    destruct (filter (in_class c k_dlm) AV) as [|dit [|d2 r]] eqn:Ed; [| |contradiction].
    - rewrite (reb_absent KVersion k_dlm AV key_plain_dlm Ed). eexists. split; [reflexivity|].
      split; [reflexivity|]. split; [exact HpV|]. split; [exact HcntV|].
      intros x Hx. rewrite HnV in Hx. injection Hx as <-. reflexivity.
    - destruct (reb_find KVersion k_dlm AV dit key_plain_dlm Ed) as (pD & HpD & HnD & _). rewrite HpD.
      eexists. split; [reflexivity|]. split; [|split; [|split]].
      + rewrite map_pm_upd; [reflexivity|]. intros x Hx. rewrite HnD in Hx. injection Hx as <-.
        unfold f, pm, set_value, expected_item, new_item. cbn [i_orig i_unit i_value i_descr vstr].
        rewrite Hdlm, (read_value_text_version _ _ num_space). reflexivity.
      + rewrite fidx_upd by (intro; reflexivity). exact HpV.
      + rewrite count_matching_upd; [exact HcntV|]. intros; reflexivity.
      + intros x. rewrite nth_error_upd. destruct (Nat.eqb_spec pV pD) as [E|E].
        * exfalso. subst pD. pose proof (fidx_same_pos tr k_vers k_dlm _ pV HpV HpD) as X.
          rewrite k_vers_dlm in X. discriminate.
        * rewrite HnV. intros [= <-]. reflexivity. }
  destruct Hvc as (X & HX & HpmX & HfX & HcX & HnX).
  assert (Hin : In vit AV) by (apply (in_cls k_vers AV vit HcV)).
  rewrite Forall_forall in WV. destruct (WV vit Hin) as (WO & WU).
  assert (Hnew : forall new lit, meta vit = meta new -> new = new_item k_vers [] (VFloat lit) (i_descr new) ->
            fstr lit = lit -> num lit = VFloat lit ->
            map (pm fstr) (set_item tr k_vers new X) = map (pm fstr) (reb KVersion AV)).
  { intros new lit Hm Hn Hfl Hnl.
    assert (Ho : i_orig new = k_vers) by (rewrite Hn; reflexivity).
    assert (Hu : useful (i_orig new) = k_vers) by (rewrite Ho; reflexivity).
    rewrite (set_item_at tr k_vers new X pV HfX).
    - rewrite map_pm_upd; [exact HpmX|]. intros x Hx. rewrite (HnX x Hx).
      assert (Mo : i_orig vit = k_vers) by (unfold meta in Hm; injection Hm as -> _ _ _; exact Ho).
      assert (Mu : i_unit vit = []) by (unfold meta in Hm; injection Hm as _ -> _ _; rewrite Hn; reflexivity).
      assert (Mv : i_value vit = VFloat lit) by (unfold meta in Hm; injection Hm as _ _ -> _; rewrite Hn; reflexivity).
      assert (Md : i_descr vit = i_descr new) by (unfold meta in Hm; injection Hm as _ _ _ ->; reflexivity).
      unfold pm. rewrite WO, WU. unfold expected_item, new_item. cbn [i_orig i_unit i_value i_descr].
      rewrite Mo, Mu, Mv, Md. cbn [vstr]. rewrite Hfl.
      assert (Er : read_value KVersion k_vers lit = VFloat lit) by (unfold read_value; cbn; exact Hnl).
      rewrite Er. cbn [vstr]. rewrite Hfl.
      assert (No : i_unit new = [] /\ i_value new = VFloat lit) by (rewrite Hn; split; reflexivity).
      destruct No as (N2 & N3). rewrite Ho, N2, N3. cbn [vstr]. rewrite Hfl. reflexivity.
    - intros x Hx. rewrite (HnX x Hx), Hu.
      assert (Hin' : In vit (filter (in_class c k_vers) AV)) by (rewrite HcV; left; reflexivity).
      apply filter_In in Hin' as [_ Hc]. exact Hc.
    - rewrite Hu, HcX. apply le_n. }
  pose proof vers_item_meta as Hvm. destruct Hfv as (F12 & F20). destruct num_two_zero as (N20 & N12).
  unfold vsw_of. rewrite HX. fold k_vers.
  destruct Hstd as [Hv|Hv]; rewrite Hv in *; cbn [las_version_eqb] in *.
  - apply (Hnew _ (s2l "1.2") Hvm); [reflexivity|exact F12|exact N12].
  - apply (Hnew _ (s2l "2.0") Hvm); [reflexivity|exact F20|exact N20].
Qed.

(* -- ~Well: the refresh leaves l alone ------------------------------------------------------------ *)
Lemma su_same u x : i_unit x = u -> su u x = x.
Proof. destruct x. unfold su, set_unit. cbn. intros ->. reflexivity. Qed.

Lemma reb_unit k items x p : Forall (wstable_item k) items -> In x items ->
  nth_error (reb k items) p = Some (expected_item fstr k c x) ->
  forall y, nth_error (reb k items) p = Some y -> i_unit y = i_unit x.
Proof.
  intros Hst Hin Hn y Hy. rewrite Hn in Hy. injection Hy as <-.
  rewrite Forall_forall in Hst. destruct (Hst x Hin) as (_ & Hu). exact Hu.
Qed.

Lemma second_curves_head : exists b0 brest, reb KCurves AC = b0 :: brest /\ i_unit b0 = i_unit c0.
Proof.
  pose proof (reb_meta KCurves AC) as Hm. rewrite HC0 in Hm. cbn [map] in Hm. rewrite HC0.
  destruct (reb KCurves (c0 :: crest)) as [|b0 brest] eqn:E; [discriminate|].
  exists b0, brest. split; [reflexivity|].
  assert (M : meta b0 = meta (expected_item fstr KCurves c c0)) by (exact (f_equal (hd (meta b0)) Hm)).
  assert (Hin : In c0 AC) by (rewrite HC0; left; reflexivity).
  rewrite Forall_forall in WC. destruct (WC c0 Hin) as (_ & Hu).
  rewrite <- Hu. unfold meta in M. injection M as _ M2 _ _. exact M2.
Qed.

Lemma second_refresh : refresh_sss fmtv fmt_diff numeq ifmt (mkmlas l ii) = Some l.
Proof.
  destruct (reb_find KWell k_strt AW sit key_plain_strt HcS) as (nS & HpS & HnS & _).
  destruct (reb_find KWell k_stop AW pit key_plain_stop HcP) as (nP & HpP & HnP & _).
  destruct (reb_find KWell k_step AW eit key_plain_step HcE) as (nE & HpE & HnE & _).
  destruct second_curves_head as (b0 & brest & HB & Hub).
  rewrite refresh_eq. cbv zeta. cbn [m_las]. rewrite Hneed, HlW. cbn [s_items s_transforms].
  rewrite HpS, HpP, HpE. f_equal.
  pose proof (reb_unit KWell AW sit nS WW (in_cls k_strt AW sit HcS) HnS) as US.
  pose proof (reb_unit KWell AW pit nP WW (in_cls k_stop AW pit HcP) HnP) as UP.
  pose proof (reb_unit KWell AW eit nE WW (in_cls k_step AW eit HcE) HnE) as UE.
  assert (Hu : unit_of l nS = i_unit c0).
  { unfold unit_of, c0unit_of. rewrite HlC, HlW. cbn [s_items]. rewrite HB, Hub, HnS.
    rewrite (US _ HnS), HuS. destruct (i_unit c0); reflexivity. }
  unfold refresh_result. cbv zeta. rewrite Hu. unfold set_vals, align, curves_aligned.
  rewrite HlW, HlC. cbn [s_items s_transforms]. rewrite HB.
  rewrite (upd_same (su (i_unit c0)) (reb KWell AW) nS) by (intros x Hx; apply su_same; rewrite (US x Hx); exact HuS).
  rewrite (upd_same (su (i_unit c0)) (reb KWell AW) nP) by (intros x Hx; apply su_same; rewrite (UP x Hx); exact HuP).
  rewrite (upd_same (su (i_unit c0)) (reb KWell AW) nE) by (intros x Hx; apply su_same; rewrite (UE x Hx); exact HuE).
  fold (su (i_unit c0) b0). rewrite (su_same _ b0 Hub).
  rewrite <- HB, <- HlW, <- HlC. apply las_well_curves_eta.
Qed.

(* -- the lines ------------------------------------------------------------------------------------- *)
Lemma norm_well_items l0 : s_items (l_well (norm_las fzero l0)) = map (post true) (s_items (l_well l0)).
Proof. reflexivity. Qed.
Lemma norm_params_items l0 : s_items (l_params (norm_las fzero l0)) = map (post true) (s_items (l_params l0)).
Proof. reflexivity. Qed.
Lemma norm_curves l0 : l_curves (norm_las fzero l0) = l_curves l0.
Proof. reflexivity. Qed.

Lemma section_lines_some v sect a la b :
  section_lines fstr v sect a = Some la -> exists lb, section_lines fstr v sect b = Some lb.
Proof.
  unfold section_lines. destruct (lookup_order_entry v sect order_definitions); [|discriminate].
  intros _. eexists. reflexivity.
Qed.

(* C11, second cycle, header side, in general: write_sections applied to the object read back
   succeeds with the same wrap flag and version and leaves l (values normalised) in memory; the
   ~Version items it writes print like those read back *)
Theorem second_write_sections_gen :
  exists vsw2 lv2 lw2 lc2 lp2,
    write_sections fmtv fmt_diff fstr fzero numeq ver wrapo ifmt (mkmlas l ii) =
    Some (mkhs (hs_wrap hs) (hs_version hs) vsw2 lv2 lw2 lc2 lp2 (norm_las fzero l)) /\
    map (pm fstr) vsw2 = map (pm fstr) (reb KVersion AV) /\
    section_lines fstr (hs_version hs) (s2l "Version") vsw2 = Some lv2 /\
    section_lines fstr (hs_version hs) (s2l "Well") (map (post true) (reb KWell AW)) = Some lw2 /\
    section_lines fstr (hs_version hs) (s2l "Curves") (reb KCurves AC) = Some lc2 /\
    section_lines fstr (hs_version hs) (s2l "Parameter") (map (post true) (reb KParameter AP)) = Some lp2.
Proof.
  destruct (write_sections_lines fmtv fmt_diff fstr fzero numeq ver wrapo ifmt m hs Hs) as (Lv & Lw & Lc & Lp).
  destruct (section_lines_some _ _ _ _ (vsw_of (hs_version hs) tr (l_version l)) Lv) as (lv2 & Lv2).
  destruct (section_lines_some _ _ _ _ (map (post true) (reb KWell AW)) Lw) as (lw2 & Lw2).
  destruct (section_lines_some _ _ _ _ (reb KCurves AC) Lc) as (lc2 & Lc2).
  destruct (section_lines_some _ _ _ _ (map (post true) (reb KParameter AP)) Lp) as (lp2 & Lp2).
  exists (vsw_of (hs_version hs) tr (l_version l)), lv2, lw2, lc2, lp2.
  split; [|split; [exact second_vsw|split; [exact Lv2|split; [exact Lw2|split; [exact Lc2|exact Lp2]]]]].
  rewrite write_sections_eq. cbn [m_las m_index_initial]. rewrite second_wstep. cbv zeta.
  assert (Et : s_transforms (l_version l) = tr) by (rewrite HlV; reflexivity). rewrite Et.
  rewrite second_vers, second_refresh, Lv2.
  rewrite norm_well_items, norm_params_items, norm_curves, HlW, HlP, HlC. cbn [s_items].
  rewrite Lw2, Lc2, Lp2. reflexivity.
Qed.

(* ... and on the domain where every item is stable (value text included): the SAME lines *)
Theorem second_write_sections :
  Forall (stable_item KVersion false) AV -> Forall (stable_item KWell true) AW ->
  Forall (stable_item KCurves false) AC -> Forall (stable_item KParameter true) AP ->
  exists vsw2,
    write_sections fmtv fmt_diff fstr fzero numeq ver wrapo ifmt (mkmlas l ii) =
    Some (mkhs (hs_wrap hs) (hs_version hs) vsw2 (hs_lv hs) (hs_lw hs) (hs_lc hs) (hs_lp hs) (norm_las fzero l)).
Proof.
  intros StV StW StC StP.
  destruct (write_sections_lines fmtv fmt_diff fstr fzero numeq ver wrapo ifmt m hs Hs) as (Lv & Lw & Lc & Lp).
  destruct second_write_sections_gen as (vsw2 & lv2 & lw2 & lc2 & lp2 & Hw2 & Hpm & Lv2 & Lw2 & Lc2 & Lp2).
  exists vsw2. rewrite Hw2. f_equal. f_equal.
  - assert (E : map (pm fstr) vsw2 = map (pm fstr) AV).
    { rewrite Hpm, <- (map_post_false (reb KVersion AV)). apply (stable_section KVersion false AV _ StV), reb_meta. }
    rewrite (section_lines_pm fstr _ _ _ _ E), Lv in Lv2. injection Lv2 as <-. reflexivity.
  - rewrite (section_lines_pm fstr _ _ _ AW (stable_section KWell true AW _ StW (reb_meta KWell AW))), Lw in Lw2.
    injection Lw2 as <-. reflexivity.
  - assert (EC : map (pm fstr) (reb KCurves AC) = map (pm fstr) AC).
    { rewrite <- (map_post_false (reb KCurves AC)). apply (stable_section KCurves false AC _ StC), reb_meta. }
    rewrite (section_lines_pm fstr _ _ _ AC EC), Lc in Lc2. injection Lc2 as <-. reflexivity.
  - rewrite (section_lines_pm fstr _ _ _ AP (stable_section KParameter true AP _ StP (reb_meta KParameter AP))), Lp in Lp2.
    injection Lp2 as <-. reflexivity.
Qed.

(* the NULL text the second write prints *)
Lemma second_null_text nit nt :
  filter (in_class c k_null) AW = [nit] -> stable_item KWell true nit -> vstr fstr (i_value nit) = nt ->
  las_null_text fstr (norm_las fzero l) = Some nt.
Proof.
  intros HcN Hst Hnt. destruct (reb_find KWell k_null AW nit key_plain_null HcN) as (pN & HpN & HnN & _).
  unfold las_null_text, item_value_by. fold k_null.
  change (s_transforms (l_well (norm_las fzero l))) with (s_transforms (l_well l)).
  rewrite norm_well_items, HlW. cbn [s_items s_transforms].
  rewrite sect_find_nth, fidx_map by (intros it; destruct (post_fields true it) as (_ & _ & _ & E); exact E).
  rewrite HpN, ws_nth_error_map, HnN. cbn [option_map]. f_equal.
  destruct (stable_fields KWell true nit Hst) as (_ & _ & E).
  rewrite E. exact Hnt.
Qed.

End WithOracles.
