(* Proofs.WriteDataTextProofs — the text returned by Model/Writer.v write ends with exactly the
   data lines the C01 round-trip theorems are about: the rows of the in-memory file as it is
   after the call, printed by row_text with the NULL text of its ~Well section, passed through
   TextWrap.wrap when the wrap flag is set, each followed by "\n".  (Bridge between
   Proofs/WriteOptionsProofs.v write_factors and Proofs/WriteDataProofs.v.) *)
From Coq Require Import List Arith NArith ZArith Bool String.
Import ListNotations.
Require Import PyStr Regex NumLit Num Tables SectionParse DataRead Read TextWrap Writer.
Require Import WriteOptionsProofs.
Open Scope string_scope.
Open Scope list_scope.
Open Scope N_scope.

Section WithOracles.
Variable fmtv : list N -> list N -> list N.
Variable fmt_diff : list N -> list N -> list N -> list N.
Variable fmt_pi : list N -> list N.
Variable fstr : list N -> list N.
Variable fzero : list N -> bool.
Variable numeq : list N -> list N -> bool.

(* the rows and the NULL text the writer prints, as functions of the in-memory file *)
Definition las_rows (l : las) : list (list cell) :=
  Writer.data_rows (List.map (fun j => nth j (l_data l) []) (seq 0 (List.length (s_items (l_curves l))))).
Definition las_null_text (l : las) : option (list N) :=
  match item_value_by (s_transforms (l_well l)) (s2l "NULL") (s_items (l_well l)) with
  | Some nv => Some (vstr fstr nv)
  | None => None
  end.

Lemma write_sections_wrap ver b ifmt m hs :
  write_sections fmtv fmt_diff fstr fzero numeq ver (Some b) ifmt m = Some hs -> hs_wrap hs = b.
Proof.
  unfold write_sections. destruct b; cbv zeta;
    (match goal with |- context [match ?x with Some v => _ | None => None end] =>
       destruct x as [v|]; [|discriminate] end);
    (match goal with |- context [refresh_sss ?a ?b ?c ?d ?e] => destruct (refresh_sss a b c d e) as [l2|]; [|discriminate] end);
    repeat (match goal with |- context [section_lines ?a ?b ?c ?d] =>
              destruct (section_lines a b c d) as [?|]; [|discriminate] end);
    intros [= <-]; reflexivity.
Qed.

Theorem write_data_lines o m text m' :
  write fmtv fmt_diff fmt_pi fstr fzero numeq o m = WOk text m' ->
  exists (head : list N) (wrapflag : bool) (rts : list (list N)),
    opt_all (List.map (row_text fmtv fmt_pi o (las_null_text (m_las m')) 0%nat) (las_rows (m_las m'))) = Some rts /\
    text = head ++ flat_map (fun ln => ln ++ [ch_nl])
                     (if wrapflag then flat_map (TextWrap.wrap (wo_data_width o)) rts else rts) /\
    (forall b, wo_wrap o = Some b -> wrapflag = b).
Proof.
  intros H. destruct (write_ok_inv _ _ _ _ _ _ _ _ _ _ H) as (hs & d & Hs & Hd & -> & ->).
  cbn [m_las]. unfold write_data in Hd. cbv zeta in Hd.
  fold (las_rows (hs_las hs)) in Hd. fold (las_null_text (hs_las hs)) in Hd.
  match type of Hd with
  | match ?dsh with Some _ => _ | None => None end = _ => destruct dsh as [dl|]; [|discriminate Hd]
  end.
  destruct (opt_all (List.map (row_text fmtv fmt_pi o (las_null_text (hs_las hs)) 0%nat) (las_rows (hs_las hs))))
    as [rts|]; [|discriminate Hd].
  injection Hd as <-.
  exists (join [ch_nl] (header_lines (wo_header_width o) hs) ++ [ch_nl] ++ dl ++ [ch_nl]), (hs_wrap hs), rts.
  split; [reflexivity|]. split.
  - rewrite <- !app_assoc. reflexivity.
  - intros b Hb. rewrite Hb in Hs. eapply write_sections_wrap. exact Hs.
Qed.

End WithOracles.
