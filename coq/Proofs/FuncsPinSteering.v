(* Proofs.FuncsPinSteering — Model/Read.update_steering IS the steering block of LASFile.read
   (`if section_title[1].upper() == "V": ... if section_title[1].upper() == "W": ...`; Gen/Funcs.v:
   py_update_steering, re-translated from /repo on every run): only a ~V section's VERS / WRAP / DLM items
   and a ~W section's NULL item update the provisional values that steer the rest of the read.
   `"VERS" in sct_items` and `sct_items.VERS` go through the translated SectionItems.__contains__ /
   __getitem__.  The provisional NULL may be None, so every value is an option here (sitem_of wraps an
   item's value in Some).  None on both sides: the title is "~" alone.
   Restated as C05_steering_current. *)
From Coq Require Import List Arith NArith ZArith Bool Lia String.
Import ListNotations.
Require Import PyStr Regex Regexes NumLit Num HeaderLine SectionParse Sections Read Funcs
  FuncsPinsLib FuncsPinSectionParse FuncsPinWriter FuncsPinRoute.
Open Scope list_scope.
Open Scope N_scope.

Definition sitem_of (it : hitem) : py_item (option hval) :=
  mk_py_item (i_sess it) (i_orig it) (i_unit it) (Some (i_value it)) (i_descr it).
Definition ssection_of (sec : section) : bool * list (py_item (option hval)) :=
  (s_transforms sec, List.map sitem_of (s_items sec)).

Lemma mn_compare_sym : forall tr a b, mn_compare tr a b = mn_compare tr b a.
Proof. intros tr a b. unfold mn_compare. destruct tr; apply str_eqb_sym. Qed.

Lemma section_contains_find : forall tr k l,
  py_section_contains tr (List.map sitem_of l) k = match sect_find tr k l with Some _ => true | None => false end.
Proof.
  intros tr k l. unfold py_section_contains. induction l as [|it l IH]; [reflexivity|].
  cbn [map fold_left sect_find]. change (it_mnemonic (sitem_of it)) with (i_sess it).
  rewrite <- mn_compare_pin, mn_compare_sym.
  destruct (mn_compare tr (i_sess it) k); [|exact IH].
  clear IH. induction l as [|x l IH]; [reflexivity|exact IH].
Qed.

Lemma section_getitem_find : forall tr k l,
  py_section_getitem tr (List.map sitem_of l) k = option_map sitem_of (sect_find tr k l).
Proof.
  intros tr k l. unfold py_section_getitem. induction l as [|it l IH]; [reflexivity|].
  cbn [map fold_left sect_find]. change (it_mnemonic (sitem_of it)) with (i_sess it).
  rewrite <- mn_compare_pin.
  destruct (mn_compare tr (i_sess it) k); [|exact IH].
  clear IH. cbn [option_map]. induction l as [|x l IH]; [reflexivity|exact IH].
Qed.

(* one `if "NAME" in sct_items: v = sct_items.NAME.value` *)
Lemma steer_one : forall tr (k : list N) l (old : option hval),
  (if py_section_contains tr (List.map sitem_of l) k
   then obind (obind (py_section_getitem tr (List.map sitem_of l) k) (fun t => Some (it_value t))) (fun v => Some v)
   else Some old)
  = Some (match sect_find tr k l with Some it => Some (i_value it) | None => old end).
Proof.
  intros tr k l old. rewrite section_contains_find, section_getitem_find.
  destruct (sect_find tr k l); reflexivity.
Qed.

Theorem steering_pin : forall title sec ps,
  py_update_steering title (ssection_of sec) (Some (p_version ps)) (Some (p_wrapped ps)) (p_null ps) (Some (p_dlm ps))
  = option_map (fun letter => let ps' := update_steering letter sec ps in
                              (Some (p_version ps'), Some (p_wrapped ps'), p_null ps', Some (p_dlm ps')))
               (second_upper title).
Proof.
  intros title sec ps. unfold py_update_steering, ssection_of, second_upper. cbn [fst snd].
  destruct title as [|t0 [|c r]]; [reflexivity|reflexivity|].
  rewrite pyo_item_second. cbn [obind option_map pyo_upper map str_eqb]. rewrite !andb_true_r.
  unfold update_steering.
  let x := eval compute in (s2l "VERS") in change (s2l "VERS") with x.
  let x := eval compute in (s2l "WRAP") in change (s2l "WRAP") with x.
  let x := eval compute in (s2l "DLM") in change (s2l "DLM") with x.
  let x := eval compute in (s2l "NULL") in change (s2l "NULL") with x.
  destruct (ascii_upper c =? 86) eqn:EV.
  - assert (EW : ascii_upper c =? 87 = false) by (apply N.eqb_eq in EV; rewrite EV; reflexivity).
    rewrite EW. rewrite !steer_one. cbn [obind p_version p_wrapped p_null p_dlm].
    destruct (sect_find _ _ _); destruct (sect_find _ _ _); destruct (sect_find _ _ _); reflexivity.
  - cbn [obind]. destruct (ascii_upper c =? 87) eqn:EW.
    + rewrite steer_one. cbn [obind p_version p_wrapped p_null p_dlm]. reflexivity.
    + reflexivity.
Qed.
