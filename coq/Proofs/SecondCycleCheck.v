(* Proofs.SecondCycleCheck — the domain of C11_second_cycle as an executable test on a pipeline
   case of the correspondence (Corr/WriteShow.v input format: ops FS text FS <tab> FS MARK FS <ftab>,
   ops = R<ropts> OPS W<wopts> OPS ...): the text is read, the first written form hs of the
   object read is computed, and the answer is
     "D" when file_hypsb and cycle_hypsb hold (then C11_second_cycle says: the second write
         returns the text of the first);
     "C" when file_hypsb and cycle_whypsb hold for the first written form, file_hypsb holds for
         the second written form (the premise of C11_second_cycle_content_partial) and
         content_okb holds (then the object read after the second cycle has the data of the
         first re-read, the same data lines are written, and the header items are equal up to
         numeric equality);
     "o" otherwise.
   harness/props/c11.py checks on the real lasio that every chain answered "D" does write the
   same text twice and every chain answered "C" writes the same data lines twice.
   Definitions only. *)
From Coq Require Import List NArith ZArith Bool String.
Import ListNotations.
Require Import PyStr CaseLib Regex NumLit Num HeaderLine Tables SectionParse Sections DataRead Read TextWrap Writer
  ReadShow WriteShow WriteOptionsProofs WriteDataTextProofs FileRoundTripCheck SecondCycle SecondCycleContent.
Open Scope string_scope.
Open Scope list_scope.
Open Scope N_scope.

Definition domain_flag (i : list N) : list N :=
  match fields i with
  | ops :: text :: rest =>
      let (t, ft) := split_at_mark rest [] in
      match split_char OPS ops with
      | (82 :: rcode) :: (87 :: wcode) :: _ =>
          let (ro, _) := opt_of rcode in
          let o := wopts_of wcode in
          let fz k := match tab_hex t k with Some h => hex_is_zero h | None => false end in
          let hx k := match tab_hex t k with Some h => h | None => [63] end in
          let fmtv := ftab_get ft in
          let fmt_diff := fun f b a => ftab_get ft f (diff_key (hx b) (hx a)) in
          let fmt_pi := fun f => ftab_get ft f PI_KEY in
          let fstr := tab_str t in
          let numeq := tab_numeq t in
          let fhex := tab_hex t in
          match read fhex fstr numeq ro text with
          | ROk l0 =>
              match write_sections fmtv fmt_diff fstr fz numeq (wo_version o) (wo_wrap o) (col_fmt o 0%nat)
                      (mkmlas l0 (index_initial_of l0)) with
              | Some hs =>
                  match las_null_text fstr (hs_las hs) with
                  | Some nt =>
                      if file_hypsb fmtv fmt_pi fstr fhex ro o hs nt && negb (o_ignore_data ro) then
                        if cycle_hypsb fmtv fstr fz numeq fhex ro o hs nt then s2l "D"
                        else if cycle_whypsb fmtv fstr fz numeq fhex ro o hs nt && content_okb fstr fz numeq ro hs then
                          match write fmtv fmt_diff fmt_pi fstr fz numeq o (mkmlas l0 (index_initial_of l0)) with
                          | WOk t1 _ =>
                              match read fhex fstr numeq ro t1 with
                              | ROk l1 =>
                                  match write_sections fmtv fmt_diff fstr fz numeq (wo_version o) (wo_wrap o) (col_fmt o 0%nat)
                                          (mkmlas l1 (index_initial_of l1)) with
                                  | Some hs2 => if file_hypsb fmtv fmt_pi fstr fhex ro o hs2 nt then s2l "C" else s2l "o"
                                  | None => s2l "o"
                                  end
                              | RErr _ => s2l "o"
                              end
                          | WErr _ => s2l "o"
                          end
                        else s2l "o"
                      else s2l "o"
                  | None => s2l "o"
                  end
              | None => s2l "o"
              end
          | RErr _ => s2l "o"
          end
      | _ => s2l "o"
      end
  | _ => s2l "o"
  end.
