(* Proofs.FileRoundTripFind — what sect_find returns on a section the reader has just parsed,
   from the (original mnemonic, unit, value, description) of its items alone: a key (without
   colon) whose name class holds exactly one parsed item finds that item; a key whose class is
   empty finds nothing.  (The duplicate-suffix rule renames session mnemonics only inside classes
   with two or more members: Proofs/JunkSteering.v.)  Used for VERS / WRAP / DLM / NULL of a
   written file.  (File-level composition, part 3a.) *)
From Coq Require Import List Arith NArith ZArith Bool Lia String.
Import ListNotations.
Require Import PyStr Regex NumLit Num HeaderLine Tables SectionParse Sections DataRead Read Writer.
Require Import ItemsBindProofs JunkProofs JunkSteering WriteHeaderProofs WriteReadProofs.
Open Scope string_scope.
Open Scope list_scope.
Open Scope N_scope.

Definition trc (c : mcase) : bool := match c with CasePreserve => false | _ => true end.

Definition meta_t := (list N * list N * hval * list N)%type.
Definition m_orig (mt : meta_t) : list N := fst (fst (fst mt)).
Definition m_value (mt : meta_t) : hval := snd (fst mt).

(* name class of a key, on metadata *)
Definition mclass (tr : bool) (key : list N) (mt : meta_t) : bool := mn_compare tr (useful (m_orig mt)) key.

Lemma inclass_meta tr key x : inclass tr key x = mclass tr key (meta x).
Proof. reflexivity. Qed.

Lemma filter_map_comm {A B} (f : A -> B) (p : B -> bool) : forall l,
  filter p (map f l) = map f (filter (fun a => p (f a)) l).
Proof.
  induction l as [|a l IH]; [reflexivity|]. cbn [map filter]. destruct (p (f a)); cbn [map]; rewrite IH; reflexivity.
Qed.

(* parsed items carry their plain session mnemonic before the suffix rule *)
Lemma scan_plain v k c cc ig : forall lines,
  Forall (fun x => i_sess x = useful (i_orig x)) (fst (scan v k c cc ig lines)).
Proof.
  induction lines as [|raw rest IH]; [constructor|]. cbn [scan].
  destruct (classify v k c cc raw) as [| |it|l] eqn:Ec.
  - exact IH.
  - constructor.
  - destruct (scan v k c cc ig rest) as [its e]. cbn [fst] in *. constructor; [|exact IH].
    destruct (classify_item v k c cc raw it Ec) as (_ & Hp). unfold parse_line in Hp.
    destruct (read_header_line (strip raw) _ _) as [h|]; [|discriminate]. injection Hp as <-.
    apply build_item_sess.
  - destruct ig; [exact IH|constructor].
Qed.

Lemma sect_append_single tr x : sect_append tr [] x = [x].
Proof.
  unfold sect_append, assign_suffixes, count_matching. cbn [app filter].
  destruct (mn_compare tr (useful (i_orig x)) (useful (i_orig x))); reflexivity.
Qed.

Section Find.
Variables (v : las_version) (k : skind) (c : mcase) (cc : list N) (tr ig : bool).
Variable key : list N.
Hypothesis key_plain : in_str ch_colon key = false.

Lemma parsed_class lines items' :
  parse_body v k c ig cc tr lines [] = POk items' ->
  exists its, map meta items' = map meta its /\
    Forall (fun x => i_sess x = useful (i_orig x)) its /\
    sect_find tr key items' = sect_find tr key (append_all tr [] (filter (inclass tr key) its)).
Proof.
  rewrite parse_body_scan. destruct (snd (scan v k c cc ig lines)); [discriminate|].
  intros [= <-]. exists (fst (scan v k c cc ig lines)). split; [apply append_all_meta|].
  split; [apply scan_plain|].
  rewrite (sect_find_class tr key key_plain) by (apply append_all_wf; [constructor|apply scan_wf]).
  rewrite K_append_all. reflexivity.
Qed.

Theorem sect_find_unique lines items' mt :
  parse_body v k c ig cc tr lines [] = POk items' ->
  filter (mclass tr key) (map meta items') = [mt] ->
  exists x, sect_find tr key items' = Some x /\ meta x = mt.
Proof.
  intros H Hf. destruct (parsed_class lines items' H) as (its & Hm & Hp & ->).
  rewrite Hm, filter_map_comm in Hf.
  assert (E : filter (inclass tr key) its = filter (fun a => mclass tr key (meta a)) its) by reflexivity.
  rewrite <- E in Hf.
  destruct (filter (inclass tr key) its) as [|x0 [|x1 r]] eqn:Ef; try discriminate.
  injection Hf as Hx. exists x0. split; [|exact Hx].
  assert (Hin : In x0 (filter (inclass tr key) its)) by (rewrite Ef; left; reflexivity).
  apply filter_In in Hin as [Hin Hc]. rewrite Forall_forall in Hp. specialize (Hp x0 Hin).
  unfold append_all. cbn [fold_left]. rewrite sect_append_single. cbn [sect_find].
  rewrite Hp. unfold inclass in Hc. rewrite Hc. reflexivity.
Qed.

Theorem sect_find_absent lines items' :
  parse_body v k c ig cc tr lines [] = POk items' ->
  filter (mclass tr key) (map meta items') = [] ->
  sect_find tr key items' = None.
Proof.
  intros H Hf. destruct (parsed_class lines items' H) as (its & Hm & Hp & ->).
  rewrite Hm, filter_map_comm in Hf.
  assert (E : filter (inclass tr key) its = filter (fun a => mclass tr key (meta a)) its) by reflexivity.
  rewrite <- E in Hf. apply map_eq_nil in Hf. rewrite Hf. reflexivity.
Qed.
End Find.

(* ---- the same, from the items that were written ----------------------------------------------- *)
(* the class of a key as the reader will see it, on an item in memory (mnemonic_case c) *)
Definition in_class (c : mcase) (key : list N) (it : hitem) : bool :=
  mn_compare (trc c) (useful (apply_case c (i_orig it))) key.

Lemma mclass_expected fstr k c key it :
  mclass (trc c) key (meta (expected_item fstr k c it)) = in_class c key it.
Proof. reflexivity. Qed.

Section ReadBack.
Variable fstr : list N -> list N.
Variables (v : las_version) (k : skind) (c : mcase) (cc : list N) (ig : bool).
Variable key : list N.
Hypothesis key_plain : in_str ch_colon key = false.

Lemma expected_filter items :
  filter (mclass (trc c) key) (map (fun it => meta (expected_item fstr k c it)) items)
  = map (fun it => meta (expected_item fstr k c it)) (filter (in_class c key) items).
Proof. rewrite filter_map_comm. reflexivity. Qed.

Theorem read_back_find_unique lines items items' it0 :
  parse_body v k c ig cc (trc c) lines [] = POk items' ->
  map meta items' = map (fun it => meta (expected_item fstr k c it)) items ->
  filter (in_class c key) items = [it0] ->
  exists x, sect_find (trc c) key items' = Some x /\ meta x = meta (expected_item fstr k c it0).
Proof.
  intros H Hm Hf. apply (sect_find_unique v k c cc (trc c) ig key key_plain lines items' _ H).
  rewrite Hm, expected_filter, Hf. reflexivity.
Qed.

Theorem read_back_find_absent lines items items' :
  parse_body v k c ig cc (trc c) lines [] = POk items' ->
  map meta items' = map (fun it => meta (expected_item fstr k c it)) items ->
  filter (in_class c key) items = [] ->
  sect_find (trc c) key items' = None.
Proof.
  intros H Hm Hf. apply (sect_find_absent v k c cc (trc c) ig key key_plain lines items' H).
  rewrite Hm, expected_filter, Hf. reflexivity.
Qed.
End ReadBack.

(* ---- set_item puts the new item into the section ------------------------------------------- *)
Lemma replace_first_in tr key new : forall l r, replace_first tr key new l = Some r -> In new r.
Proof.
  induction l as [|it l IH]; intros r H; [discriminate|]. cbn [replace_first] in H.
  destruct (mn_compare tr key (i_sess it)).
  - injection H as <-. left. reflexivity.
  - destruct (replace_first tr key new l) as [r'|]; [|discriminate]. injection H as <-. right. apply IH. reflexivity.
Qed.

Lemma set_item_has_new tr key new l : In (meta new) (map meta (set_item tr key new l)).
Proof.
  unfold set_item. destruct (replace_first tr key new l) as [r|] eqn:E.
  - rewrite assign_suffixes_meta. apply in_map. apply (replace_first_in tr key new l r E).
  - rewrite sect_append_meta. apply in_or_app. right. left. reflexivity.
Qed.

(* an item with the metadata mt, in the class of key, in a list whose class is [it0]: it0 has mt *)
Lemma class_member_unique (c : mcase) key (l : list hitem) it0 x :
  filter (in_class c key) l = [it0] -> In x l -> in_class c key x = true -> x = it0.
Proof.
  intros Hf Hin Hc. assert (H : In x (filter (in_class c key) l)) by (apply filter_In; split; assumption).
  rewrite Hf in H. destruct H as [H|[]]. symmetry. exact H.
Qed.
