(* Proofs.ItemsProofs — lemmas about Model.Items (las_items.py): list helpers, key lookup,
   the C15 laws (arbitrary states), the C13 invariant and the C17 copy laws. *)
From Coq Require Import List NArith ZArith Bool String Lia ZifyBool ZifyN ZifyNat Permutation.
Import ListNotations.
Require Import PyStr Items.
Open Scope N_scope.

(* ======================================================================================= *)
(* strings and the mnemonic comparison                                                       *)

Lemma str_eqb_eq : forall a b : list N, str_eqb a b = true <-> a = b.
Proof.
  induction a as [|x a IH]; destruct b as [|y b]; simpl; split; intro H; try congruence; try discriminate.
  - apply andb_true_iff in H. destruct H as [H1 H2]. apply N.eqb_eq in H1. apply IH in H2. congruence.
  - inversion H; subst. apply andb_true_iff. split. apply N.eqb_refl. apply IH. reflexivity.
Qed.

Lemma str_eqb_refl : forall a : list N, str_eqb a a = true.
Proof. intro a. apply str_eqb_eq. reflexivity. Qed.

Lemma str_eqb_neq : forall a b : list N, str_eqb a b = false <-> a <> b.
Proof.
  intros a b. split.
  - intros H E. apply str_eqb_eq in E. congruence.
  - intro H. destruct (str_eqb a b) eqn:E; [|reflexivity]. apply str_eqb_eq in E. contradiction.
Qed.

(* the key under which the section compares names *)
Definition norm (tr : bool) (s : list N) : list N := if tr then upper s else s.

Lemma cmp_norm : forall tr a b, mnemonic_compare tr a b = true <-> norm tr a = norm tr b.
Proof. intros [] a b; unfold mnemonic_compare, norm; apply str_eqb_eq. Qed.

Lemma cmp_false_norm : forall tr a b, mnemonic_compare tr a b = false <-> norm tr a <> norm tr b.
Proof. intros [] a b; unfold mnemonic_compare, norm; apply str_eqb_neq. Qed.

Lemma cmp_refl : forall tr a, mnemonic_compare tr a a = true.
Proof. intros. apply cmp_norm. reflexivity. Qed.

Lemma cmp_sym : forall tr a b, mnemonic_compare tr a b = mnemonic_compare tr b a.
Proof.
  intros tr a b. destruct (mnemonic_compare tr b a) eqn:E.
  - apply cmp_norm. apply cmp_norm in E. congruence.
  - apply cmp_false_norm. apply cmp_false_norm in E. congruence.
Qed.

Lemma cmp_trans : forall tr a b c,
  mnemonic_compare tr a b = true -> mnemonic_compare tr b c = true -> mnemonic_compare tr a c = true.
Proof. intros tr a b c H1 H2. apply cmp_norm. apply cmp_norm in H1, H2. congruence. Qed.

Lemma cmp_trans_false : forall tr a b c,
  mnemonic_compare tr a b = true -> mnemonic_compare tr a c = false -> mnemonic_compare tr b c = false.
Proof.
  intros tr a b c H1 H2. destruct (mnemonic_compare tr b c) eqn:E; [|reflexivity].
  rewrite (cmp_trans tr a b c H1 E) in H2. discriminate.
Qed.

(* ======================================================================================= *)
(* find_ix                                                                                   *)

Lemma find_ix_Some : forall {A} (p : A -> bool) l n,
  find_ix p l = Some n ->
  exists x, nth_error l n = Some x /\ p x = true /\
            (forall m y, (m < n)%nat -> nth_error l m = Some y -> p y = false).
Proof.
  intros A p. induction l as [|a l IH]; intros n H; simpl in H; [discriminate|].
  destruct (p a) eqn:Pa.
  - inversion H; subst. exists a. repeat split; auto. intros m y Hm. lia.
  - destruct (find_ix p l) as [k|] eqn:F; [|discriminate]. inversion H; subst.
    destruct (IH k eq_refl) as [x [Hx [Px Hlt]]]. exists x. repeat split; auto.
    intros m y Hm Hy. destruct m as [|m]; simpl in Hy.
    + inversion Hy; subst; assumption.
    + apply (Hlt m y); [lia|assumption].
Qed.

Lemma find_ix_intro : forall {A} (p : A -> bool) l n x,
  nth_error l n = Some x -> p x = true ->
  (forall m y, (m < n)%nat -> nth_error l m = Some y -> p y = false) ->
  find_ix p l = Some n.
Proof.
  intros A p. induction l as [|a l IH]; intros n x Hx Px Hlt.
  - destruct n; discriminate.
  - destruct n as [|n]; simpl in *.
    + inversion Hx; subst. rewrite Px. reflexivity.
    + rewrite (Hlt O a); [|lia|reflexivity].
      rewrite (IH n x Hx Px); [reflexivity|].
      intros m y Hm Hy. apply (Hlt (S m) y); [lia|assumption].
Qed.

Lemma find_ix_None : forall {A} (p : A -> bool) l,
  find_ix p l = None <-> (forall x, In x l -> p x = false).
Proof.
  intros A p. induction l as [|a l IH]; simpl.
  - split; [intros _ x []|reflexivity].
  - destruct (p a) eqn:Pa.
    + split; [discriminate|]. intro H. rewrite (H a) in Pa; [discriminate|left; reflexivity].
    + destruct (find_ix p l) eqn:F.
      * split; [discriminate|]. intro H. assert (Some n = None) as E; [|discriminate].
        apply IH. intros x Hx. apply H. right. assumption.
      * split; [|reflexivity]. intros _ x [Hx|Hx]; [subst; assumption|].
        apply (proj1 IH eq_refl). assumption.
Qed.

Lemma find_ix_existsb : forall {A} (p : A -> bool) l,
  existsb p l = true <-> exists n, find_ix p l = Some n.
Proof.
  intros A p l. split.
  - intro H. destruct (find_ix p l) eqn:F; [eauto|].
    apply existsb_exists in H. destruct H as [x [Hx Px]].
    rewrite (proj1 (find_ix_None p l) F x Hx) in Px. discriminate.
  - intros [n H]. apply find_ix_Some in H. destruct H as [x [Hx [Px _]]].
    apply existsb_exists. exists x. split; [eapply nth_error_In; eauto|assumption].
Qed.

Lemma find_ix_ext : forall {A} (p q : A -> bool) l,
  (forall x, p x = q x) -> find_ix p l = find_ix q l.
Proof. intros A p q l H. induction l as [|a l IH]; simpl; [reflexivity|]. rewrite H, IH. reflexivity. Qed.

Lemma find_ix_lt : forall {A} (p : A -> bool) l n, find_ix p l = Some n -> (n < List.length l)%nat.
Proof.
  intros A p l n H. apply find_ix_Some in H. destruct H as [x [Hx _]].
  apply nth_error_Some. congruence.
Qed.

(* ======================================================================================= *)
(* Python list positions                                                                     *)

Lemma py_index_spec : forall len i n,
  py_index len i = Some n <->
  ((0 <= i < Z.of_nat len)%Z /\ n = Z.to_nat i) \/
  ((- Z.of_nat len <= i < 0)%Z /\ n = Z.to_nat (Z.of_nat len + i)).
Proof.
  intros len i n. unfold py_index.
  destruct ((0 <=? i)%Z && (i <? Z.of_nat len)%Z) eqn:E1.
  - split; [intro H; inversion H; left; lia|]. intros [[H1 H2]|[H1 H2]]; [subst; reflexivity|lia].
  - destruct ((i <? 0)%Z && (- Z.of_nat len <=? i)%Z) eqn:E2.
    + split; [intro H; inversion H; right; lia|]. intros [[H1 H2]|[H1 H2]]; [lia|subst; reflexivity].
    + split; [discriminate|]. intros [[H1 H2]|[H1 H2]]; lia.
Qed.

Lemma py_index_lt : forall len i n, py_index len i = Some n -> (n < len)%nat.
Proof. intros len i n H. apply py_index_spec in H. lia. Qed.

Lemma py_index_None : forall len i,
  py_index len i = None <-> (i < - Z.of_nat len \/ Z.of_nat len <= i)%Z.
Proof.
  intros len i. unfold py_index.
  destruct ((0 <=? i)%Z && (i <? Z.of_nat len)%Z) eqn:E1; [split; [discriminate|lia]|].
  destruct ((i <? 0)%Z && (- Z.of_nat len <=? i)%Z) eqn:E2; [split; [discriminate|lia]|].
  split; [lia|reflexivity].
Qed.

Lemma py_clamp_le : forall len i, (py_clamp len i <= len)%nat.
Proof. intros len i. unfold py_clamp. destruct (i <? 0)%Z eqn:E; lia. Qed.

(* positions: nth_error after each primitive list edit *)
Lemma remove_at_nth : forall {A} (l : list A) n m,
  nth_error (remove_at n l) m = nth_error l (if (m <? n)%nat then m else S m).
Proof.
  intros A. induction l as [|a l IH]; intros n m; simpl.
  - destruct (m <? n)%nat; destruct m; reflexivity.
  - destruct n as [|n]; simpl.
    + reflexivity.
    + destruct m as [|m]; simpl; [reflexivity|]. rewrite IH.
      destruct (m <? n)%nat eqn:E1; destruct (S m <? S n)%nat eqn:E2; try reflexivity; lia.
Qed.

Lemma remove_at_length : forall {A} (l : list A) n,
  (n < List.length l)%nat -> S (List.length (remove_at n l)) = List.length l.
Proof.
  intros A. induction l as [|a l IH]; intros n H; simpl in *; [lia|].
  destruct n as [|n]; simpl; [reflexivity|]. rewrite IH; [reflexivity|lia].
Qed.

Lemma remove_at_In : forall {A} (l : list A) n x, In x (remove_at n l) -> In x l.
Proof.
  intros A. induction l as [|a l IH]; intros n x H; simpl in *; [contradiction|].
  destruct n as [|n]; simpl in H; [right; assumption|].
  destruct H as [H|H]; [left; assumption|right; eapply IH; eauto].
Qed.

Lemma remove_at_perm : forall {A} (l : list A) n x,
  nth_error l n = Some x -> Permutation l (x :: remove_at n l).
Proof.
  intros A. induction l as [|a l IH]; intros n x H; [destruct n; discriminate|].
  destruct n as [|n]; simpl in *.
  - inversion H; subst. apply Permutation_refl.
  - eapply perm_trans; [apply perm_skip; apply (IH n x H)|apply perm_swap].
Qed.

Lemma insert_at_nth : forall {A} (l : list A) n x m, (n <= List.length l)%nat ->
  nth_error (insert_at n x l) m =
  if (m <? n)%nat then nth_error l m else if (m =? n)%nat then Some x else nth_error l (Nat.pred m).
Proof.
  intros A. induction l as [|a l IH]; intros n x m H; simpl in H.
  - assert (n = O) by lia. subst. simpl. destruct m as [|m]; simpl; [reflexivity|].
    destruct m; reflexivity.
  - destruct n as [|n]; simpl.
    + destruct m as [|m]; simpl; reflexivity.
    + destruct m as [|m]; simpl; [reflexivity|]. rewrite IH; [|lia].
      destruct (m <? n)%nat eqn:E1; destruct (S m <? S n)%nat eqn:E2; try lia; try reflexivity.
      destruct (m =? n)%nat eqn:E3; destruct (S m =? S n)%nat eqn:E4; try lia; try reflexivity.
      destruct m as [|m]; [lia|reflexivity].
Qed.

Lemma insert_at_length : forall {A} (l : list A) n x,
  List.length (insert_at n x l) = S (List.length l).
Proof.
  intros A. induction l as [|a l IH]; intros n x; destruct n; simpl; try reflexivity.
  rewrite IH. reflexivity.
Qed.

Lemma insert_at_perm : forall {A} (l : list A) n x, Permutation (x :: l) (insert_at n x l).
Proof.
  intros A. induction l as [|a l IH]; intros n x; destruct n as [|n]; simpl; try apply Permutation_refl.
  eapply perm_trans; [apply perm_swap|apply perm_skip; apply IH].
Qed.

Lemma insert_at_end : forall {A} (l : list A) x, insert_at (List.length l) x l = l ++ [x].
Proof. intros A. induction l as [|a l IH]; intro x; simpl; [reflexivity|]. rewrite IH. reflexivity. Qed.

Lemma replace_at_nth : forall {A} (l : list A) n x m, (n < List.length l)%nat ->
  nth_error (replace_at n x l) m = if (m =? n)%nat then Some x else nth_error l m.
Proof.
  intros A. induction l as [|a l IH]; intros n x m H; simpl in H; [lia|].
  destruct n as [|n]; simpl.
  - destruct m; reflexivity.
  - destruct m as [|m]; simpl; [reflexivity|]. rewrite IH; [|lia].
    destruct (m =? n)%nat eqn:E1; destruct (S m =? S n)%nat eqn:E2; try lia; reflexivity.
Qed.

Lemma replace_at_length : forall {A} (l : list A) n x,
  List.length (replace_at n x l) = List.length l.
Proof.
  intros A. induction l as [|a l IH]; intros n x; simpl; [reflexivity|].
  destruct n; simpl; [reflexivity|]. rewrite IH. reflexivity.
Qed.

Lemma replace_at_perm : forall {A} (l : list A) n x, (n < List.length l)%nat ->
  Permutation (x :: remove_at n l) (replace_at n x l).
Proof.
  intros A. induction l as [|a l IH]; intros n x H; simpl in H; [lia|].
  destruct n as [|n]; simpl; [apply Permutation_refl|].
  eapply perm_trans; [apply perm_swap|apply perm_skip; apply IH; lia].
Qed.

Lemma update_at_nth : forall {A} (f : A -> A) (l : list A) n m,
  nth_error (update_at n f l) m =
  if (m =? n)%nat then option_map f (nth_error l m) else nth_error l m.
Proof.
  intros A f. induction l as [|a l IH]; intros n m; simpl.
  - destruct (m =? n)%nat; destruct m; reflexivity.
  - destruct n as [|n]; simpl.
    + destruct m; reflexivity.
    + destruct m as [|m]; simpl; [reflexivity|]. rewrite IH.
      destruct (m =? n)%nat eqn:E1; destruct (S m =? S n)%nat eqn:E2; try lia; reflexivity.
Qed.

Lemma update_at_length : forall {A} (f : A -> A) (l : list A) n,
  List.length (update_at n f l) = List.length l.
Proof.
  intros A f. induction l as [|a l IH]; intro n; simpl; [reflexivity|].
  destruct n; simpl; [reflexivity|]. rewrite IH. reflexivity.
Qed.

Lemma update_at_map : forall {A B} (g : A -> B) (f : A -> A) (l : list A) n,
  (forall a, g (f a) = g a) -> List.map g (update_at n f l) = List.map g l.
Proof.
  intros A B g f. induction l as [|a l IH]; intros n H; simpl; [reflexivity|].
  destruct n; simpl; [rewrite H; reflexivity|]. rewrite IH; auto.
Qed.

(* slices *)
Lemma stride_aux_nth : forall {A} (l : list A) step skip j, (1 <= step)%nat ->
  nth_error (stride_aux step skip l) j = nth_error l (skip + j * step)%nat.
Proof.
  intros A. induction l as [|x l IH]; intros step skip j Hs; simpl.
  - destruct j; destruct (skip + _)%nat; reflexivity.
  - destruct skip as [|k].
    + destruct j as [|j]; simpl; [reflexivity|]. rewrite IH; [|assumption].
      replace (step + j * step)%nat with (S (Nat.pred step + j * step)) by lia. reflexivity.
    + rewrite IH; [|assumption]. reflexivity.
Qed.

Lemma nth_firstn_lt : forall {A} (l : list A) len j, (j < len)%nat ->
  nth_error (firstn len l) j = nth_error l j.
Proof.
  intros A. induction l as [|a l IH]; intros len j H.
  - rewrite firstn_nil. reflexivity.
  - destruct len as [|len]; [lia|]. destruct j as [|j]; simpl; [reflexivity|]. apply IH. lia.
Qed.

Lemma nth_skipn : forall {A} (l : list A) lo j, nth_error (skipn lo l) j = nth_error l (lo + j).
Proof.
  intros A. induction l as [|a l IH]; intros lo j.
  - rewrite skipn_nil. destruct j; destruct (lo + _)%nat; reflexivity.
  - destruct lo as [|lo]; simpl; [reflexivity|]. apply IH.
Qed.

Lemma firstn_skipn_nth : forall {A} (l : list A) lo len j,
  nth_error (firstn len (skipn lo l)) j = if (j <? len)%nat then nth_error l (lo + j) else None.
Proof.
  intros A l lo len j. destruct (j <? len)%nat eqn:E.
  - rewrite nth_firstn_lt; [|lia]. apply nth_skipn.
  - apply nth_error_None. rewrite firstn_length. lia.
Qed.

(* ======================================================================================= *)
(* C15: lookup by key, attribute, membership and get() — for arbitrary section states        *)

Lemma existsb_ext' : forall {A} (p q : A -> bool) l, (forall x, p x = q x) -> existsb p l = existsb q l.
Proof. intros A p q l H. induction l as [|a l IH]; simpl; [reflexivity|]. rewrite H, IH. reflexivity. Qed.

Definition key_pred (s : section) (k : list N) : item -> bool :=
  fun it => mnemonic_compare (transforms s) (sess it) k.

Lemma contains_existsb : forall s k, contains s k = existsb (key_pred s k) (items s).
Proof. intros s k. unfold contains, key_pred. apply existsb_ext'. intro x. apply cmp_sym. Qed.

Lemma lookup_str : forall s k,
  lookup_ix s (KStr k) = match find_ix (key_pred s k) (items s) with Some n => IOk n | None => IErr KeyError end.
Proof. reflexivity. Qed.

Lemma lookup_ix_lt : forall s k n, lookup_ix s k = IOk n -> (n < List.length (items s))%nat.
Proof.
  intros s [m|z] n H; simpl in H.
  - destruct (find_ix _ _) eqn:F; inversion H; subst. eapply find_ix_lt; eauto.
  - destruct (py_index _ _) eqn:F; inversion H; subst. eapply py_index_lt; eauto.
Qed.

Lemma getitem_lookup : forall s k it,
  getitem s k = IOk it <-> exists n, lookup_ix s k = IOk n /\ nth_error (items s) n = Some it.
Proof.
  intros s k it. unfold getitem. split.
  - destruct (lookup_ix s k) as [n|e] eqn:L; [|discriminate].
    destruct (nth_error (items s) n) eqn:E; [|discriminate]. intro H; inversion H; subst. eauto.
  - intros [n [L E]]. rewrite L, E. reflexivity.
Qed.

Lemma contains_iff : forall s k, contains s k = true <-> exists it, getitem s (KStr k) = IOk it.
Proof.
  intros s k. rewrite contains_existsb, find_ix_existsb. split.
  - intros [n F]. destruct (find_ix_Some _ _ _ F) as [x [Hx _]]. exists x.
    apply getitem_lookup. exists n. rewrite lookup_str, F. auto.
  - intros [it H]. apply getitem_lookup in H. destruct H as [n [L _]].
    rewrite lookup_str in L. destruct (find_ix _ _) eqn:F; [eauto|discriminate].
Qed.

Lemma contains_false_lookup : forall s k, contains s k = false <-> lookup_ix s (KStr k) = IErr KeyError.
Proof.
  intros s k. rewrite lookup_str. split.
  - intro H. destruct (find_ix _ _) eqn:F; [|reflexivity].
    assert (contains s k = true) as C; [|congruence].
    rewrite contains_existsb. apply find_ix_existsb. eauto.
  - intro H. destruct (contains s k) eqn:C; [|reflexivity].
    rewrite contains_existsb in C. apply find_ix_existsb in C. destruct C as [n F]. rewrite F in H. discriminate.
Qed.

Lemma getitem_first : forall s k it,
  getitem s (KStr k) = IOk it ->
  exists n, nth_error (items s) n = Some it /\
            mnemonic_compare (transforms s) (sess it) k = true /\
            (forall m y, (m < n)%nat -> nth_error (items s) m = Some y ->
                         mnemonic_compare (transforms s) (sess y) k = false).
Proof.
  intros s k it H. apply getitem_lookup in H. destruct H as [n [L E]].
  rewrite lookup_str in L. destruct (find_ix _ _) eqn:F; inversion L; subst.
  destruct (find_ix_Some _ _ _ F) as [x [Hx [Px Hlt]]]. exists n.
  assert (x = it) by congruence. subst. auto.
Qed.

Lemma getattr_present : forall s k,
  str_eqb k s_mnemonic_transforms = false -> contains s k = true -> getattr s k = getitem s (KStr k).
Proof. intros s k H C. unfold getattr. rewrite H, C. reflexivity. Qed.

Lemma getattr_missing : forall s k, contains s k = false -> getattr s k = IErr AttributeError.
Proof. intros s k C. unfold getattr. rewrite C. rewrite andb_false_r. reflexivity. Qed.

Lemma py_getattr_present : forall ca s k,
  existsb (str_eqb k) ca = false -> str_eqb k s_mnemonic_transforms = false -> contains s k = true ->
  py_getattr ca s k = ires_map AttrItem (getitem s (KStr k)).
Proof. intros ca s k H1 H2 C. unfold py_getattr. rewrite H1, getattr_present; auto. Qed.

Lemma missing_key : forall s k, contains s k = false ->
  getitem s (KStr k) = IErr KeyError /\ delitem s (KStr k) = IErr KeyError.
Proof.
  intros s k C. apply contains_false_lookup in C. unfold getitem, delitem. rewrite C. auto.
Qed.

(* payload is untouched by the suffix rule *)
Lemma renumber_payload : forall tr t l c, List.map payload (renumber tr t c l) = List.map payload l.
Proof.
  intros tr t. induction l as [|a l IH]; intro c; simpl; [reflexivity|].
  destruct (mnemonic_compare tr (useful a) t); simpl; rewrite IH; reflexivity.
Qed.

Lemma assign_payload : forall t s, List.map payload (items (assign_suffixes t s)) = List.map payload (items s).
Proof.
  intros t s. unfold assign_suffixes. destruct (Nat.ltb _ _); [|reflexivity]. simpl. apply renumber_payload.
Qed.

Lemma assign_transforms : forall t s, transforms (assign_suffixes t s) = transforms s.
Proof. intros t s. unfold assign_suffixes. destruct (Nat.ltb _ _); reflexivity. Qed.

Lemma renumber_length : forall tr t l c, List.length (renumber tr t c l) = List.length l.
Proof.
  intros tr t. induction l as [|a l IH]; intro c; simpl; [reflexivity|].
  destruct (mnemonic_compare tr (useful a) t); simpl; rewrite IH; reflexivity.
Qed.

Lemma assign_length : forall t s, List.length (items (assign_suffixes t s)) = List.length (items s).
Proof.
  intros t s. unfold assign_suffixes. destruct (Nat.ltb _ _); [|reflexivity]. simpl. apply renumber_length.
Qed.

Lemma payload_orig : forall l, List.map orig l = List.map (fun p => match p with (o, _, _, _, _, _) => o end) (List.map payload l).
Proof. intro l. rewrite map_map. reflexivity. Qed.

Lemma append_payload : forall s it,
  List.map payload (items (append s it)) = List.map payload (items s) ++ [payload it].
Proof. intros s it. unfold append. rewrite assign_payload. simpl. rewrite map_app. reflexivity. Qed.

Lemma get_pure : forall s k d s' it, get s k d false = IOk (s', it) -> s' = s.
Proof.
  intros s k d s' it H. unfold get in H. destruct (contains s k).
  - destruct (getitem s (KStr k)); simpl in H; inversion H; reflexivity.
  - inversion H; reflexivity.
Qed.

Lemma get_present : forall s k d add s' it,
  contains s k = true -> get s k d add = IOk (s', it) -> s' = s /\ getitem s (KStr k) = IOk it.
Proof.
  intros s k d add s' it C H. unfold get in H. rewrite C in H.
  destruct (getitem s (KStr k)); simpl in H; inversion H; subst. auto.
Qed.

Lemma new_item_orig : forall c m u v d dat, orig (new_item c m u v d dat) = m.
Proof. reflexivity. Qed.

Lemma get_default_orig : forall s k d, orig (get_default_item s k d) = k.
Proof.
  intros s k [d|di]; simpl; [|reflexivity].
  destruct (items s) as [|f r]; [reflexivity|]. destruct (is_curve f); reflexivity.
Qed.

Lemma get_add_missing : forall s k d s' it,
  contains s k = false -> get s k d true = IOk (s', it) ->
  s' = append s it /\ orig it = k /\
  List.map payload (items s') = List.map payload (items s) ++ [payload it] /\
  List.length (items s') = S (List.length (items s)) /\
  transforms s' = transforms s.
Proof.
  intros s k d s' it C H. unfold get in H. rewrite C in H. inversion H; subst. clear H.
  repeat split.
  - apply get_default_orig.
  - apply append_payload.
  - unfold append. rewrite assign_length. simpl. rewrite app_length. simpl. lia.
  - unfold append. rewrite assign_transforms. reflexivity.
Qed.

Lemma set_value_frame : forall s k v s',
  set_item_value s k v = IOk s' ->
  exists n it, lookup_ix s k = IOk n /\ nth_error (items s) n = Some it /\
               nth_error (items s') n = Some (set_value v it) /\
               (forall m, m <> n -> nth_error (items s') m = nth_error (items s) m) /\
               List.length (items s') = List.length (items s) /\ transforms s' = transforms s.
Proof.
  intros s k v s' H. unfold set_item_value in H. destruct (lookup_ix s k) as [n|e] eqn:L; inversion H; subst.
  pose proof (lookup_ix_lt _ _ _ L) as Hn.
  destruct (nth_error (items s) n) as [it|] eqn:E; [|apply nth_error_None in E; lia].
  exists n, it. simpl. repeat split; auto.
  - rewrite update_at_nth, Nat.eqb_refl, E. reflexivity.
  - intros m Hm. rewrite update_at_nth. destruct (m =? n)%nat eqn:E2; [lia|reflexivity].
  - apply update_at_length.
Qed.

Lemma set_value_fields : forall v it,
  orig (set_value v it) = orig it /\ sess (set_value v it) = sess it /\ it_unit (set_value v it) = it_unit it /\
  it_value (set_value v it) = v /\ it_descr (set_value v it) = it_descr it /\
  it_data (set_value v it) = it_data it /\ is_curve (set_value v it) = is_curve it.
Proof. intros. repeat split. Qed.

Lemma delete_frame : forall s k s',
  delitem s k = IOk s' ->
  exists n, lookup_ix s k = IOk n /\ S (List.length (items s')) = List.length (items s) /\
            (forall m, nth_error (items s') m = nth_error (items s) (if (m <? n)%nat then m else S m)) /\
            transforms s' = transforms s.
Proof.
  intros s k s' H. unfold delitem in H. destruct (lookup_ix s k) as [n|e] eqn:L; inversion H; subst.
  exists n. simpl. repeat split; auto.
  - apply remove_at_length. eapply lookup_ix_lt; eauto.
  - intro m. apply remove_at_nth.
Qed.

Lemma lookup_int : forall s z,
  lookup_ix s (KInt z) =
  let n := Z.of_nat (List.length (items s)) in
  if ((0 <=? z) && (z <? n))%Z then IOk (Z.to_nat z)
  else if ((z <? 0) && (- n <=? z))%Z then IOk (Z.to_nat (n + z))
  else IErr IndexError.
Proof.
  intros s z. simpl. unfold py_index.
  destruct ((0 <=? z)%Z && (z <? Z.of_nat (List.length (items s)))%Z); [reflexivity|].
  destruct ((z <? 0)%Z && (- Z.of_nat (List.length (items s)) <=? z)%Z); reflexivity.
Qed.

Lemma getitem_int : forall s z,
  let n := Z.of_nat (List.length (items s)) in
  ((0 <= z < n)%Z -> exists it, getitem s (KInt z) = IOk it /\ nth_error (items s) (Z.to_nat z) = Some it) /\
  ((- n <= z < 0)%Z -> exists it, getitem s (KInt z) = IOk it /\ nth_error (items s) (Z.to_nat (n + z)) = Some it) /\
  ((z < - n \/ n <= z)%Z -> getitem s (KInt z) = IErr IndexError /\ delitem s (KInt z) = IErr IndexError).
Proof.
  intros s z n. unfold getitem, delitem. rewrite lookup_int. cbv zeta. fold n. repeat split.
  - intro H. destruct ((0 <=? z)%Z && (z <? n)%Z) eqn:E; [|lia].
    destruct (nth_error (items s) (Z.to_nat z)) as [it|] eqn:N; [exists it; split; reflexivity|].
    apply nth_error_None in N. lia.
  - intro H. destruct ((0 <=? z)%Z && (z <? n)%Z) eqn:E; [lia|].
    destruct ((z <? 0)%Z && (- n <=? z)%Z) eqn:E2; [|lia].
    destruct (nth_error (items s) (Z.to_nat (n + z))) as [it|] eqn:N; [exists it; split; reflexivity|].
    apply nth_error_None in N. lia.
  - destruct ((0 <=? z)%Z && (z <? n)%Z) eqn:E; [lia|].
    destruct ((z <? 0)%Z && (- n <=? z)%Z) eqn:E2; [lia|reflexivity].
  - destruct ((0 <=? z)%Z && (z <? n)%Z) eqn:E; [lia|].
    destruct ((z <? 0)%Z && (- n <=? z)%Z) eqn:E2; [lia|reflexivity].
Qed.

Lemma getslice_spec : forall s a b step s',
  getslice s a b step = IOk s' ->
  (1 <= step)%nat /\ transforms s' = false /\
  let n := List.length (items s) in
  let lo := slice_lo n a in let hi := slice_hi n b in
  forall j, nth_error (items s') j =
            if (lo + j * step <? hi)%nat then nth_error (items s) (lo + j * step) else None.
Proof.
  intros s a b step s' H. unfold getslice in H. destruct step as [|st]; [discriminate|].
  inversion H; subst. clear H. simpl transforms. simpl items. repeat split; [lia|].
  intros n lo hi j. unfold py_slice. fold n. fold lo. fold hi.
  rewrite stride_aux_nth; [|lia]. rewrite firstn_skipn_nth. simpl.
  destruct (j * S st <? hi - lo)%nat eqn:E1; destruct (lo + j * S st <? hi)%nat eqn:E2; try lia; reflexivity.
Qed.

Lemma getslice_step0 : forall s a b, getslice s a b 0 = IErr ValueError.
Proof. reflexivity. Qed.

(* s[int] = item replaces exactly that position (then the suffix rule runs) *)
Lemma set_item_int : forall s z it,
  set_item s (KInt z) it =
  match lookup_ix s (KInt z) with
  | IOk n => IOk (assign_suffixes (useful it) (with_items s (replace_at n it (items s))))
  | IErr e => IErr e
  end.
Proof. intros s z it. simpl. destruct (py_index _ _); reflexivity. Qed.

Lemma py_getattr_both : forall class_attrs s k,
  existsb (str_eqb k) class_attrs = false -> str_eqb k s_mnemonic_transforms = false ->
  (contains s k = true -> py_getattr class_attrs s k = ires_map AttrItem (getitem s (KStr k))) /\
  (contains s k = false -> py_getattr class_attrs s k = IErr AttributeError).
Proof.
  intros ca s k H1 H2. split; intro C.
  - apply py_getattr_present; assumption.
  - unfold py_getattr. rewrite H1, (getattr_missing s k C). reflexivity.
Qed.
