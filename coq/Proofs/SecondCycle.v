(* Proofs.SecondCycle — C11: the genuine second cycle.  A file in memory m is written
   (text, first written form hs), the text is read (l), and the object READ BACK — l with
   index_initial = its index column, as LASFile.read leaves it — is written again with the same
   options.  On the decidable domain cycle_hypsb (the first written form is stable under one
   read: see below) the second write returns the SAME TEXT; hence reading it gives the same
   object l again, and so on for any number of cycles (cycles_same_text).

   Composition of Proofs/FileRoundTripCheck.v (read of the written text), SecondCycleRead.v (the
   sections read are canonical), SecondCycleHeader.v (header lines of the second write),
   SecondCycleData.v (data lines of the second write). *)
From Coq Require Import List Arith NArith ZArith Bool Lia String.
Import ListNotations.
Require Import PyStr Regex NumLit Num HeaderLine Tables SectionParse Sections DataRead Read TextWrap Writer.
Require Import ItemsBindProofs JunkProofs JunkSteering WriteStateProofs WriteIdemProofs WriteHeaderProofs WriteOptionsProofs
  WriteReadProofs WriteDataProofs WriteDataTextProofs FileRoundTripText FileRoundTripFind FileRoundTripHeader
  FileRoundTripData FileRoundTrip FileRoundTripMain FileRoundTripCheck
  SecondCycleRead SecondCycleItems SecondCycleHeader SecondCycleData.
Open Scope string_scope.
Open Scope list_scope.
Open Scope N_scope.

(* index_initial as LASFile.read leaves it (Corr/WriteShow.v index_initial_of) *)
Definition reread_index (l : las) : option (list cell) :=
  match s_items (l_curves l) with
  | [] => None
  | _ => Some (nth 0%nat (l_data l) [])
  end.

Lemma reread_index_some l n : List.length (s_items (l_curves l)) = S n ->
  reread_index l = Some (nth 0%nat (l_data l) []).
Proof. unfold reread_index. destruct (s_items (l_curves l)); [discriminate|reflexivity]. Qed.

(* ---- decidable equality of items ----------------------------------------------------------------- *)
Definition hval_eqb (a b : hval) : bool :=
  match a, b with
  | VInt x, VInt y => (x =? y)%Z
  | VFloat x, VFloat y => str_eqb x y
  | VStr x, VStr y => str_eqb x y
  | VNone, VNone => true
  | _, _ => false
  end.
Lemma hval_eqb_eq a b : hval_eqb a b = true -> a = b.
Proof.
  destruct a, b; cbn [hval_eqb]; intros H; try discriminate; try reflexivity.
  - apply Z.eqb_eq in H. congruence.
  - apply ws_str_eqb_eq in H. congruence.
  - apply ws_str_eqb_eq in H. congruence.
Qed.
Definition hitem_eqb (a b : hitem) : bool :=
  str_eqb (i_orig a) (i_orig b) && str_eqb (i_sess a) (i_sess b) && str_eqb (i_unit a) (i_unit b) &&
  hval_eqb (i_value a) (i_value b) && str_eqb (i_descr a) (i_descr b).
Lemma hitem_eqb_eq a b : hitem_eqb a b = true -> a = b.
Proof.
  destruct a as [o1 s1 u1 v1 d1], b as [o2 s2 u2 v2 d2]. unfold hitem_eqb. cbn [i_orig i_sess i_unit i_value i_descr]. intros H.
  repeat (apply andb_true_iff in H as [H ?]).
  repeat match goal with K : str_eqb _ _ = true |- _ => apply ws_str_eqb_eq in K end.
  match goal with K : hval_eqb _ _ = true |- _ => apply hval_eqb_eq in K end. congruence.
Qed.
Fixpoint strs_eqb (a b : list (list N)) : bool :=
  match a, b with
  | [], [] => true
  | x :: a', y :: b' => str_eqb x y && strs_eqb a' b'
  | _, _ => false
  end.
Lemma strs_eqb_eq : forall a b, strs_eqb a b = true -> a = b.
Proof.
  induction a as [|x a IH]; destruct b as [|y b]; cbn [strs_eqb]; intros H; try discriminate; [reflexivity|].
  apply andb_true_iff in H as [H1 H2]. apply ws_str_eqb_eq in H1. rewrite H1, (IH b H2). reflexivity.
Qed.

Section WithOracles.
Variable fmtv : list N -> list N -> list N.
Variable fmt_diff : list N -> list N -> list N -> list N.
Variable fmt_pi : list N -> list N.
Variable fstr : list N -> list N.
Variable fzero : list N -> bool.
Variable numeq : list N -> list N -> bool.
Variable fhex : list N -> option (list N).

Notation write := (write fmtv fmt_diff fmt_pi fstr fzero numeq).
Notation read := (read fhex fstr numeq).

(* the only item of the name class of `key`, as the reader will compare names *)
Definition uniq (c : mcase) (key : list N) (items : list hitem) : option hitem :=
  match filter (in_class c key) items with [x] => Some x | _ => None end.

Lemma uniq_some c key items x : uniq c key items = Some x -> filter (in_class c key) items = [x].
Proof. unfold uniq. destruct (filter _ _) as [|y [|z r]]; try discriminate. intros [= <-]. reflexivity. Qed.

(* the NULL value the reader will hold *)
Definition pn_of (ro : ropts) (hs : hdr_sections) : option hval :=
  match uniq (o_mcase ro) k_null (s_items (l_well (hs_las hs))) with
  | Some nit => Some (i_value (expected_item fstr KWell (o_mcase ro) nit))
  | None => None
  end.

(* the STOP value read back equals the value that the index format f prints for the last index
   value read back (no refresh on the next write: writer.write compares STOP with
   float(f % index_initial[-1])) *)
Definition stop_agreesb (ro : ropts) (f : list N) (pit : hitem) (T : list (list (list N))) : bool :=
  match rev T with
  | toks :: _ =>
      match mk_num fhex (nth 0%nat toks []), i_value (expected_item fstr KWell (o_mcase ro) pit) with
      | CNum t, VInt z => numeq (fmtv f t) (z_to_str z)
      | CNum t, VFloat x => numeq (fmtv f t) x
      | _, _ => false
      end
  | [] => false
  end.
(* every index value read back equals itself (it is not NaN) *)
Definition index_reflb (T : list (list (list N))) : bool :=
  forallb (fun toks => match mk_num fhex (nth 0%nat toks []) with CNum t => numeq t t | CStr _ => true | CNaN => false end) T.

(* THE DOMAIN of the second cycle, on the first written form hs (and the NULL text nt):
   1. every header item is stable under one read: reading its line back (mnemonic case-mapped,
      unit through strip_brackets, value text through num()) and normalising the value as the
      writer does prints the same mnemonic, unit and value text;
   2. WRAP names exactly one ~Version item — with wrap= given, the one the writer sets;
      STRT, STOP, STEP, NULL name exactly one ~Well item each; the units of STRT/STOP/STEP are
      the unit of the first curve; the NULL item prints the NULL text nt;
   3. the STOP value read back equals the last index value read back and the index has no NaN
      (update_start_stop_step is not triggered);
   4. every data token is a fixed point of read-then-print (back_okb: Hfix at the tokens written,
      NaN through the NULL text);
   5. every ~Other line is stripped;
   6. with mnemonics_header, the curves carry the session mnemonics the reader will assign. *)
Definition cycle_hypsb (ro : ropts) (o : wopts) (hs : hdr_sections) (nt : list N) : bool :=
  let c := o_mcase ro in
  let AV := hs_vers_items hs in
  let AW := s_items (l_well (hs_las hs)) in
  let AC := s_items (l_curves (hs_las hs)) in
  let AP := s_items (l_params (hs_las hs)) in
  let T := tok_matrix fmtv o nt (las_rows (hs_las hs)) in
  forallb (stable_itemb fstr fzero ro KVersion false) AV && forallb (stable_itemb fstr fzero ro KWell true) AW &&
  forallb (stable_itemb fstr fzero ro KCurves false) AC && forallb (stable_itemb fstr fzero ro KParameter true) AP &&
  match uniq c k_wrap AV with
  | Some wit => match wo_wrap o with
                | Some b => hitem_eqb (expected_item fstr KVersion c wit) (wrap_item b)
                | None => true
                end
  | None => false
  end &&
  match uniq c k_strt AW, uniq c k_stop AW, uniq c k_step AW, AC with
  | Some sit, Some pit, Some eit, c0 :: _ =>
      str_eqb (i_unit sit) (i_unit c0) && str_eqb (i_unit pit) (i_unit c0) && str_eqb (i_unit eit) (i_unit c0) &&
      stop_agreesb ro (col_fmt o 0%nat) pit T
  | _, _, _, _ => false
  end &&
  match uniq c k_null AW with Some nit => str_eqb (vstr fstr (i_value nit)) nt | None => false end &&
  index_reflb T && back_okb fmtv fhex numeq ro (pn_of ro hs) o nt T &&
  str_eqb (other_read (l_other (hs_las hs))) (l_other (hs_las hs)) &&
  (negb (wo_mnemonics_header o) || strs_eqb (map i_sess (reb fstr ro KCurves AC)) (map i_sess AC)).

Lemma forallb_stable ro k std items :
  forallb (stable_itemb fstr fzero ro k std) items = true -> Forall (stable_item fstr fzero ro k std) items.
Proof. apply forallb_Forall. apply stable_itemb_ok. Qed.

(* ---- the refresh is not triggered ------------------------------------------------------------------ *)
Lemma cells_equal_refl : forall idx : list cell,
  forallb (fun cl => match cl with CNum t => numeq t t | CStr _ => true | CNaN => false end) idx = true ->
  cells_equal numeq idx idx = true.
Proof.
  intros idx H. unfold cells_equal. rewrite Nat.eqb_refl. cbn [andb].
  induction idx as [|cl idx IH]; [reflexivity|]. cbn [forallb combine] in *.
  apply andb_true_iff in H as [H1 H2]. rewrite (IH H2), andb_true_r.
  destruct cl; [exact H1|discriminate|apply ws_str_eqb_refl].
Qed.

Lemma forallb_map_ {A B} (f : A -> B) (p : B -> bool) : forall l, forallb p (map f l) = forallb (fun x => p (f x)) l.
Proof. induction l as [|x l IH]; [reflexivity|]. cbn [map forallb]. rewrite IH. reflexivity. Qed.

Lemma second_need ro f hs l pit c pn T :
  l_well l = mksect (reb fstr ro KWell (s_items (l_well (hs_las hs)))) (trc (o_mcase ro)) ->
  l_data l = data_result fhex numeq ro pn c T -> (0 < c)%nat ->
  filter (in_class (o_mcase ro) k_stop) (s_items (l_well (hs_las hs))) = [pit] ->
  stop_agreesb ro f pit T = true -> index_reflb T = true ->
  (* at least one curve: without one `las.index` raises IndexError (Model/Writer.v, need) *)
  s_items (l_curves l) <> [] ->
  need_of fmtv numeq f (mkmlas l (Some (nth 0%nat (l_data l) []))) = Some false.
Proof.
  intros HlW Hd Hc HcP Hstop Hrefl Hcur.
  destruct (reb_find fstr ro KWell k_stop _ pit key_plain_stop HcP) as (p & Hp & Hn & _).
  unfold need_of, index_of. cbn [m_las m_index_initial].
  destruct (s_items (l_curves l)) as [|cv0 cvs]; [contradiction|].
  rewrite Hd, (D_index fhex numeq ro pn c T Hc).
  rewrite <- map_rev. unfold stop_agreesb in Hstop.
  destruct (rev T) as [|toks r]; [discriminate|]. cbn [map].
  unfold item_value_by. fold k_stop. rewrite HlW. cbn [s_items s_transforms]. rewrite sect_find_nth, Hp, Hn.
  f_equal. apply orb_false_iff. split.
  - apply negb_false_iff. apply cells_equal_refl. rewrite forallb_map_. exact Hrefl.
  - destruct (mk_num fhex (nth 0%nat toks [])) as [t| |s]; try discriminate.
    destruct (i_value (expected_item fstr KWell (o_mcase ro) pit)) as [z|x|s|]; try discriminate;
      apply negb_false_iff; exact Hstop.
Qed.

(* ---- the second cycle ------------------------------------------------------------------------------ *)
Theorem second_cycle ro o m text m' hs dl rts nt :
  write o m = WOk text m' ->
  write_sections fmtv fmt_diff fstr fzero numeq (wo_version o) (wo_wrap o) (col_fmt o 0%nat) m = Some hs ->
  dsh_of fmtv fmt_pi fstr o hs = Some dl ->
  las_null_text fstr (hs_las hs) = Some nt ->
  opt_all (map (row_text fmtv fmt_pi o (Some nt) 0%nat) (las_rows (hs_las hs))) = Some rts ->
  file_hypsb fmtv fmt_pi fstr fhex ro o hs nt = true -> o_ignore_data ro = false ->
  cycle_hypsb ro o hs nt = true ->
  exists l,
    read ro text = ROk l /\
    write o (mkmlas l (reread_index l)) = WOk text (mkmlas (norm_las fzero l) (reread_index l)).
Proof.
  intros Hw Hs Hdl Hnt Hrts Hfile Hig Hcyc.
  destruct (read_written_file_checked fmtv fmt_diff fmt_pi fstr fzero numeq fhex ro o m text m' hs dl rts nt
              Hw Hs Hdl Hnt Hrts Hfile Hig) as (l & pn & Hread & Hrb & Hnull & Hdata).
  exists l.
  (* the domain, piece by piece *)
  unfold cycle_hypsb in Hcyc. cbv zeta in Hcyc.
  repeat (apply andb_true_iff in Hcyc as [Hcyc ?]).
  match goal with K : forallb (stable_itemb _ _ _ KVersion _) _ = true |- _ => apply forallb_stable in K; rename K into StV end.
  match goal with K : forallb (stable_itemb _ _ _ KWell _) _ = true |- _ => apply forallb_stable in K; rename K into StW end.
  match goal with K : forallb (stable_itemb _ _ _ KCurves _) _ = true |- _ => apply forallb_stable in K; rename K into StC end.
  match goal with K : forallb (stable_itemb _ _ _ KParameter _) _ = true |- _ => apply forallb_stable in K; rename K into StP end.
  match goal with K : match uniq _ k_wrap _ with _ => _ end = true |- _ => rename K into HW end.
  match goal with K : match uniq _ k_strt _ with _ => _ end = true |- _ => rename K into HSSS end.
  match goal with K : match uniq _ k_null _ with _ => _ end = true |- _ => rename K into HN end.
  match goal with K : index_reflb _ = true |- _ => rename K into Hrefl end.
  match goal with K : back_okb _ _ _ _ _ _ _ _ = true |- _ => rename K into Hback end.
  match goal with K : str_eqb (other_read _) _ = true |- _ => apply ws_str_eqb_eq in K; rename K into Hoth end.
  match goal with K : (negb _ || _) = true |- _ => rename K into Hsess end.
  destruct (uniq (o_mcase ro) k_wrap (hs_vers_items hs)) as [wit|] eqn:EW; [|discriminate]. apply uniq_some in EW.
  destruct (uniq (o_mcase ro) k_strt (s_items (l_well (hs_las hs)))) as [sit|] eqn:ES; [|discriminate]. apply uniq_some in ES.
  destruct (uniq (o_mcase ro) k_stop (s_items (l_well (hs_las hs)))) as [pit|] eqn:EP; [|discriminate]. apply uniq_some in EP.
  destruct (uniq (o_mcase ro) k_step (s_items (l_well (hs_las hs)))) as [eit|] eqn:EE; [|discriminate]. apply uniq_some in EE.
  destruct (s_items (l_curves (hs_las hs))) as [|c0 crest] eqn:EC; [discriminate|]. rewrite <- EC in *.
  repeat (apply andb_true_iff in HSSS as [HSSS ?]).
  match goal with K : stop_agreesb _ _ _ _ = true |- _ => rename K into Hstop end.
  repeat match goal with K : str_eqb (i_unit _) (i_unit c0) = true |- _ => apply ws_str_eqb_eq in K end.
  assert (Hpn : pn = pn_of ro hs).
  { unfold pn_of. unfold null_read in Hnull. unfold uniq in *. fold k_null in Hnull.
    destruct (filter (in_class (o_mcase ro) k_null) (s_items (l_well (hs_las hs)))) as [|nit [|n2 r]]; try discriminate.
    exact Hnull. }
  destruct (uniq (o_mcase ro) k_null (s_items (l_well (hs_las hs)))) as [nit|] eqn:EN; [|discriminate]. apply uniq_some in EN.
  apply ws_str_eqb_eq in HN.
  (* the file hypotheses *)
  unfold file_hypsb in Hfile. do 4 (apply andb_true_iff in Hfile as [Hfile ?]).
  destruct (header_hypsb_ok fstr ro hs Hfile) as (vit & (_ & _ & _ & _ & Hstd & Hfv & HcV & Hdlm)).
  match goal with K : data_hypsb _ _ _ _ _ _ _ = true |- _ => apply data_hypsb_ok in K; destruct K as (Hc & Hne & Hshape & _) end.
  (* the sections read back *)
  destruct (read_canon fhex fstr numeq ro text l Hread) as (CV & CW & CC & CP).
  destruct Hrb as (MV & MW & MC & MP & Hother & _ & TV & TW & TC & TP).
  pose proof (canon_is_reb fstr ro KVersion _ _ CV TV MV) as HlV.
  pose proof (canon_is_reb fstr ro KWell _ _ CW TW MW) as HlW.
  pose proof (canon_is_reb fstr ro KCurves _ _ CC TC MC) as HlC.
  pose proof (canon_is_reb fstr ro KParameter _ _ CP TP MP) as HlP.
  set (cn := List.length (s_items (l_curves (hs_las hs)))) in *.
  set (T := tok_matrix fmtv o nt (las_rows (hs_las hs))) in *.
  assert (HTlen : Forall (fun toks : list (list N) => List.length toks = cn) T) by (apply tok_matrix_shape; exact Hshape).
  assert (Hcl : List.length (s_items (l_curves l)) = cn).
  { rewrite HlC. cbn [s_items]. rewrite reb_length. reflexivity. }
  assert (Hidx : reread_index l = Some (nth 0%nat (l_data l) [])).
  { apply (reread_index_some l (List.length crest)). rewrite Hcl. unfold cn. rewrite EC. reflexivity. }
  rewrite Hidx.
  assert (Hcur : s_items (l_curves l) <> []).
  { intro E0. rewrite E0 in Hcl. unfold cn in Hcl. rewrite EC in Hcl. discriminate Hcl. }
  pose proof (second_need ro (col_fmt o 0%nat) hs l pit cn pn T HlW Hdata Hc EP Hstop Hrefl Hcur) as Hneed.
  (* the header of the second write *)
  assert (HwI : forall b, wo_wrap o = Some b -> expected_item fstr KVersion (o_mcase ro) wit = wrap_item b).
  { intros b Hb. rewrite Hb in HW. apply hitem_eqb_eq. exact HW. }
  destruct (second_write_sections fmtv fmt_diff fmt_pi fstr fzero numeq ro (wo_version o) (wo_wrap o) (col_fmt o 0%nat) m hs Hs
              l HlV HlW HlC HlP (Forall_stable_weak fstr fzero ro _ _ _ StV) (Forall_stable_weak fstr fzero ro _ _ _ StW)
              (Forall_stable_weak fstr fzero ro _ _ _ StC) wit vit EW HwI HcV Hstd Hfv Hdlm sit pit eit c0 crest ES EP EE EC
              ltac:(assumption) ltac:(assumption) ltac:(assumption) (Some (nth 0%nat (l_data l) [])) Hneed StV StW StC StP)
    as (vsw2 & Hs2).
  (* the first write, factored *)
  destruct (WriteOptionsProofs.write_ok_inv fmtv fmt_diff fmt_pi fstr fzero numeq o m text m' Hw) as (hs0 & d & Hs0 & Hd & Ht & _).
  rewrite Hs in Hs0. injection Hs0 as <-.
  (* the second write *)
  rewrite write_factors, Hs2.
  set (hs2 := mkhs (hs_wrap hs) (hs_version hs) vsw2 (hs_lv hs) (hs_lw hs) (hs_lc hs) (hs_lp hs) (norm_las fzero l)).
  assert (Hnt2 : las_null_text fstr (hs_las hs2) = Some nt).
  { assert (Hin : In nit (s_items (l_well (hs_las hs)))).
    { assert (X : In nit (filter (in_class (o_mcase ro) k_null) (s_items (l_well (hs_las hs))))) by (rewrite EN; left; reflexivity).
      apply filter_In in X. tauto. }
    rewrite Forall_forall in StW.
    apply (second_null_text fstr fzero ro hs l HlW nit nt EN (StW nit Hin) HN). }
  assert (HT2 : tok_matrix fmtv o nt (las_rows (hs_las hs2)) = T).
  { rewrite <- Hpn in Hback.
    apply (second_tok_matrix fmtv fmt_pi fhex fstr numeq ro pn o nt cn T Hc HTlen Hback (hs_las hs2)).
    - exact Hdata.
    - exact Hcl. }
  assert (Hd2 : write_data fmtv fmt_pi fstr o hs2 = Some d).
  { rewrite <- Hd. apply (write_data_same fmtv fmt_pi fstr o nt hs hs2 Hnt Hnt2 HT2 eq_refl).
    intros Hmh. rewrite Hmh in Hsess. cbn [negb orb] in Hsess. apply strs_eqb_eq in Hsess.
    change (l_curves (hs_las hs2)) with (l_curves l). rewrite HlC. cbn [s_items]. exact Hsess. }
  rewrite Hd2. split; [exact Hread|]. cbn [m_index_initial]. f_equal. rewrite Ht. f_equal. f_equal.
  unfold header_lines.
  change (l_other (hs_las hs2)) with (l_other l). change (hs_lv hs2) with (hs_lv hs). change (hs_lw hs2) with (hs_lw hs).
  change (hs_lc hs2) with (hs_lc hs). change (hs_lp hs2) with (hs_lp hs). rewrite Hother, Hoth. reflexivity.
Qed.

(* ---- any number of cycles ---------------------------------------------------------------------------- *)
(* one load/save cycle on a text: read it, write the object read back (index_initial = its index
   column) with the same options *)
Definition cycle (ro : ropts) (o : wopts) (text : list N) : option (list N) :=
  match read ro text with
  | ROk l => match write o (mkmlas l (reread_index l)) with WOk t _ => Some t | WErr _ => None end
  | RErr _ => None
  end.
Definition cycle_opt (ro : ropts) (o : wopts) (x : option (list N)) : option (list N) :=
  match x with Some t => cycle ro o t | None => None end.

Theorem cycle_fixed ro o m text m' hs dl rts nt :
  write o m = WOk text m' ->
  write_sections fmtv fmt_diff fstr fzero numeq (wo_version o) (wo_wrap o) (col_fmt o 0%nat) m = Some hs ->
  dsh_of fmtv fmt_pi fstr o hs = Some dl ->
  las_null_text fstr (hs_las hs) = Some nt ->
  opt_all (map (row_text fmtv fmt_pi o (Some nt) 0%nat) (las_rows (hs_las hs))) = Some rts ->
  file_hypsb fmtv fmt_pi fstr fhex ro o hs nt = true -> o_ignore_data ro = false ->
  cycle_hypsb ro o hs nt = true ->
  cycle ro o text = Some text.
Proof.
  intros Hw Hs Hdl Hnt Hrts Hfile Hig Hcyc.
  destruct (second_cycle ro o m text m' hs dl rts nt Hw Hs Hdl Hnt Hrts Hfile Hig Hcyc) as (l & Hr & Hw2).
  unfold cycle. rewrite Hr, Hw2. reflexivity.
Qed.

(* k cycles: the text of every cycle is the text of the first write, and every read returns the
   same object *)
Theorem cycles_same_text ro o m text m' hs dl rts nt :
  write o m = WOk text m' ->
  write_sections fmtv fmt_diff fstr fzero numeq (wo_version o) (wo_wrap o) (col_fmt o 0%nat) m = Some hs ->
  dsh_of fmtv fmt_pi fstr o hs = Some dl ->
  las_null_text fstr (hs_las hs) = Some nt ->
  opt_all (map (row_text fmtv fmt_pi o (Some nt) 0%nat) (las_rows (hs_las hs))) = Some rts ->
  file_hypsb fmtv fmt_pi fstr fhex ro o hs nt = true -> o_ignore_data ro = false ->
  cycle_hypsb ro o hs nt = true ->
  forall k, Nat.iter k (cycle_opt ro o) (Some text) = Some text.
Proof.
  intros Hw Hs Hdl Hnt Hrts Hfile Hig Hcyc k.
  pose proof (cycle_fixed ro o m text m' hs dl rts nt Hw Hs Hdl Hnt Hrts Hfile Hig Hcyc) as Hc.
  induction k as [|k IH]; [reflexivity|].
  change (Nat.iter (S k) (cycle_opt ro o) (Some text)) with (cycle_opt ro o (Nat.iter k (cycle_opt ro o) (Some text))).
  rewrite IH. exact Hc.
Qed.

End WithOracles.
