#!/bin/bash
# Regenerate _CoqProject from the directory listing (so that adding a .v file needs no edit).
cd "$(dirname "$0")"
{
  for d in PyLib Gen Model Proofs Props Corr; do echo "-R $d LasioV"; done
  ls PyLib/*.v Gen/*.v Model/*.v Proofs/*.v Props/*.v Corr/CaseLib.v Corr/ReadShow.v Corr/WriteShow.v 2>/dev/null | grep -v '/Tmpg' | grep -v '/cases_' | sort
} > _CoqProject.new
if ! cmp -s _CoqProject.new _CoqProject; then mv _CoqProject.new _CoqProject; coq_makefile -f _CoqProject -o Makefile >/dev/null 2>&1; else rm _CoqProject.new; fi
[ -f Makefile ] || coq_makefile -f _CoqProject -o Makefile >/dev/null 2>&1
