#!/bin/bash
# usage: goal.sh FILE LINE [maxlines] — show the proof state after line LINE of FILE
f=$1; n=$2
d=$(dirname $f)
head -n $n $f > $d/Tmpg.v
echo "Show." >> $d/Tmpg.v
coqc -R PyLib LasioV -R Gen LasioV -R Model LasioV -R Proofs LasioV -R Props LasioV $d/Tmpg.v > $d/Tmpg.out 2>&1
head -${3:-70} $d/Tmpg.out
rm -f $d/Tmpg.* $d/.Tmpg.aux
