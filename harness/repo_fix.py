#!/venv/bin/python
"""Commit textual transforms of /repo files on top of HEAD without picking up other
people's uncommitted edits of the same files: each transform is applied to the HEAD blob
and staged through the index; with --apply it is also applied to the working-tree file
(otherwise the working tree is assumed to contain it already).
usage: repo_fix.py [--apply] <message-file> <path>=<transform.py> [<path>=<transform.py> ...]"""
import subprocess, sys, importlib.util
args = sys.argv[1:]
apply_wt = False
if args[0] == "--apply":
    apply_wt = True; args = args[1:]
msgfile, pairs = args[0], [a.split("=", 1) for a in args[1:]]
def git(*a, **kw):
    return subprocess.run(["git", "-C", "/repo"] + list(a), check=True, capture_output=True, text=True, **kw).stdout
staged = git("diff", "--cached", "--name-only").strip()
if staged:
    sys.exit("index not clean: %s" % staged)
mods = []
for i, (path, tf) in enumerate(pairs):
    spec = importlib.util.spec_from_file_location("tf%d" % i, tf); mod = importlib.util.module_from_spec(spec); spec.loader.exec_module(mod)
    head = git("show", "HEAD:" + path)
    new = mod.transform(head)
    if new == head:
        sys.exit("transform is a no-op on HEAD for " + path)
    blob = subprocess.run(["git", "-C", "/repo", "hash-object", "-w", "--stdin"], input=new, check=True, capture_output=True, text=True).stdout.strip()
    git("update-index", "--cacheinfo", "100644,%s,%s" % (blob, path))
    mods.append((path, mod))
git("commit", "-q", "-F", msgfile)
if apply_wt:
    for path, mod in mods:
        wt = open("/repo/" + path).read()
        open("/repo/" + path, "w").write(mod.transform(wt))
print("committed", git("log", "--oneline", "-1").strip())
print(git("status", "--short"))
