#!/venv/bin/python
"""Write harness/floors.json and harness/corpus_expected.txt from the evidence of the UNCHANGED tree (quick tier):
half of the case counts, 30 % of every input class that had at least 20 cases.  Run by hand after generators change; never at check time."""
import json, os, sys
HERE = os.path.dirname(os.path.abspath(__file__))
sys.path.insert(0, HERE)
out = {}
for i in range(1, 21):
    p = "C%02d" % i
    ev = json.load(open(os.path.join(HERE, "..", "evidence", p + ".json")))
    assert ev["tier"] == "quick" and ev["violations"] == 0, p
    c = ev["coverage"]
    hist = {k: int(v * 0.3) for k, v in (c.get("input_histogram") or {}).items()
            if isinstance(v, (int, float)) and v >= 20 and not k.startswith("not_") and "skipped" not in k and "unreadable" not in k}
    out[p] = {"cases": int(c["evaluations"] * 0.5), "distinct_nontrivial": int(c["distinct_nontrivial"] * 0.5), "histogram": hist}
json.dump(out, open(os.path.join(HERE, "floors.json"), "w"), indent=1, sort_keys=True)
import corpus_files
sys.path.insert(0, "/repo")
names = [n for n, _ in corpus_files.corpus()]
open(os.path.join(HERE, "corpus_expected.txt"), "w").write("\n".join(names) + "\n")
print("floors for", len(out), "properties;", len(names), "corpus files")
