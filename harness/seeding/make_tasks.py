#!/venv/bin/python
"""Prepare fault-seeding tasks: one scratch worktree of /repo per property under /tmp/wt/<id>, the property text
(and nothing else from /verif) in /tmp/wt/<id>_prop.txt, the task in /tmp/wt/<id>_task.txt.
usage: make_tasks.py <round.json>     round.json = {"c01": {"hint": "...", "where": "..."}, ...}
The sub-agent is then started with: "Read /tmp/wt/<id>_task.txt and do exactly what it says."  """
import json, os, subprocess, sys

TPL = """You are a software engineer doing fault seeding on the Python library `lasio` (a reader/writer for LAS well-log files). You have your OWN scratch git worktree of the library at /tmp/wt/@ID@ (work ONLY there and in /tmp/wt/@ID@_out; do not read or touch /repo, /verif or any other directory — in particular do not look at anything under /verif). Python with the library's dependencies: `/venv/bin/python` (run things as `cd /tmp/wt/@ID@ && PYTHONPATH=/tmp/wt/@ID@ /venv/bin/python …`).

The property you must break is in /tmp/wt/@ID@_prop.txt (read it). TASK: make a small, realistic change to the library source (under /tmp/wt/@ID@/lasio/) — the kind of regression a maintainer could plausibly introduce in a refactoring or "improvement" — such that (1) the library still imports and the EXISTING test suite still passes exactly as before: run `cd /tmp/wt/@ID@ && PYTHONPATH=/tmp/wt/@ID@ /venv/bin/python -m pytest -q -p no:cacheprovider -x tests -k "not chardet and not github and not url and not vcs and not test_data_characters_types and not test_write_changed_file" 2>&1 | tail -3` before AND after your change and confirm the same number of tests pass. NEVER use `git stash` (stashes are shared by all worktrees of the repository and collide with other engineers); to test the unchanged tree use `git diff > patch; git checkout .; ...; git apply patch` (those deselected ones fail for unrelated reasons: no network etc.); (2) the property is violated; (3) the violation needs something SPECIFIC to manifest — @HINT@ — NOT something that ordinary use (the common path, the example files, default options) would expose at once. Prefer a subtle off-by-one, a boundary condition, a condition that is true for all inputs the tests use, or two cooperating sites that each look fine alone. Where to look: @AVOID@.

DELIVERABLES in /tmp/wt/@ID@_out/: `patch.diff` (output of `git -C /tmp/wt/@ID@ diff`), `demo.py` — a small self-contained program run as `PYTHONPATH=<lasio tree> /venv/bin/python demo.py` that exits with status 1 and prints what went wrong when run against the changed tree, and exits 0 against the unchanged tree (`git stash` / `git stash pop` in your worktree to check both), and `meta.json` with keys `property` ("@PROP@"), `summary` (one sentence: what was changed), `needs` (what specific input/sequence/option is needed for it to manifest), `ran` (the commands you ran and their outcome, incl. the pytest pass counts before/after). Do not commit anything. Leave your change applied in the worktree. Your final answer: the summary, what it needs to manifest, and the pytest counts.
"""

props = {}
for l in open('/verif/properties.jsonl'):
    p = json.loads(l)
    props[p['id']] = p
rnd = json.load(open(sys.argv[1]))
os.makedirs('/tmp/wt', exist_ok=True)
for k, v in rnd.items():
    P = k.upper()
    p = props[P]
    subprocess.run(['git', '-C', '/repo', 'worktree', 'add', '--detach', '/tmp/wt/' + k, 'HEAD'], capture_output=True)
    os.makedirs('/tmp/wt/%s_out' % k, exist_ok=True)
    open('/tmp/wt/%s_prop.txt' % k, 'w').write("ID: %s\nTITLE: %s\n\nSTATEMENT: %s\n\nQUANTIFIED OVER: %s\n\nWHERE IN THE CODE: %s\n" % (
        P, p['title'], p['statement'], p['quantifier']['text'], ", ".join(p['anchors']['files'])))
    open('/tmp/wt/%s_task.txt' % k, 'w').write(TPL.replace('@ID@', k).replace('@PROP@', P).replace('@HINT@', v['hint']).replace('@AVOID@', v['where']))
    print(k, os.path.isdir('/tmp/wt/' + k + '/lasio'))
