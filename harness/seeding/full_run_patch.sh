#!/bin/bash
# usage: full_run.sh <seeded dir name, e.g. C04_2>   -> one line: <id> apply=<ok|fail> exit=<n> <verdict line>
# Runs the REAL quick check (translate + build + correspondence + oracle + search) of the seed's property against a scratch
# worktree of /repo with the seeded patch applied, inside a scratch copy of /verif: neither /repo nor /verif is touched.
P=$1; patch=$2; id=adhoc_$$_$P
base=/tmp/mut/$id; rm -rf $base; mkdir -p $base
git -C /repo worktree add --detach $base/repo HEAD >/dev/null 2>&1
if ! git -C $base/repo apply $patch 2>/dev/null; then
  if ! git -C $base/repo apply -3 $patch >/dev/null 2>&1; then
    echo "$id apply=fail"; git -C /repo worktree remove --force $base/repo; rm -rf $base; exit 0
  fi
fi
rsync -a --exclude .git --exclude out --exclude 'coq/Corr/cases_*' /verif/ $base/verif/
cd $base/verif
LASIO_REPO=$base/repo PYTHONPATH=$base/repo timeout 2400 ./check $P --tier quick > $base/log 2>&1; rc=$?
mkdir -p /verif/out/full; cp $base/log /verif/out/full/$id.log
echo "$id apply=ok exit=$rc $(grep -E '^\[C[0-9]+\] (PASS|FAIL)' $base/log | tail -1 | cut -c1-120) | $(grep -c 'no-failing-input-found' $base/log) nfi | $(grep -E 'translate=' $base/log | cut -c1-80)"
git -C /repo worktree remove --force $base/repo; rm -rf $base
