#!/bin/bash
# usage: process_one.sh <id e.g. c07>  : confirm the seeded change of /tmp/wt/<id>_out (demo fails with it, passes on /repo), then run
# the REAL quick check of its property against it (scratch worktree + scratch copy of /verif).  One summary line.
id=$1; P=$(echo $id | tr a-z A-Z); out=/tmp/wt/${id}_out
[ -f $out/patch.diff ] || { echo "$id no patch"; exit 0; }
(cd $out && PYTHONPATH=/tmp/wt/$id /venv/bin/python demo.py >/dev/null 2>&1); d1=$?
(cd $out && PYTHONPATH=/repo /venv/bin/python demo.py >/dev/null 2>&1); d0=$?
line=$(/verif/harness/seeding/full_run_patch.sh $P $out/patch.diff)
log=$(ls -t /verif/out/full/adhoc_*_$P.log 2>/dev/null | head -1)
cp "$log" /verif/out/r6_$id.log 2>/dev/null
echo "$id demo_changed=$d1 demo_repo=$d0 $line :: $(grep -m1 'failing input' /verif/out/r6_$id.log | cut -c1-220)"
