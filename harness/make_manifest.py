#!/usr/bin/env python3
"""Regenerate /verif/MANIFEST.json from the per-property table below (kept here so that the
manifest stays consistent: one check per claimed property, every other property listed under
not_applicable with a reason)."""
import json
import os

HERE = os.path.dirname(os.path.dirname(os.path.abspath(__file__)))

COMMON_NOTE = ("trusted: Coq 8.16.1 kernel + vm_compute (no native_compute, no extraction); no axioms (Print Assumptions = closed under "
               "the global context for every property theorem); translators/*.py + CPython re._parser/ast (regenerate coq/Gen/*.v from "
               "/repo on every run); the correspondence harness (generators, canonicalisers, coq/Corr/*.v); the hand-written Gallina "
               "model of the Python logic is tied to the code (a) by pin theorems: 46 functions/fragments of lasio are re-translated from /repo on every run (translators/funcs.py) and proved equal to the model function for every input (the Cxx_*_current theorems), and (b) by evaluating the model inside Coq on the same cases the implementation runs; what is not pinned is "
               "not verified against the source. ")

P = {}

P["C01"] = dict(
    technique="Coq proof (token round trip through padding/rjust/textwrap and the two engines) + vm_compute correspondence of write->read pipelines",
    text="Theorems over the writer/reader models for unbounded rows, columns and widths: the tokens of a written row are exactly the formatted "
         "samples (C01_row_tokens), wrapping never loses/splits/merges/reorders a token and emits no blank line (C01_wrap_tokens), NaN is written "
         "as the NULL text, and both engines read back the token matrix that was written (with C02/C06/C07). The numeric 'half a unit of the last "
         "digit' clause rests on the oracle that fmt % x and float() are correctly rounded: the theorem shows the token reaching float() is exactly "
         "fmt % x. Tie: whole write->read pipelines (all option families, 1..40 curves incl. every multiple of fields-per-line, float64 range, NaN) "
         "evaluated in the model and compared with lasio's text and re-read result.",
    note="oracles: fmt % x, float(text), str(NULL); textwrap modelled in PyLib/TextWrap.v (validated on every row); domain excludes a finite sample "
         "whose printed text equals the NULL value and option sets that leave no separator between fields.",
    design="DESIGN.md 6 C01")
P["C02"] = dict(
    technique="Coq proof (both engines refine one token-matrix specification; regex substitution/splitter facts through the translated ASTs) + correspondence with engine trace",
    text="C02_agree/C02_numpy_spec/C02_normal_spec: on the property's domain (boolean predicate dom2_lineb: blank, '#', or c float tokens; no quotes; "
         "substitutions do not fire) numpy_engine and normal_engine return the same columns = the token matrix of the data lines, for every number of "
         "rows/columns and every position of blank/comment lines; C02_sniff (column sniffing returns c); C02_read_agree lifts it to the whole read and "
         "shows the fast path is taken (no silent fallback). Tie: files of every layout read with both engines in model and implementation; the "
         "LASIO_VERIF engine trace proves the numpy path produced the data.",
    note="assumed: numpy.genfromtxt(lines, names=None, unpack=True, loose=False, ndmin=2) behaves as Model/DataRead.v genfromtxt_rows "
         "(validated on every generated layout); float(token) oracle.",
    design="DESIGN.md 6 C02")
P["C03"] = dict(
    technique="Coq proof (format_item is a conformant layout; parse through the C04 grammar theorem; order tables from translated ORDER_DEFINITIONS) + correspondence of write->read pipelines",
    text="Header lines produced by the writer model are shown to be layouts satisfying the hypotheses of the header-grammar theorem for every item "
         "of a section whatever the column widths (widths cover every item), so parsing returns the fields written; value/description order uses the "
         "same generated table on both sides; standardize is idempotent and changes only empty values with a unit. Tie: generated item lists "
         "(duplicates, blanks, each item the widest, punctuation/quotes/brackets) written as 1.2/2.0 and read with preserve/upper/lower. Pins (proved for every input against the functions re-translated from /repo on this run): writer order/formatter/widths, strip_brackets, useful_mnemonic, mnemonic_compare.",
    note="known finding dlm-rewritten; oracle: num(str(v)) is numerically v for numeric header values (checked per case); ASCII case mapping; blank-mnemonic lines covered by "
         "correspondence.",
    design="DESIGN.md 6 C03")
P["C04"] = dict(
    technique="Coq proof through a backtracking regex matcher with CPython semantics over ASTs translated from reader.py on every run + 6000-line correspondence",
    text="C04_parse_all and instances: for all field contents and all six paddings satisfying the conformance predicates, read_header_line(layout) "
         "returns exactly (MNEM, UNIT, VALUE, DESCR) in every section kind, incl. empty fields, units with interior dots/colons, the last-colon rule, "
         "clock-time colons in ~Parameter (all 24x60 times), 'NAME : VALUE' lines, '1000 lbf' units; total on period/colon lines. The regex ASTs are "
         "CPython's own parse of the pattern strings in the source today (C04_patterns_current), so an edited pattern breaks a proof obligation. Pins: configure_metadata_patterns' pattern selection and read_header_line's field post-processing equal the model for every line (translated from the source on every run).",
    note="\\d modelled as ASCII digits, \\s as str.isspace; pattern selection and the whole of read_header_line are pinned (C04_selection_current, C04_read_header_line_current).",
    design="DESIGN.md 6 C04")
P["C05"] = dict(
    technique="Coq proof (induction over the block list: section table and body slices; steering frame lemmas) + correspondence over all section permutations",
    text="C05_cut/C05_bodies: for any number, order and size of blocks the section table lists exactly the titles and the slice read for section i "
         "is exactly body i (inner and last sections alike; nothing dropped, duplicated or shared); classification depends only on the upper-cased "
         "letter; only ~V (VERS/WRAP/DLM) and ~W (NULL) can change steering values, other sections never do; routing writes one slot; C05_views_permutation: any reordering of the blocks leaves the multiset of (title, body, ~Other text) views unchanged. Tie: all 120 "
         "permutations of {W,C,P,O,custom} with ~A at every position, documented title spellings in both cases, steering names planted in ~P/custom. Pins: determine_section_type, the section router and the steering block of LASFile.read equal the model for every title / section.",
    note="LAS 1.2/2.0 titles (LAS 3.0 section handling outside the model); that parse of body i yields the intended items is C03/C04.",
    design="DESIGN.md 6 C05")
P["C06"] = dict(
    technique="Coq proof (cell-wise iff, parametric in the equality oracle) + correspondence over NULL spellings/policies/engines",
    text="C06_read_null / C06_read_cell_iff (any successful read, both engines; pin C06_null_bind_current on the NULL loop of LASFile.read); unfolding lemmas C06_iff/C06_iff_cellwise: a cell becomes NaN iff it lies in a float column other than the index and equals NULL under the numeric-equality "
         "oracle; index kept; text columns untouched; policy none changes nothing; lengths preserved — for every column and every oracle. Tie: NULL in "
         "{-999.25,-9999,0,999,1e30,...} in several spellings, near-NULL (+-1ulp), index/text columns, both engines, strict/none, wrapped; then "
         "write->read keeps NaN positions and NaN is emitted as the NULL value.",
    note="numeric equality = IEEE == on the doubles CPython assigns (oracle); the write side is checked on the implementation and by C01's model.",
    design="DESIGN.md 6 C06")
P["C07"] = dict(
    technique="Coq proof (reshape/transpose/bind lemmas for unbounded d, c, r) + correspondence with coordinate-carrying cells",
    text="C07_read_rectangular / C07_read_one_data_shape (any successful read, both engines, several ~A sections; pins C07_bind_current, C07_n_columns_current); reshape n (concat rows) = rows; column j of the transpose is the j-th entries; bind_columns yields max(d,c) curves, declared curves keep "
         "order and metadata, surplus columns become unnamed curves after them, curves without a column are NaN-filled of the common length; the "
         "normal engine binds cell (i,j) to element i of curve j. Tie: d in 0..7, c <,=,> d, r in {1,2,3,22}, wrapped at 1..c tokens per line, both engines.",
    note="WRAP=YES claimed for c = d and whole-step lines with c >= d (a wrapped file with fewer values per step than curves is ambiguous).",
    design="DESIGN.md 6 C07")
P["C08"] = dict(
    technique="Coq proof (regex-language soundness/completeness + literal recognisers, for all strings) + exhaustive short-string correspondence",
    text="C08_verbatim/C08_integer/C08_float for ALL strings: SectionParser.num converts exactly the plain decimal literals (after the decimal-comma "
         "rule), integers exactly when they fit 64 bits, others as float(text) unless it overflows; everything else verbatim. The comma substitution "
         "and the literal guard are the regex ASTs translated from the source on every run. Pins: SectionParser.__init__/num/metadata/params/curves re-translated from the source on every run and proved equal to the model for every input (int()/float()/isfinite as record operations).",
    note="np.float64(text) correctly rounded (oracle, checked per case against decimal); API/UWI and ~Curves rules checked at file level.",
    design="DESIGN.md 6 C08")
P["C09"] = dict(
    technique="Coq proof (one invariance lemma per transformation over the read model, composition by transitivity) + correspondence on transformed corpus/generated files",
    text="Blank/comment line insertion in header and data bodies, padding of line ends, CRLF, final newline, re-wrapping at token boundaries leave "
         "parse_body / the engines' token lists unchanged (lemmas for a single change at an arbitrary site; compositions by induction). Tie: 1-6 random "
         "transformations applied to the example corpus and generated bases (WRAP=YES, DLM COMMA/TAB, custom sections, inner ~A).",
    note="inside the modelled fragment (LAS 1.2/2.0, default options); ~Other keeps blank lines; the sniffer is covered by C09_sniff_blank after fixes d2ac2bb/5035e7a and pinned (C09_inspect_current); known finding delimited-text-padding.",
    design="DESIGN.md 6 C09")
P["C10"] = dict(
    technique="Coq proof (dispatch and encoding-choice decision tables, channel independence under explicit codec hypotheses) + channel/encoding/newline tuples and history correspondence",
    text="partial by nature: proved — open_file dispatch, open_with_codecs encoding choice, BOM detection, all channels deliver the same text hence "
         "equal results for any function of it; assumed — codec round trip, universal newlines, tell/seek; not expressible — hidden shared heap state "
         "(purity rests on the history correspondence over 3 live objects).",
    note="codecs/newline translation/chardet are oracles (explicit Section hypotheses); URLs out of scope; known finding path-linebreak.",
    design="DESIGN.md 6 C10")
P["C11"] = dict(
    technique="Coq proof (writer fixed points; the second cycle proper on a decidable domain: the write of the object READ BACK returns the same text, hence k cycles) + correspondence of R-W-R-W-R chains on corpus/generated files, with the theorem's domain evaluated on every chain",
    text="proved: a second write of the same object gives the same text and state; the values write leaves in memory are fixed points; read results "
         "are canonical (C11_read_canonical); on the decidable domain cycle_hypsb (first written form in normal form: each item line and each token "
         "is a read-then-print fixed point, oracle Hfix) C11_second_cycle: write o (object read back) = the same text, and C11_cycles_same_text for "
         "any number of cycles; outside it C11_second_cycle_content_partial (content equal up to numeric equality, one premise on the second written "
         "form left as hypothesis). The proof exposed defect F28 (nested bracket pairs), fixed. Tie: whole chains evaluated in the model and compared "
         "with lasio; per chain the harness evaluates both domains in Coq and checks the theorem's prediction (same second text) on real lasio.",
    note="oracle: fmt % float(fmt % x) = fmt % x; the domain hypotheses are per-piece fixed-point conditions, not a syntactic characterisation; known finding nonblank-spacer.",
    design="DESIGN.md 6 C11, 9.4")
P["C12"] = dict(
    technique="Coq proof (writer and reader order tables agree, case-insensitively, against the translated ORDER_DEFINITIONS; header independent of data options) + pairwise configuration correspondence",
    text="C12_order_tables_agree / C12_order_case_insensitive proved against Gen/Tables.v (re-translated from defaults.py every run: an edit that "
         "makes reader and writer disagree breaks the proof); header lines and the in-memory state do not depend on data-presentation options; the "
         "1.2/2.0 swap is on disk only; at file level C12_file_presentation_independent / C12_file_wrap_independent / C12_file_options_independent: two "
         "written forms of one object that agree on the per-column formats read back to equal sections and equal data (on the file round-trip domain "
         "file_hypsb). Tie: pairs of writer configurations on corpus/generated/mixed-case bases incl. version 1.2 vs 2.0 and rows over 255 characters.",
    note="'equal precision' is taken as equal format strings per existing column in the theorems (different strings that print the same digits: correspondence only); known finding nonblank-spacer.",
    design="DESIGN.md 6 C12")
P["C13"] = dict(
    technique="Coq proof (invariant by induction over operation sequences, refuted at the known clash) + exhaustive short operation sequences",
    text="Inv (distinct session names, each resolves to its own item, blanks shown as UNKNOWN, originals never altered) holds initially and is "
         "preserved by append/insert/delete/replace for sequences of any length under no_suffix_clash (the recorded finding: A, A, A:1); numbering "
         "post-condition; closed form of the names after reading; round trip of names. C13_I1_refuted exhibits the clash by vm_compute. Pins: useful_mnemonic, mnemonic_compare, assign_duplicate_suffixes, append, insert, set_item.",
    note="known finding suffix-clash (statement's clauses jointly unsatisfiable there); object aliasing not expressible; file level checked on the implementation.",
    design="DESIGN.md 6 C13")
P["C14"] = dict(
    technique="Coq proof (refinement of the curve collection to a plain list model, lifted to all histories) + exhaustive/random edit histories incl. pairs of LASFiles",
    text="Every curve operation refines the list-model step (abs (step s op) = spec_step (abs s) op) and observations agree, lifted by induction to "
         "all histories (under no_suffix_clash where names are involved: theorems named _partial); observations are those of the implementation "
         "model's own keys() resolution; independence of two LASFiles is by construction in the model (value semantics) and carried by the "
         "alternating-history correspondence and the implementation-side list-model oracle (cross-file item operations included).",
    note="numpy view/copy semantics and object identity outside the model (columns are immutable values); known findings suffix-clash, shared-item, same-item-twice.",
    design="DESIGN.md 6 C14")
P["C15"] = dict(
    technique="Coq proof (pointwise laws on arbitrary section states) + exhaustive operation/probe sequences",
    text="For every section state and string key: membership iff item access succeeds, first match, attribute access agrees, missing key -> KeyError, "
         "get() pure / add appends exactly one, set-value and delete frames, int keys and slices as list positions. Pins: SectionItems.__contains__/__getitem__/__delitem__ for str keys re-translated and proved equal to the model.",
    note="two language-level exclusions are explicit hypotheses (list attribute names; non-string membership); ASCII case folding.",
    design="DESIGN.md 6 C15")
P["C16"] = dict(
    technique="Coq proof (frame, idempotence and truthfulness of the write model) + snapshot correspondence over edit modes and write counts",
    text="write leaves data, order, mnemonics, descriptions alone; only STRT/STOP/STEP values+units, curve 0's unit, the WRAP item and empty values "
         "with units change; in-memory VERS untouched; a second write gives identical text and state; when the index was created/changed or STOP "
         "disagrees, STRT/STOP/STEP carry the formatted first/last/first-increment and aligned units. Tie: read / scratch / edited index / edited curve "
         "/ edited header, 11 option sets, 1-3 writes: every text and the full snapshot compared. Pin: the writer's value standardisation.",
    note="known finding duplicate-wrap; 'to format precision' = the text CPython prints (oracle fmtv/fmt_diff); STRT/STOP/STEP keyword arguments left to lasio; index column numeric/NaN.",
    design="DESIGN.md 6 C16")
P["C17"] = dict(
    technique="Coq proof (rebuild o reduce = id on the item/section model) + pickle protocols 0-5 and deepcopy correspondence and implementation-side oracle",
    text="partial by nature, and thin: proved — in the item/section model (names, session mnemonics, unit, value, descr, a data digest) rebuilding from "
         "the reduced form reproduces every modelled field incl. session mnemonics of duplicates (pickle and deepcopy are one term in the model); "
         "NOT in the model: arrays and dtypes, index_initial, index unit, LASFile attributes, byte-identical write() (C17_write_partial is a congruence "
         "over an abstract write, not Writer.write) — these clauses are carried by the implementation-side oracle (protocols 0-5, deepcopy, copies "
         "mutated afterwards, dtypes observed, in-place index edits before the copy) and the correspondence of the observable dump.",
    note="pickle/copy are oracles; no pin on __reduce__.",
    design="DESIGN.md 6 C17")
P["C18"] = dict(
    technique="Coq proof (encoder value map and strictness, CSV/Excel/DataFrame layouts, unit table decisions against translated DEPTH_UNITS, depth identity in Q) + export correspondence",
    text="partial by nature: proved — JSON is strict and carries every value, CSV header rows and one record per step, Excel cell layout, df and "
         "set_data_from_df(df()), index-unit decision on the generated table, depth_m = depth_ft*381/1250 exactly in Q; assumed — json/csv/openpyxl/"
         "pandas store what they are handed, float rounding within 4 ulp. Pin: las._json_value re-translated and proved equal to the model's JSON value mapping.",
    note="library behaviour is an oracle; known finding excel-inf.",
    design="DESIGN.md 6 C18")
P["C19"] = dict(
    technique="Coq proof (totality of the tolerant loop, junk adds at most one item and never changes genuine fields, only LASHeaderError otherwise, steering frame) + junk-insertion correspondence",
    text="With ignore_header_errors the header loop never fails; an unparsable junk line is skipped, a parsable one adds exactly one item and leaves "
         "original mnemonic/unit/value/description and order of genuine items unchanged; steering values unchanged for junk not naming VERS/WRAP/DLM/"
         "NULL; without the flag the only failure is LASHeaderError naming that line. Tie: 1-5 junk lines (random, punctuation only, periods, colons, "
         "quotes, 5000 characters, look-alikes) at random sites of ~V/~W/~P/custom sections of corpus and generated files, with and without the flag.",
    note="exceptions raised from inside CPython's re on pathological lines are not in the model (exercised by the long lines).",
    design="DESIGN.md 6 C19")
P["C20"] = dict(
    technique="Coq proof (verified leak analysis sound for all programs and fault sequences, applied by vm_compute to skeletons translated from the source ast) + exhaustive fault injection",
    text="partial by nature: proved — for every fault sequence no control path of the skeletons translated from read/write/to_csv/open_file/"
         "open_with_codecs/adhoc_test_encoding/convert_version leaves a file lasio opened open; write/to_csv never close a caller-supplied object; every observed "
         "open/close event sequence is a run of the skeleton (acceptor proved sound). Tie: OSError injected at every k-th low-level I/O operation of "
         "every call kind plus each input-induced failure class.",
    note="assumed: the translator marks every raising statement; close() closes; handles opened by urlopen/openpyxl not in the model.",
    design="DESIGN.md 6 C20")

NOT_YET = {}


def main():
    ids = ["C%02d" % i for i in range(1, 21)]
    checks = []
    na = []
    for pid in ids:
        have = os.path.exists(os.path.join(HERE, "harness", "props", pid.lower() + ".py")) and \
            os.path.exists(os.path.join(HERE, "coq", "Props", pid + ".v"))
        if have and "placeholder" in open(os.path.join(HERE, "coq", "Props", pid + ".v")).read():
            NOT_YET[pid] = "model, harness and correspondence are built and pass; the theorems are still being proved (Props file is a placeholder) - not claimed until they are"
        if pid in P and have and pid not in NOT_YET:
            d = P[pid]
            checks.append({
                "property_id": pid,
                "quick_cmd": "./check %s --tier quick" % pid,
                "thorough_cmd": "./check %s --tier thorough" % pid,
                "evidence_file": "evidence/%s.json" % pid,
                "replay_cmd_template": "./check %s --replay {path}" % pid,
                "engine": "coq-model",
                "technique": d["technique"],
                "level_claimed": {"category": "proof", "text": d["text"], "design_ref": d["design"]},
                "level_note": COMMON_NOTE + d["note"],
            })
        else:
            na.append({"property_id": pid, "reason": NOT_YET.get(pid, "check not built yet in this phase (model/harness in progress); not claimed")})
    m = {
        "version": 1,
        "setup_cmd": "./setup.sh",
        "hooks": {
            "guard": "LASIO_VERIF",
            "enable": "checks export LASIO_VERIF=1 before importing lasio from /repo (pure Python, nothing to build); the only hook records which "
                      "data engine produced each data section (LASFile._verif_engine_trace)",
            "baseline_off_cmd": "/venv/bin/python harness/baseline.py",
            "source_commits": ["ec92971"],
            "add_only": True,
        },
        "engines": [{"name": "coq-model", "path": "coq/", "serves_properties": [c["property_id"] for c in checks],
                     "kind_free_text": "Gallina models + theorems (Coq 8.16.1), Gen/*.v regenerated from /repo by translators/, correspondence by "
                                       "generated case files evaluated with vm_compute (coq/Corr), driver ./check + harness/"}],
        "checks": checks,
        "not_applicable": na,
        "notes": "Every property is decided by machine-checked proof in Coq tied to /repo by translators (regexes, tables, I/O skeletons, and the bodies of 46 functions/fragments proved equal to the model functions) and a "
                 "vm_compute correspondence; see DESIGN.md. known_findings.txt lists the fixed defects (`fixed:`) and the known findings (`known:`, each with a replay under corpus/).",
    }
    with open(os.path.join(HERE, "MANIFEST.json"), "w") as f:
        json.dump(m, f, indent=1)
    print("manifest: %d checks, %d not_applicable" % (len(checks), len(na)))


if __name__ == "__main__":
    main()
