#!/venv/bin/python
"""Read ONE (text, channel, options) entry in a fresh interpreter and print its canonical dump:
the purity reference of the C10 histories (nothing was read before in this process)."""
import json, os, sys, tempfile, logging, warnings
HERE = os.path.dirname(os.path.abspath(__file__))
sys.path.insert(0, os.environ.get("PYTHONPATH", "/repo").split(":")[0])
sys.path.insert(0, HERE)
logging.disable(logging.CRITICAL)
warnings.simplefilter("ignore")
from props import c10
e = json.loads(sys.stdin.read())
with tempfile.TemporaryDirectory() as d:
    o, las = c10.observe(lambda: c10.pool_read(e, 0, d))
print("OK " + json.dumps(o))
