"""Generator of LAS 1.2/2.0 texts with a known intended content (the 'spec'), used by the
read-side properties (C02, C05, C06, C07, C09, C19).  Every random choice comes from the
rng that is passed in."""

MN_POOL = ["DEPT", "GR", "RHOB", "NPHI", "DT", "ILD", "SP", "CALI", "X1", "A_B", "GR2", "TEMP"]
UNITS = ["", "M", "FT", "G/CM3", "US/M", "OHMM", "%", "DEGC", "V/V", "MV"]
DESCRS = ["", "DEPTH", "GAMMA RAY", "BULK DENSITY", "1  DEPTH", "x (y)", "log #2", "a-b"]
TEXTVALS = ["", "ANY OIL COMPANY INC.", "WELL-1", "15_9", "A9-16-49-20W3M", "hello world", "x (y) [z]", "12-34",
            "N/A", "12.5", "100", "-3", "1e3", "007"]


class Spec:
    """Intended content of a LAS file and its presentation."""

    def __init__(self):
        self.version = "2.0"
        self.wrap = "NO"
        self.dlm = None            # None | "SPACE" | "COMMA" | "TAB"
        self.null = "-999.25"
        self.well = []             # (mnem, unit, value, descr)
        self.curves = []
        self.params = []
        self.other = []            # lines
        self.custom = []           # (title, [(m,u,v,d)]) header-item sections
        self.rows = []             # list of list of token strings
        self.order = ["W", "C", "P", "O"]   # plus indices into custom as ("X", i); "A" placed via a_pos
        self.a_pos = None          # None = last; else index into order after which ~A goes
        self.titles = {"V": "~Version Information", "W": "~Well", "C": "~Curve Information", "P": "~Parameter",
                       "O": "~Other", "A": "~ASCII"}
        self.eol = "\n"
        self.final_newline = True
        self.extra_lines = {}      # section key -> list of (position, line) raw lines to insert in its body
        self.data_pad = (" ", "  ")  # (lhs, sep)
        self.steer_in_v = True


def fmt_item(m, u, v, d, pads=("", "", "  ", " ", " ", "")):
    return pads[0] + m + pads[1] + "." + u + pads[2] + v + pads[3] + ":" + pads[4] + d + pads[5]


def render(spec, pads_for=None):
    """-> (text, layout) ; layout lists (section key, first line index, last line index)."""
    lines = []
    sec = {}

    def body(key, items_lines):
        extras = sorted(spec.extra_lines.get(key, []), key=lambda x: x[0])
        out = list(items_lines)
        for pos, ln in reversed(extras):
            pos = min(pos, len(out))
            out.insert(pos, ln)
        return out

    def itemlines(items):
        return [fmt_item(*it, pads=(pads_for(it) if pads_for else ("", "", "  ", " ", " ", ""))) for it in items]

    v_items = []
    if spec.steer_in_v:
        v_items.append(("VERS", "", spec.version, "CWLS LOG ASCII STANDARD"))
        if spec.wrap is not None:
            v_items.append(("WRAP", "", spec.wrap, "wrap mode"))
        if spec.dlm:
            v_items.append(("DLM", "", spec.dlm, "delimiter"))
    blocks = [("V", spec.titles["V"], body("V", itemlines(v_items)))]
    order = list(spec.order)
    a_block = ("A", spec.titles["A"], body("A", data_lines(spec)))
    for idx, k in enumerate(order):
        if isinstance(k, tuple):
            title, items = spec.custom[k[1]]
            blocks.append((k, title, body(k, itemlines(items))))
        elif k == "W":
            w = list(spec.well)
            if spec.null is not None:
                w = [("NULL", "", spec.null, "NULL VALUE")] + w
            blocks.append(("W", spec.titles["W"], body("W", itemlines(w))))
        elif k == "C":
            blocks.append(("C", spec.titles["C"], body("C", itemlines(spec.curves))))
        elif k == "P":
            blocks.append(("P", spec.titles["P"], body("P", itemlines(spec.params))))
        elif k == "O":
            blocks.append(("O", spec.titles["O"], body("O", list(spec.other))))
        if spec.a_pos is not None and spec.a_pos == idx:
            blocks.append(a_block)
    if spec.a_pos is None or spec.a_pos >= len(order):
        blocks.append(a_block)
    layout = []
    for key, title, blines in blocks:
        first = len(lines)
        lines.append(title)
        lines += blines
        layout.append((key, first, len(lines) - 1))
    text = spec.eol.join(lines)
    if spec.final_newline:
        text += spec.eol
    return text, layout


def data_lines(spec):
    lhs, sep = spec.data_pad
    d = spec.dlm or "SPACE"
    out = []
    for row in spec.rows:
        if d == "COMMA":
            out.append(lhs + ",".join(row))
        elif d == "TAB":
            out.append(getattr(spec, "tab_sep", "\t").join(row))
        else:
            out.append(lhs + sep.join(row))
    return out


def num_token(rng, kind=None):
    kind = kind or rng.choice(["int", "fixed", "exp", "neg", "dotlead", "dottrail", "plus"])
    if kind == "int":
        return str(rng.randint(0, 5000))
    if kind == "fixed":
        return "%.*f" % (rng.randint(1, 4), rng.uniform(-2000, 2000))
    if kind == "exp":
        return "%.*e" % (rng.randint(0, 3), rng.uniform(-1, 1) * 10 ** rng.randint(-8, 8))
    if kind == "neg":
        return "-%d.%d" % (rng.randint(0, 99), rng.randint(0, 99))
    if kind == "dotlead":
        return ".%d" % rng.randint(0, 999)
    if kind == "dottrail":
        return "%d." % rng.randint(0, 999)
    return "+%d.5E+%d" % (rng.randint(1, 9), rng.randint(0, 3))


def basic_spec(rng, ncurves=None, nrows=None, version=None):
    s = Spec()
    s.version = version or rng.choice(["1.2", "2.0"])
    nc = ncurves if ncurves is not None else rng.randint(1, 6)
    nr = nrows if nrows is not None else rng.choice([1, 2, 3, 5])
    names = rng.sample(MN_POOL, nc) if nc <= len(MN_POOL) else [("C%d" % i) for i in range(nc)]
    s.curves = [(names[i], rng.choice(UNITS), "", rng.choice(DESCRS)) for i in range(nc)]
    s.well = [("STRT", "M", "1.0", "START"), ("STOP", "M", "2.0", "STOP"), ("STEP", "M", "0.5", "STEP")]
    if rng.random() < 0.6:
        s.well.append(("COMP", "", rng.choice(TEXTVALS), "COMPANY"))
    if rng.random() < 0.5:
        s.well.append(("UWI", "", rng.choice(["100091604920W300", "007"]), "UNIQUE WELL ID"))
    s.params = [(rng.choice(["BHT", "MUD", "RM", "DFD"]) + str(i), rng.choice(UNITS), rng.choice(TEXTVALS), rng.choice(DESCRS))
                for i in range(rng.randint(0, 3))]
    s.other = [rng.choice(["Note one.", "second note: with colon", "   indented", "x.y : z"]) for _ in range(rng.randint(0, 2))]
    s.rows = [[num_token(rng) for _ in range(nc)] for _ in range(nr)]
    return s
