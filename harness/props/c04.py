"""C04 — header line grammar: parsing inverts formatting under any padding."""
import re

import lib

PROP = "C04"
MODEL_TARGETS = ["Model/HeaderLine.vo"]
THEOREMS = ["C04_patterns_current", "C04_parse_all", "C04_main_parse", "C04_curves_parse", "C04_missing_period", "C04_numeric_unit", "C04_digit_unit", "C04_no_double_dot_plain", "C04_param_time", "C04_param_parse", "C04_param_time_sweep", "C04_total_on_period_lines", "C04_name_no_period",
            "C04_selection_current", "C04_fields_current", "C04_fields_composition_current", "C04_read_header_line_current"]
ASSUMPTIONS = [
    "regex ASTs are CPython's own parse of the pattern strings in reader.py (translators/regexes.py), matcher semantics = PyLib/Regex.v (validated against re on every generated line)",
    "\\d is modelled as ASCII digits, \\s as str.isspace(); generated fields avoid non-ASCII digits",
]

SECTS = [("Version", "O"), ("Well", "O"), ("Curves", "C"), ("Parameter", "P"), ("~Zone Tops", "O"), (None, "O")]


def impl(line, sect):
    from lasio.reader import read_header_line
    try:
        d = read_header_line(line, section_name=sect)
    except Exception:
        return None
    return (d["name"], d["unit"], d["value"], d["descr"])


def canon(o):
    if o is None:
        return "NONE"
    return lib.FS.join(o)


RUN = """
Require Import Regex Regexes HeaderLine.
Open Scope N_scope.
Definition run (i : list N) : list N :=
  match fields i with
  | [k; line] =>
      match read_header_line line (str_eqb k [67]) (str_eqb k [80]) with
      | None => [78; 79; 78; 69]
      | Some h => h_name h ++ FS :: h_unit h ++ FS :: h_value h ++ FS :: h_descr h
      end
  | _ => []
  end.
"""

# ---- the conformance predicate, written from the property statement ---------------------
WS = " \t"


def eligible(line, i):
    """colon at index i can act as the ~Parameter separator (it is not a clock-time colon)"""
    nxt = line[i + 1:i + 3]
    if re.match(r"[0-5][0-9]|mm|MM", nxt):
        return False
    prv = line[max(0, i - 3):i]
    if len(prv) == 3 and re.match(r" (?:[0-2][0-3]|hh|HH)", prv):
        return False
    return True


def conformant(sect, m, u, v, d, p):
    ms = m.strip(WS)
    if ms == "" or "." in m or ":" in m or "\n" in m + u + v + d:
        return False
    if any(ch.isspace() for ch in u) or u.startswith(".") or u.endswith(".") or ".." in u:
        return False
    if u.isdigit() or re.fullmatch(r"[0-9]+", u or "x"):
        return False
    if re.match(r"[\[(].*[\])]$", u) and len(u) >= 2:
        pass  # brackets are stripped later by the section parser, not by read_header_line
    if v.strip(WS) != "" and p[2] == "":
        return False
    # the text between mnemonic and '.' is padding; a value must not start where a unit would
    if u == "" and v.strip(WS) != "" and p[2] == "":
        return False
    if v != v.strip(WS) or d != d.strip(WS) or m != ms:
        return False           # fields are given stripped; padding is separate
    line = p[0] + m + p[1] + "." + u + p[2] + v + p[3] + ":" + p[4] + d + p[5]
    sep = len(p[0] + m + p[1] + "." + u + p[2] + v + p[3])
    if sect == "Curves":
        if ".." in line:
            return False
    if sect == "Parameter":
        vs = len(p[0] + m + p[1] + "." + u + p[2])
        for i in range(vs, sep):
            if line[i] == ":" and eligible(line, i):
                return False
        if ":" in d:
            # the statement: a description with colons needs the separator set off by a blank on both sides
            return line[sep - 1:sep] == " " and line[sep + 1:sep + 2] == " "
        if eligible(line, sep):
            return True
        # separator looks like a clock colon: then no colon of the line may be eligible, d has no colon
        if ":" in d:
            return False
        return not any(line[i] == ":" and eligible(line, i) for i in range(len(line)))
    # other sections: the last colon separates
    return ":" not in d


EXPECT_NOPERIOD = {}
# ~Curves lines whose mnemonic ends in an abbreviation period written directly before the dot delimiter ("Cond..MS/M",
# "I. Res..OHM-M": the documented form of lasio issue 264, used by the example files): line -> expected fields
EXPECT_DD = {}


def layout(m, u, v, d, p):
    return p[0] + m + p[1] + "." + u + p[2] + v + p[3] + ":" + p[4] + d + p[5]


MN = ["DEPT", "A B", "X1", "GR_1", "a", "A-B", "RHOB  2", "\u0413\u041b", "\u00c5NG", "N#1", "Q(1)", "'q'"]
UN = ["", "M", "US/M", "hh:mm", "G/CM3", "K.M", "%", "1000lbf", "m.s", "ft:in", "\u00b5s/ft", "[M]", "(ohm.m)", "M3", "\u043c",
      "a.b.c", "DD/MM:YY", "1.5", "0.25", "3.14.15", "10.5m", "1/2"]
VA = ["", "12.5", "hello world", "A9-16-49-20W3M", "x (y) [z]", "-999.25", "\"quoted\"", "it's", "a:b", "1:2:3", "C:\\dir",
      "100 2000", "\u00e9t\u00e9 2001", "15_9", "3.", ".5", "a.b", "e.g. this", "ANY OIL CO.", "1000 lbf"]
DE = ["", "DEPTH", "1  DEPTH", "Time Logger", "x (y)", "ends.", "\"q\"", "a: b", "At: Bottom : deep", "12:30 run", "\u0433\u043b\u0443\u0431\u0438\u043d\u0430",
      "{F}", "1 2 3", "v.2"]
PADS = ["", " ", "     ", "\t", " \t  "]


DD_MN = ["Cond.", "I. Res.", "Temp.", "Abs. Por.", "R.", "\u0413\u043b.", "N. Por. (ls)."]
DD_UN = ["MS/M", "OHM-M", "", "m.s", "DEGF", "%", "\u00b5s/ft", "ft:in"]
DD_VA = ["", "", "12.5", "7", "3.", "e.g. this", "hello world", "-999.25"]
# descriptions: ordinary ones and ones that THEMSELVES hold two consecutive periods (ellipsis at the end, in the middle,
# an abbreviation closing a sentence, nothing but periods)
DD_DE = ["Cond.", "I. Res.", "plain", "", "Conductivity (induction, deep)...", "Conductivity (deep)...", "Res. (see Sect. 3..)",
         "Ind. Res. of unit no..", "Temp. .. recorded at surface", "no..", "..", "...", "a..b", "..x", "see a..b and c...",
         "1  DEPTH ..", "etc. etc..", "x . . y.."]


def gen_dd(rng, n):
    """~Curves lines `<pad>Abbr..UNIT<pad>VALUE<pad>:<pad>DESCR<pad>`: the mnemonic is "Abbr." (its period included), set
    directly against the dot delimiter; unit and value hold no "..", the description may.  -> [(line, expected)]"""
    out = []
    for k in range(n):
        m, u, v, d = rng.choice(DD_MN), rng.choice(DD_UN), rng.choice(DD_VA), rng.choice(DD_DE)
        if k < len(DD_DE) * 2:
            d = DD_DE[k % len(DD_DE)]          # every description at least twice (with / without value)
            v = "" if k < len(DD_DE) else rng.choice(DD_VA[2:])
            m, u = (("Cond.", "MS/M"), ("I. Res.", "OHM-M"))[k % 2]      # the two documented shapes first
        p = [rng.choice(PADS) for _ in range(6)]
        if v and p[2] == "":
            p[2] = rng.choice(PADS[1:])
        line = p[0] + m + "." + u + p[2] + v + p[3] + ":" + p[4] + d + p[5]
        out.append((line, (m, u, v, d)))
    return out


def time_values():
    out = []
    for h in range(24):
        for mi in (0, 7, 15, 59):
            t = "%02d:%02d" % (h, mi)
            out += [t, t + ":%02d" % ((h * 7 + mi) % 60), t + " 23-JAN-2001", "23-JAN-2001 " + t, "%d:%02d" % (h, mi)]
    out += ["hh:mm", "HH:MM", "hh:mm:ss", "at 23:15", "t=23:15"]
    return out


def gen(ctx):
    rng = ctx.rng
    n = 60000 if ctx.thorough else 6000
    tv = time_values()
    cases = []
    for k in range(n):
        sect, code = rng.choice(SECTS)
        m, u, d = rng.choice(MN), rng.choice(UN), rng.choice(DE)
        if rng.random() < 0.25:
            v = rng.choice(tv)
        else:
            v = rng.choice(VA)
        if rng.random() < 0.2:
            # random printable field content
            alpha = "ABab019 -_/()[]'\"%#+*&=,;<>!?"
            v = "".join(rng.choice(alpha) for _ in range(rng.randint(0, 12))).strip(WS)
        if rng.random() < 0.1:
            d = "".join(rng.choice("ABab019 -_/()[]'\"%#+*&=,;:.") for _ in range(rng.randint(0, 14))).strip(WS)
        p = [rng.choice(PADS) for _ in range(6)]
        if rng.random() < 0.85 and p[2] == "" and v:
            p[2] = rng.choice(PADS[1:])
        if sect == "Parameter" and ":" in d and rng.random() < 0.9:
            if p[3] == "" or p[3][-1] != " ":
                p[3] = p[3] + " "
            if p[4] == "" or p[4][0] != " ":
                p[4] = " " + p[4]
        cases.append((sect, code, (m, u, v, d), tuple(p)))
    # documented special forms
    specials = [
        ("Parameter", "P", "TIML.hh:mm 23:15 23-JAN-2001:   Time Logger: At Bottom"),
        ("Well", "O", "HKLA            .1000 lbf                                  :(RT)"),
        ("Well", "O", "NAME : VALUE"), ("Version", "O", "VERS   :  2.0"), ("Well", "O", "  WELL:  my well  "),
        ("Curves", "C", "DEPT.M                       : 1  DEPTH"),
        ("Parameter", "P", "TIML.hh:mm 23:15 23-JAN-2001 :   Time Logger At Bottom"),
        ("Well", "O", "DATE.   01/02/2003 12:30 : Log date"), ("Well", "O", "STRT.M        1670.0000                :START DEPTH"),
        ("Well", "O", "UWI .      100091604920W300                   :UNIQUE WELL ID"),
        ("Well", "O", "COMP .     ANY OIL COMPANY INC.              :COMPANY"),
    ]
    # "a line without a period is NAME : VALUE": the FIRST colon separates, whatever follows (colons, clock times and
    # periods included), in every section kind
    names = ["NAME", "REMARK", "A B", "X1", "WELL", "\u0413\u041b", "K-1"]
    values = ["VALUE", "Run 1: ok", "a:b:c", "14:00:32", "2.0", "x.y : z", "", "1: 2.5 :3", "see p.4: note", "07:30 to 09:45", "::", "v"]
    for k in range(n // 10):
        sect, code = rng.choice(SECTS)
        nm, v = rng.choice(names), rng.choice(values)
        pa, pb, pc, pd = (rng.choice(PADS) for _ in range(4))
        line = pa + nm + pb + ":" + pc + v + pd
        if "." in nm or ":" in nm:
            continue
        specials.append((sect, code, line))
        EXPECT_NOPERIOD[line] = (nm.strip(), "", v.strip(), "")
    for line, exp in gen_dd(rng, n // 15):
        specials.append(("Curves", "C", line))
        EXPECT_DD[line] = exp
    return cases, specials


def classes(sect, f, p):
    m, u, v, d = f
    def cls(s):
        if s == "":
            return "empty"
        if ":" in s:
            return "colon"
        if any(ord(c) > 127 for c in s):
            return "nonascii"
        if " " in s:
            return "blank"
        return "plain"
    def pc(s):
        return {"": "none", " ": "1", "\t": "tab"}.get(s, "many")
    return (sect, cls(m), cls(u), cls(v), cls(d), tuple(pc(x) for x in p))


def run(ctx):
    res = lib.Result()
    cases, specials = gen(ctx)
    coq_cases = []
    keep = []
    seen = set()
    nontriv = set()
    hist = {"conformant": 0, "nonconformant": 0, "special": 0, "time_values": 0}
    meta = []
    for sect, code, f, p in cases:
        line = layout(*f, p)
        key = (sect, line)
        if key in seen:
            continue
        seen.add(key)
        got = impl(line.strip(), sect) if False else impl(line, sect)
        conf = conformant(sect, *f, p)
        if conf:
            hist["conformant"] += 1
            if re.search(r"\d:\d\d", f[2]):
                hist["time_values"] += 1
            nontriv.add(classes(sect, f, p))
            exp = (f[0].strip(), f[1], f[2].strip(), f[3].strip())
            if got != exp:
                res.oracle_violations.append({"payload": {"sect": sect, "fields": list(f), "pads": list(p)},
                                              "what": "read_header_line(%r, %r) -> %r, expected %r" % (line, sect, got, exp)})
        else:
            hist["nonconformant"] += 1
        coq_cases.append((lib.fields(code, line), canon(got)))
        meta.append((sect, line, conf))
    expected_special = {
        specials[0][2]: ("TIML", "hh:mm", "23:15 23-JAN-2001", "Time Logger: At Bottom"),
        specials[1][2]: ("HKLA", "1000 lbf", "", "(RT)"),
        specials[2][2]: ("NAME", "", "VALUE", ""),
    }
    for sect, code, line in specials:
        got = impl(line, sect)
        hist["special"] += 1
        if line in EXPECT_NOPERIOD and got != EXPECT_NOPERIOD[line]:
            res.oracle_violations.append({"payload": {"sect": sect, "line": line, "expect": list(EXPECT_NOPERIOD[line])},
                                          "what": "line without a period %r in %r -> %r, expected %r" % (line, sect, got, EXPECT_NOPERIOD[line])})
        if sect == "Curves" and line in EXPECT_DD:
            hist["curves_abbrev_mnemonic"] = hist.get("curves_abbrev_mnemonic", 0) + 1
            if ".." in EXPECT_DD[line][3]:
                hist["curves_abbrev_mnemonic_dd_descr"] = hist.get("curves_abbrev_mnemonic_dd_descr", 0) + 1
            if got != EXPECT_DD[line]:
                res.oracle_violations.append({"payload": {"sect": sect, "line": line, "expect": list(EXPECT_DD[line])},
                                              "what": "~Curves line with an abbreviated mnemonic next to the dot delimiter %r -> %r, expected %r"
                                                      % (line, got, EXPECT_DD[line])})
        if line in expected_special and got != expected_special[line]:
            res.oracle_violations.append({"payload": {"sect": sect, "line": line, "expect": list(expected_special[line])},
                                          "what": "documented form %r -> %r" % (line, got)})
        coq_cases.append((lib.fields(code, line), canon(got)))
        meta.append((sect, line, True))
    if ctx.build.model_ok:
        mism, err = lib.run_coq_cases("c04", [], RUN, coq_cases, shard=500)
        res.corr_error = err
        ood = 0
        for i in mism:
            sect, line, conf = meta[i]
            # the model is the translated regexes run by the Coq matcher: it must agree with read_header_line on EVERY line
            # (C04_total_on_period_lines / C04_name_no_period are universal), conformant or not
            res.mismatches.append({"sect": sect, "line": line, "impl": impl(line, sect), "conformant": conf})
            if not conf:
                ood += 1
        res.extra["nonconformant_model_impl_differences"] = ood
    else:
        res.corr_error = "model not built"
    res.cases = len(coq_cases)
    res.distinct_nontrivial = len(nontriv)
    res.rule = ("lines MNEM.UNIT VALUE : DESCR laid out from field pools (letters, digits, punctuation, quotes, brackets, "
                "non-ASCII letters, units with interior dots/colons, clock times for all 24 hours) with six paddings drawn from "
                "{none, 1 blank, many, tab, mixed} in six section kinds; non-trivial = distinct (section, field classes, padding "
                "classes) tuples among the conformant lines; plus NAME : VALUE lines without a period, and ~Curves lines whose mnemonic ends "
                "in an abbreviation period next to the dot delimiter (Cond..MS/M) with descriptions that do / do not hold '..' themselves")
    res.samples = [m[1] for m in meta[:4]] + [m[1] for m in meta[-3:]]
    res.histogram = hist
    return res


def replay(payload):
    if "line" in payload:
        got = impl(payload["line"], payload["sect"])
        exp = tuple(payload["expect"])
        return got != exp, "documented form %r -> %r (expected %r)" % (payload["line"], got, exp)
    f, p, sect = payload["fields"], payload["pads"], payload["sect"]
    line = layout(*f, p)
    got = impl(line, sect)
    exp = (f[0].strip(), f[1], f[2].strip(), f[3].strip())
    return got != exp, "read_header_line(%r, %r) -> %r, expected %r" % (line, sect, got, exp)


def search(ctx, res):
    class C2:
        pass
    import random
    for s in range(20):
        c = C2()
        c.rng = random.Random(ctx.seed + 1000 + s)
        c.thorough = True
        cases, _ = gen(c)
        for line, exp in gen_dd(c.rng, 400):
            got = impl(line, "Curves")
            if got != exp:
                yield {"payload": {"sect": "Curves", "line": line, "expect": list(exp)},
                       "what": "~Curves line with an abbreviated mnemonic next to the dot delimiter %r -> %r, expected %r" % (line, got, exp)}
                return
        for sect, code, f, p in cases:
            if conformant(sect, *f, p):
                line = layout(*f, p)
                got = impl(line, sect)
                exp = (f[0].strip(), f[1], f[2].strip(), f[3].strip())
                if got != exp:
                    yield {"payload": {"sect": sect, "fields": list(f), "pads": list(p)},
                           "what": "read_header_line(%r, %r) -> %r, expected %r" % (line, sect, got, exp)}
                    return
