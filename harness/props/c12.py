"""C12 — writer options change presentation only, never content (1.2 <-> 2.0 included)."""
import io
import re

import lib
import corpus_files
import lasgen
import readmodel as rm
import writemodel as wm
from props import c11

PROP = "C12"
MODEL_TARGETS = ["Corr/WriteShow.vo", "Proofs/FileRoundTripCheck.vo"]
THEOREMS = ["C12_table_checks", "C12_order_tables_agree", "C12_order_case_insensitive", "C12_upper_facts", "C12_order_symmetric", "C12_reader_order_is_build_item", "C12_write_factors", "C12_header_independent_of_data_options", "C12_header_text_independent", "C12_state_independent_of_presentation", "C12_written_lines", "C12_version_swap_meaning", "C12_swap_on_disk", "C12_same_content_options_unfold", "C12_same_formats_unfold", "C12_wrap_rel_unfold", "C12_read_wrap_rel_unfold", "C12_same_but_version_unfold", "C12_file_presentation_independent", "C12_file_wrap_independent", "C12_file_options_independent", "C12_written_state_but_version"]
ASSUMPTIONS = [
    "two numeric formats of equal precision print the same digits (oracle); only formats of equal precision are paired: per column the two "
    "configurations use the same conversion and precision (%.3f with %9.3f / %-9.3f / %+.3f / %09.3f, fmt with an equal column_fmt entry)",
    "the reader side of the equality is proved for the whole file on the domain file_hypsb of the file round trip (C12_file_*) for pairs "
    "that use the same format string per column; the domain is evaluated by the model on every such pair (histogram) and lasio must agree "
    "there; outside that domain, and for equal precision spelled differently, it rests on the oracle and the correspondence",
    "spacers made of blanks/tabs are the domain of the writer model and of file_hypsb; configurations with another spacer (',', ';', '') go "
    "through the implementation-side oracle only (known finding nonblank-spacer)",
    "an input on which write() raises with BOTH configurations has no outputs to compare; the bases are built/filtered so that this never "
    "happens: if it does the run reports that the correspondence could not be evaluated",
]

# the domain of the whole-file theorems (C12_file_presentation_independent / _wrap_ / _options_independent) evaluated by the model on a
# case R<ropts> W<wopts> ...: "D" when file_hypsb holds for the written form of the object read (and data are not ignored)
RUN_DOMAIN = """
Require Import Regex NumLit Num HeaderLine Tables SectionParse Sections DataRead Read TextWrap Writer ReadShow WriteShow WriteOptionsProofs WriteDataTextProofs FileRoundTripCheck.
Open Scope list_scope.
Open Scope N_scope.
Definition run (i : list N) : list N :=
  match fields i with
  | ops :: text :: rest =>
      let (t, ft) := split_at_mark rest [] in
      match split_char OPS ops with
      | (82 :: rcode) :: (87 :: wcode) :: _ =>
          let (ro, _) := opt_of rcode in
          let o := wopts_of wcode in
          let fz k := match tab_hex t k with Some h => hex_is_zero h | None => false end in
          let hx k := match tab_hex t k with Some h => h | None => [63] end in
          let fmtv := ftab_get ft in
          let fmt_diff := fun f b a => ftab_get ft f (diff_key (hx b) (hx a)) in
          let fmt_pi := fun f => ftab_get ft f PI_KEY in
          let fstr := tab_str t in
          let numeq := tab_numeq t in
          let fhex := tab_hex t in
          match read fhex fstr numeq ro text with
          | ROk l0 =>
              match write_sections fmtv fmt_diff fstr fz numeq (wo_version o) (wo_wrap o) (col_fmt o 0%nat)
                      (mkmlas l0 (index_initial_of l0)) with
              | Some hs =>
                  match las_null_text fstr (hs_las hs) with
                  | Some nt => if file_hypsb fmtv fmt_pi fstr fhex ro o hs nt && negb (o_ignore_data ro) then [68] else [111]
                  | None => [111]
                  end
              | None => [111]
              end
          | RErr _ => [111]
          end
      | _ => [111]
      end
  | _ => [111]
  end.
"""

# A4: spacers that are not a non-empty run of blanks/tabs.  lasio writes them verbatim between the fields and declares no DLM: the
# file reads back with other content (known finding nonblank-spacer); every oracle message of this class starts with the tag.
NONBLANK_SPACERS = True
NONBLANK_TAG = "NONBLANK-SPACER:"
BLANK_SPACER_POOL = [" ", "  ", "\t"]
NONBLANK_SPACER_POOL = [",", ";", ""]
MIN_CORPUS = 50         # example files expected to pass corpus_files.corpus() (71 on the unchanged tree)
MIN_NULL_TWICE_PAIRS = 10   # pairs 1.2 layout / 2.0 layout on a base with a repeated NULL line (14 in the quick tier)


def is_blank_spacer(s):
    return s != "" and all(ch in " \t" for ch in s)


def has_nonblank(*cfgs):
    return any(not is_blank_spacer(c.get("spacer", " ")) for c in cfgs)


# ---- numeric formats of equal precision ------------------------------------------------------------------------------------
PRECISIONS = [".5f", ".3f", ".6e", ".1f", ".4g"]
SHAPES = ["%%%s", "%%9%s", "%%12%s", "%%-9%s", "%%+%s", "%%09%s"]


def variant(rng, p, plain=False):
    return (SHAPES[0] if plain else rng.choice(SHAPES)) % p


def format_pair(rng, ncols):
    """two (fmt, column_fmt) settings that give every column the same conversion and precision, spelled differently:
    other width/flags, fmt against an equal column_fmt entry, column_fmt for columns j > 0"""
    p = rng.choice(PRECISIONS)
    over = {}
    if ncols and rng.random() < 0.4:
        for j in rng.sample(range(ncols), min(ncols, rng.choice([1, 1, 2]))):
            over[j] = rng.choice(PRECISIONS)
    prec = lambda j: over.get(j, p)

    def one():
        mode = rng.choice(["plain", "variant", "variant", "entries", "inverse"])
        if mode == "plain":
            return "%" + p, {j: "%" + q for j, q in over.items()}, mode
        if mode == "variant":
            return variant(rng, p), {j: variant(rng, q) for j, q in over.items()}, mode
        if mode == "entries":
            # redundant column_fmt entries that repeat the precision of fmt
            cf = {j: variant(rng, q) for j, q in over.items()}
            for j in range(ncols):
                if j not in cf and rng.random() < 0.5:
                    cf[j] = variant(rng, p)
            return variant(rng, p), cf, mode
        # fmt of ANOTHER precision, never used: every column has its own entry
        other = rng.choice([q for q in PRECISIONS if q != p])
        return "%" + other, {j: variant(rng, prec(j)) for j in range(ncols)}, mode
    return one(), one()


def one_config(rng, fmtspec):
    fmt, cf, _ = fmtspec
    spacers = NONBLANK_SPACER_POOL if (NONBLANK_SPACERS and rng.random() < 0.06) else BLANK_SPACER_POOL
    c = dict(version=rng.choice([1.2, 2]), wrap=rng.choice([True, False]), fmt=fmt,
             len_numeric_field=rng.choice([None, -1, 14, 20]), spacer=rng.choice(spacers),
             lhs_spacer=rng.choice([" ", "", "  "]), data_width=rng.choice([79, 40, 200, 25]),
             header_width=rng.choice([60, 20, 90]), data_section_header=rng.choice(["~ASCII", "~A", "~Ascii data"]),
             mnemonics_header=rng.choice([False, False, True]))
    if cf:
        c["column_fmt"] = dict(cf)
    return c


def ncurves_of(text, rkw):
    import lasio
    try:
        return len(lasio.read(text, **rkw).curves)
    except Exception:
        return 0


def configs(rng, text="", rkw=None, kind=""):
    """a pair of writer configurations of equal precision; `kind` directs some pairs at a class of inputs"""
    f1, f2 = format_pair(rng, ncurves_of(text, rkw or {}))
    c1, c2 = one_config(rng, f1), one_config(rng, f2)
    if kind == "wide" and rng.random() < 0.75:
        # 1.2 against 2.0, one line per depth step in both: rows longer than 255 characters
        c1["version"], c2["version"] = rng.choice([(1.2, 2), (2, 1.2)])
        c1["wrap"] = c2["wrap"] = False
        if rng.random() < 0.7:
            # the default layout: 11 characters per field, 7 fields in 79 columns, 28/35/42 = 4/5/6 x 7
            f = rng.choice(["%.5f", "%.3f", "%.1f"])
            for c in (c1, c2):
                c["fmt"] = f
                c.pop("column_fmt", None)
                c["len_numeric_field"] = None
                c["spacer"] = " "
                c["data_width"] = 79
    if kind == "overflow" and rng.random() < 0.75:
        # wrap on against wrap off with samples one or two characters wider than their field
        c1["wrap"], c2["wrap"] = rng.choice([(True, False), (False, True)])
        w = rng.choice([79, 40, 25])
        for c in (c1, c2):
            c["fmt"] = "%.5f"
            c.pop("column_fmt", None)
            c["len_numeric_field"] = None
            c["data_width"] = w
            if not is_blank_spacer(c["spacer"]):
                c["spacer"] = " "
    if kind == "dup":
        # a base that repeats a mnemonic inside a section (c11.dup_base: NULL two or three times in ~Well, COMP/UWI/WELL twice, a
        # ~Parameter mnemonic repeated): always the 1.2 layout (version=1.2, or version=None on a base that says VERS 1.2) against
        # the 2.0 layout; the value:descr / descr:value layout of a 1.2 ~Well line goes by the mnemonic as written (seeded C12_4)
        v12 = None if (c11.says_12(text) and rng.random() < 0.3) else 1.2
        c1["version"], c2["version"] = rng.choice([(v12, 2), (2, v12)])
        if rng.random() < 0.5:
            # the same format string per column: the pair is inside same_formats, the whole-file theorems speak about it
            c2["fmt"] = c1["fmt"]
            c2.pop("column_fmt", None)
            if c1.get("column_fmt"):
                c2["column_fmt"] = dict(c1["column_fmt"])
        for c in (c1, c2):
            if not is_blank_spacer(c["spacer"]):
                c["spacer"] = " "
    return c1, c2


def strip_vers_wrap(canon):
    """drop the VERS and WRAP items of the ~Version record from a canonical dump"""
    parts = canon.split(rm.RS)
    if len(parts) > 1:
        items = [it for it in parts[1].split(rm.IS) if it]
        keep = [it for it in items if it.split(rm.FS)[1].upper() not in ("VERS", "WRAP")]
        parts[1] = "".join(it + rm.IS for it in keep)
    return rm.RS.join(parts)


def written(text, wkw, rkw):
    import lasio
    las = lasio.read(text, **rkw)
    buf = io.StringIO()
    las.write(buf, **wkw)
    return buf.getvalue()


def oracle(text, c1, c2, rkw, rkw2=None):
    """-> (violation text | None, "ok" | "not accepted ...").  Every pair whose input is readable and writable with at least one of
    the two configurations is judged: both outputs must be readable, of the same shape, and of equal content.  rkw: options of the
    read that builds the object; rkw2 (default rkw): options of the two re-reads."""
    import lasio
    import numpy as np
    rkw2 = rkw if rkw2 is None else rkw2
    tag = (NONBLANK_TAG + " ") if has_nonblank(c1, c2) else ""
    try:
        lasio.read(text, **rkw)
    except Exception as e:
        return None, "not accepted (input unreadable: %s)" % type(e).__name__
    texts, werr = [], []
    for cfg in (c1, c2):
        try:
            texts.append(written(text, cfg, rkw))
            werr.append(None)
        except Exception as e:
            texts.append(None)
            werr.append("%s: %s" % (type(e).__name__, str(e)[-100:]))
    if werr[0] and werr[1]:
        return None, "not accepted (write raises with both configurations: %s / %s)" % (werr[0], werr[1])
    for k in (0, 1):
        if werr[k]:
            return tag + "write with %r raises %s although the same object is written with %r" % ((c1, c2)[k], werr[k], (c2, c1)[k]), "ok"
    # lasio's own output must be readable, whatever the configuration
    outs, shapes, rerr = [], [], []
    for t in texts:
        try:
            las = lasio.read(t, **rkw2)
            outs.append(rm.show_las(las))
            shapes.append([tuple(np.shape(c.data)) for c in las.curves])
            rerr.append(None)
        except Exception as e:
            outs.append(None)
            shapes.append(None)
            rerr.append("%s: %s" % (type(e).__name__, str(e)[-100:]))
    for k in (0, 1):
        if rerr[k]:
            other = "the other output is readable" if not rerr[1 - k] else "the other output is unreadable too"
            return tag + "the file written with %r cannot be read back: %s (%s)" % ((c1, c2)[k], rerr[k], other), "ok"
    if shapes[0] != shapes[1]:
        return tag + ("the two outputs read back with different shapes: %d curves %r... with %r, %d curves %r... with %r"
                      % (len(shapes[0]), shapes[0][:2], c1, len(shapes[1]), shapes[1][:2], c2)), "ok"
    a, b = strip_vers_wrap(outs[0]), strip_vers_wrap(outs[1])
    if a != b:
        j = next((p for p in range(min(len(a), len(b))) if a[p] != b[p]), 0)
        return tag + "contents differ near %r vs %r" % (a[max(0, j - 70):j + 70], b[max(0, j - 70):j + 70]), "ok"
    return None, "ok"


# ---- bases -----------------------------------------------------------------------------------------------------------------
def mixed_case_base(rng):
    """a 1.2/2.0 base whose ~Well uses mixed-case spellings of the special mnemonics and ordinary items"""
    s = lasgen.basic_spec(rng)
    s.well = [("STRT", "M", "1.0", "START"), ("STOP", "M", "2.0", "STOP"), ("STEP", "M", "0.5", "STEP"),
              ("COMP", "", "ACME OIL", "COMPANY"), ("Fld", "", "North", "FIELD NAME"), ("Srvc", "M", "", "svc")]
    s.null = "-999.25"
    if rng.random() < 0.5:
        # the special mnemonic itself in mixed case (value/description order of 1.2 lines must not depend on it)
        s.null = None
        s.well.append((rng.choice(["Null", "null", "NuLL"]), "", "-999.25", "NULL VALUE"))
        for row in s.rows:
            for j in range(len(row)):
                if row[j] == "-999.25":
                    row[j] = "5"
    return lasgen.render(s)[0]


def wide_base(rng, k):
    """28/35/42 curves: a data row is longer than 255 characters at every field width (the LAS 1.2 line limit)"""
    nc = [28, 35, 42][k % 3]
    s = lasgen.basic_spec(rng, ncurves=nc, nrows=rng.choice([2, 3]), version=["1.2", "2.0"][(k // 3) % 2])
    tok = lambda: rng.choice([str(rng.randint(0, 999)), "%.2f" % rng.uniform(-99, 999), ".%d" % rng.randint(0, 99), "-%d.5" % rng.randint(0, 99)])
    s.rows = [["%.1f" % (100 + 0.5 * i)] + [tok() for _ in range(nc - 1)] for i in range(len(s.rows))]
    s.well[0] = ("STRT", "M", s.rows[0][0], "START")
    s.well[1] = ("STOP", "M", s.rows[-1][0], "STOP")
    s.params = s.params[:1]
    s.wrap = "NO"
    return lasgen.render(s)[0]


WIDE_TOKENS = ["-1234.56789", "-4321.98765", "12345.12345", "-12345.6789", "98765.43211"]


def overflow_base(rng):
    """rows of equal length whose over-wide samples (11-12 characters under %.5f in a 10-character field) sit in different columns, hence
    in different physical lines once the row is wrapped"""
    nc = rng.choice([3, 4, 7, 8, 9, 10])
    nr = rng.choice([4, 5, 6])
    s = lasgen.basic_spec(rng, ncurves=nc, nrows=nr, version=rng.choice(["1.2", "2.0"]))
    rows = []
    for i in range(nr):
        rows.append(["%.1f" % (100 + 0.5 * i)] + ["%d.%05d" % (rng.randint(1, 9), rng.randint(0, 99999)) for _ in range(nc - 1)])
    wide_w = rng.choice(WIDE_TOKENS)
    cols = list(range(1, nc))
    rng.shuffle(cols)
    for i in range(1, nr):
        if rng.random() < 0.75:
            j = cols[i % len(cols)]
            rows[i][j] = wide_w if rng.random() < 0.8 else rng.choice(WIDE_TOKENS)
    s.rows = rows
    s.well[0] = ("STRT", "M", rows[0][0], "START")
    s.well[1] = ("STOP", "M", rows[-1][0], "STOP")
    s.wrap = "NO"
    return lasgen.render(s)[0]


def make_bases(rng, n_gen, n_mixed, n_wide, n_over):
    bases = [("corpus:" + n, t) for n, t in corpus_files.corpus()]
    for i in range(n_gen):
        bases.append(("gen:%d" % i, corpus_files.generated(rng)))
    for i in range(n_mixed):
        bases.append(("mixed:%d" % i, mixed_case_base(rng)))
    for i in range(n_wide):
        bases.append(("wide:%d" % i, wide_base(rng, i)))
    for i in range(n_over):
        bases.append(("overflow:%d" % i, overflow_base(rng)))
    return bases


def kind_of(name):
    return name.split(":")[0]


def writes_12(cfg, text):
    return cfg["version"] == 1.2 or (cfg["version"] is None and c11.says_12(text))


def run(ctx):
    res = lib.Result()
    rng = ctx.rng
    bases = make_bases(rng, *((80, 20, 12, 30) if ctx.thorough else (25, 6, 6, 10)))
    # the bases with a repeated mnemonic and the choices made for them draw from a generator of their own: the sample of the
    # other classes is the same with and without them
    import random
    drng = random.Random(ctx.seed + 1204)
    bases += c11.dup_bases(drng, 27 if ctx.thorough else 9)
    n_corpus = sum(1 for n, _ in bases if n.startswith("corpus:"))
    per = 5 if ctx.thorough else 1
    cases, meta, kinds = [], [], set()
    pairs = []            # (index of the first case of the pair, same format strings per column?, oracle violated?, name, payload)
    hist = {"version_differs": 0, "wrap_differs": 0, "not_accepted": 0, "preserve": 0, "format_strings_differ": 0, "column_fmt": 0,
            "nonblank_spacer": 0, "reread_options_differ": 0, "wide": 0, "wide_12_vs_20_nowrap": 0, "overflow": 0, "pairs": 0,
            "duplicated_mnemonic": 0, "null_twice_12_vs_20": 0, "version_none": 0}
    not_accepted = []
    for name, text in bases:
        dup = kind_of(name) == "dup"
        rng = drng if dup else ctx.rng
        for _ in range(per + 1 if dup else per):
            rkw = {"mnemonic_case": rng.choice(["upper", "upper", "preserve", "lower"])}
            c1, c2 = configs(rng, text, rkw, kind_of(name))
            # the re-reads may use other options than the read that built the object (first read preserve, re-read upper, ...)
            rkw2 = {"mnemonic_case": rng.choice(["upper", "preserve", "lower"])} if rng.random() < 0.25 else rkw
            bad, st = oracle(text, c1, c2, rkw, rkw2)
            if st != "ok":
                hist["not_accepted"] += 1
                not_accepted.append("%s: %s" % (name, st))
                continue
            hist["pairs"] += 1
            hist["reread_options_differ"] += rkw2 != rkw
            if bad:
                res.oracle_violations.append({"payload": {"text": text, "c1": c1, "c2": c2, "rkw": rkw, "rkw2": rkw2},
                                              "what": "%s: %s" % (name, bad)})
            nonblank = has_nonblank(c1, c2)
            if not nonblank and rkw2 == rkw:
                n = ncurves_of(text, rkw)
                colf = lambda c, j: (c.get("column_fmt") or {}).get(j, c["fmt"])
                pairs.append((len(cases), all(colf(c1, j) == colf(c2, j) for j in range(n)), bool(bad), name,
                              {"text": text, "c1": c1, "c2": c2, "rkw": rkw}))
            for cfg in (c1, c2):
                if not is_blank_spacer(cfg["spacer"]):
                    continue              # outside the writer model (ASSUMPTIONS): implementation-side oracle only
                ops = [("R", rkw), ("W", cfg), ("R", rkw2)]
                c, r = wm.coq_case(text, ops)
                cases.append(c)
                meta.append((name, text, ops))
            kinds.add((name, c1["version"], c2["version"], c1["wrap"], c2["wrap"], rkw["mnemonic_case"]))
            hist["version_differs"] += c1["version"] != c2["version"]
            hist["wrap_differs"] += c1["wrap"] != c2["wrap"]
            hist["preserve"] += rkw["mnemonic_case"] == "preserve"
            hist["format_strings_differ"] += (c1["fmt"], c1.get("column_fmt")) != (c2["fmt"], c2.get("column_fmt"))
            hist["column_fmt"] += bool(c1.get("column_fmt") or c2.get("column_fmt"))
            hist["nonblank_spacer"] += nonblank
            hist["wide"] += kind_of(name) == "wide"
            hist["wide_12_vs_20_nowrap"] += (kind_of(name) == "wide" and c1["version"] != c2["version"]
                                             and not c1["wrap"] and not c2["wrap"])
            hist["overflow"] += kind_of(name) == "overflow"
            hist["duplicated_mnemonic"] += dup
            hist["null_twice_12_vs_20"] += name.startswith("dup:null") and writes_12(c1, text) != writes_12(c2, text)
            hist["version_none"] += c1["version"] is None or c2["version"] is None
    if ctx.build.model_ok:
        mism, err = lib.run_coq_cases("c12", [], wm.RUN_PIPE, cases, shard=8)
        res.corr_error = err
        for i in mism:
            res.mismatches.append({"base": meta[i][0], "ops": repr(meta[i][2]), "text": meta[i][1]})
        # tie of the whole-file theorems to the code: where the model finds BOTH written forms of a pair in the domain file_hypsb and
        # the two configurations use the same format string per column (same_formats), the theorems say the two re-read contents are
        # equal apart from ~Version: lasio must agree
        # (evaluated for the pairs with the same format strings only: the others are outside same_formats whatever file_hypsb says)
        pairs = [p for p in pairs if p[1]]
        dom_idx = sorted({k for p in pairs for k in (p[0], p[0] + 1)})
        out_dom, err2 = lib.run_coq_cases("c12dom", [], RUN_DOMAIN, [(cases[k][0], "D") for k in dom_idx], shard=8)
        if err2:
            res.corr_error = ((res.corr_error + "; ") if res.corr_error else "") + "domain: " + err2
        else:
            outside = {dom_idx[j] for j in out_dom}
            in_dom = [p for p in pairs if p[0] not in outside and (p[0] + 1) not in outside]
            hist["pairs_with_same_format_strings"] = len(pairs)
            hist["pairs_in_theorem_domain"] = len(in_dom)
            for p in in_dom:
                if p[1] and p[2]:
                    res.mismatches.append({"base": p[3], "payload": p[4],
                                           "what": "in the domain of C12_file_options_independent but lasio's two re-read contents differ"})
    else:
        res.corr_error = "model not built"
    # a class of accepted inputs that turns into rejected ones must not shrink the sample silently
    if not_accepted or n_corpus < MIN_CORPUS or hist["null_twice_12_vs_20"] < MIN_NULL_TWICE_PAIRS:
        res.corr_error = ((res.corr_error + "; ") if res.corr_error else "") + \
            ("%d input(s) built as accepted were not accepted (%s); %d example files passed the corpus filter (expected >= %d); "
             "%d pairs 1.2 / 2.0 on a base with a repeated NULL line (expected >= %d)"
             % (len(not_accepted), "; ".join(not_accepted[:3]), n_corpus, MIN_CORPUS, hist["null_twice_12_vs_20"], MIN_NULL_TWICE_PAIRS))
    res.oracle_violations.sort(key=lambda v: NONBLANK_TAG in v["what"])      # violations outside the known class are reported first
    res.cases = len(cases)
    res.distinct_nontrivial = len(kinds)
    res.rule = ("accepted inputs (corpus, generated, mixed-case ~Well mnemonics, 28/35/42-curve files of both versions, rows with samples "
                "wider than their field, files of both versions that repeat a mnemonic inside a section: NULL two or three times in ~Well "
                "with equal / different values and spellings, COMP/UWI/WELL twice, a ~Parameter mnemonic repeated, each written in the 1.2 "
                "layout (version=1.2 or None) against 2.0) x pairs of writer configurations of equal precision per column (the same format string, other "
                "width/flags, fmt against equal column_fmt entries, column_fmt for j > 0) that differ in version, wrap, field width, "
                "spacers (blank, tab, and ',' ';' '' on the implementation side), data width, header width, data-section header style; "
                "both outputs must be readable, of one shape, and equal apart from VERS and WRAP; non-trivial = distinct (base, versions, "
                "wraps, case)")
    res.samples = [meta[0][0], repr(meta[0][2][1][1])] if meta else []
    res.histogram = hist
    return res


def fix_cfg(c):
    c = dict(c)
    if c.get("column_fmt"):
        c["column_fmt"] = {int(a): b for a, b in c["column_fmt"].items()}
    if "version" in c and c["version"] == 2.0:
        c["version"] = 2
    return c


def replay(payload):
    bad, st = oracle(payload["text"], fix_cfg(payload["c1"]), fix_cfg(payload["c2"]), payload["rkw"], payload.get("rkw2"))
    return bad is not None, bad or "ok"


def finding_of(payload):
    """nonblank-spacer: at least one of the two configurations has a spacer that is not a run of blanks/tabs, the pair fails, and the
    same pair with that spacer replaced by ' ' does not fail (anything else wrong on the payload is another violation)"""
    try:
        c1, c2 = fix_cfg(payload["c1"]), fix_cfg(payload["c2"])
        if not has_nonblank(c1, c2):
            return None
        bad, st = oracle(payload["text"], c1, c2, payload["rkw"], payload.get("rkw2"))
        if st != "ok" or not bad or not bad.startswith(NONBLANK_TAG):
            return None
        d1, d2 = dict(c1), dict(c2)
        for d in (d1, d2):
            if not is_blank_spacer(d.get("spacer", " ")):
                d["spacer"] = " "
        bad2, st2 = oracle(payload["text"], d1, d2, payload["rkw"], payload.get("rkw2"))
        if st2 == "ok" and bad2 is None:
            return "nonblank-spacer"
    except Exception:
        return None
    return None


def search(ctx, res):
    import random
    ctx_rng = rng = random.Random(ctx.seed + 51)
    bases = c11.dup_bases(random.Random(ctx.seed + 53), 45) + make_bases(rng, 200, 50, 12, 60)
    drng = random.Random(ctx.seed + 54)
    for _ in range(4):
        for name, text in bases:
            rng = drng if kind_of(name) == "dup" else ctx_rng
            rkw = {"mnemonic_case": rng.choice(["upper", "preserve", "lower"])}
            c1, c2 = configs(rng, text, rkw, kind_of(name))
            rkw2 = {"mnemonic_case": rng.choice(["upper", "preserve", "lower"])} if rng.random() < 0.25 else rkw
            bad, st = oracle(text, c1, c2, rkw, rkw2)
            if st == "ok" and bad:
                yield {"payload": {"text": text, "c1": c1, "c2": c2, "rkw": rkw, "rkw2": rkw2}, "what": "%s: %s" % (name, bad)}
