"""C12 — writer options change presentation only, never content (1.2 <-> 2.0 included)."""
import io
import re

import lib
import corpus_files
import lasgen
import readmodel as rm
import writemodel as wm

PROP = "C12"
MODEL_TARGETS = ["Corr/WriteShow.vo"]
THEOREMS = ["C12_table_checks", "C12_order_tables_agree", "C12_order_case_insensitive", "C12_upper_facts", "C12_order_symmetric", "C12_reader_order_is_build_item", "C12_write_factors", "C12_header_independent_of_data_options", "C12_header_text_independent", "C12_state_independent_of_presentation", "C12_written_lines", "C12_version_swap_meaning", "C12_swap_on_disk", "C12_same_content_options_unfold", "C12_same_formats_unfold", "C12_wrap_rel_unfold", "C12_read_wrap_rel_unfold", "C12_same_but_version_unfold", "C12_file_presentation_independent", "C12_file_wrap_independent", "C12_file_options_independent", "C12_written_state_but_version"]
ASSUMPTIONS = [
    "two numeric formats of equal precision print the same digits (oracle); only formats of equal precision are paired",
    "the reader side of the equality is proved for the whole file on the domain file_hypsb of the file round trip (C12_file_*); outside that domain it rests on the correspondence",
]

# pairs share the numeric format (equal precision); everything else varies
def configs(rng):
    fmt = rng.choice(["%.5f", "%.3f", "%.6e"])
    def one():
        return dict(version=rng.choice([1.2, 2]), wrap=rng.choice([True, False]), fmt=fmt,
                    len_numeric_field=rng.choice([None, -1, 14, 20]), spacer=rng.choice([" ", "  ", "\t"]),
                    lhs_spacer=rng.choice([" ", "", "  "]), data_width=rng.choice([79, 40, 200]),
                    header_width=rng.choice([60, 20, 90]), data_section_header=rng.choice(["~ASCII", "~A", "~Ascii data"]),
                    mnemonics_header=rng.choice([False, False, True]))
    return one(), one()


def strip_vers_wrap(canon):
    """drop the VERS and WRAP items of the ~Version record from a canonical dump"""
    parts = canon.split(rm.RS)
    if len(parts) > 1:
        items = [it for it in parts[1].split(rm.IS) if it]
        keep = [it for it in items if it.split(rm.FS)[1].upper() not in ("VERS", "WRAP")]
        parts[1] = "".join(it + rm.IS for it in keep)
    return rm.RS.join(parts)


def written(text, wkw, rkw):
    import lasio
    las = lasio.read(text, **rkw)
    buf = io.StringIO()
    las.write(buf, **wkw)
    return buf.getvalue()


def oracle(text, c1, c2, rkw):
    import lasio
    try:
        t1 = written(text, c1, rkw)
        t2 = written(text, c2, rkw)
    except Exception as e:
        return None, "not accepted (%s)" % type(e).__name__
    # lasio's own output must be readable, whatever the configuration
    outs = []
    for cfg, t in ((c1, t1), (c2, t2)):
        try:
            outs.append(rm.show_las(lasio.read(t, **rkw)))
        except Exception as e:
            return "the file written with %r cannot be read back: %s: %s" % (cfg, type(e).__name__, str(e)[-100:]), "ok"
    a, b = strip_vers_wrap(outs[0]), strip_vers_wrap(outs[1])
    if a != b:
        j = next((p for p in range(min(len(a), len(b))) if a[p] != b[p]), 0)
        return "contents differ near %r vs %r" % (a[max(0, j - 70):j + 70], b[max(0, j - 70):j + 70]), "ok"
    return None, "ok"


def mixed_case_base(rng):
    """a 1.2/2.0 base whose ~Well uses mixed-case spellings of the special mnemonics and ordinary items"""
    s = lasgen.basic_spec(rng)
    s.well = [("STRT", "M", "1.0", "START"), ("STOP", "M", "2.0", "STOP"), ("STEP", "M", "0.5", "STEP"),
              ("COMP", "", "ACME OIL", "COMPANY"), ("Fld", "", "North", "FIELD NAME"), ("Srvc", "M", "", "svc")]
    s.null = "-999.25"
    if rng.random() < 0.5:
        # the special mnemonic itself in mixed case (value/description order of 1.2 lines must not depend on it)
        s.null = None
        s.well.append((rng.choice(["Null", "null", "NuLL"]), "", "-999.25", "NULL VALUE"))
        for row in s.rows:
            for j in range(len(row)):
                if row[j] == "-999.25":
                    row[j] = "5"
    return lasgen.render(s)[0]


def run(ctx):
    res = lib.Result()
    rng = ctx.rng
    bases = [("corpus:" + n, t) for n, t in corpus_files.corpus()]
    for i in range(80 if ctx.thorough else 25):
        bases.append(("gen:%d" % i, corpus_files.generated(rng)))
    for i in range(20 if ctx.thorough else 6):
        bases.append(("mixed:%d" % i, mixed_case_base(rng)))
    per = 5 if ctx.thorough else 1
    cases, meta, kinds = [], [], set()
    hist = {"version_differs": 0, "wrap_differs": 0, "not_accepted": 0, "preserve": 0}
    for name, text in bases:
        for _ in range(per):
            c1, c2 = configs(rng)
            rkw = {"mnemonic_case": rng.choice(["upper", "upper", "preserve", "lower"])}
            bad, st = oracle(text, c1, c2, rkw)
            if st != "ok":
                hist["not_accepted"] += 1
                continue
            if bad:
                res.oracle_violations.append({"payload": {"text": text, "c1": c1, "c2": c2, "rkw": rkw}, "what": "%s: %s" % (name, bad)})
            for cfg in (c1, c2):
                ops = [("R", rkw), ("W", cfg), ("R", rkw)]
                c, r = wm.coq_case(text, ops)
                cases.append(c)
                meta.append((name, text, ops))
            kinds.add((name, c1["version"], c2["version"], c1["wrap"], c2["wrap"], rkw["mnemonic_case"]))
            hist["version_differs"] += c1["version"] != c2["version"]
            hist["wrap_differs"] += c1["wrap"] != c2["wrap"]
            hist["preserve"] += rkw["mnemonic_case"] == "preserve"
    if ctx.build.model_ok:
        mism, err = lib.run_coq_cases("c12", [], wm.RUN_PIPE, cases, shard=8)
        res.corr_error = err
        for i in mism:
            res.mismatches.append({"base": meta[i][0], "ops": repr(meta[i][2]), "text": meta[i][1]})
    else:
        res.corr_error = "model not built"
    res.cases = len(cases)
    res.distinct_nontrivial = len(kinds)
    res.rule = ("accepted inputs (corpus, generated, mixed-case ~Well mnemonics) x pairs of writer configurations that share the "
                "numeric format and differ in version, wrap, field width, spacers, data width, header width, data-section header "
                "style; contents compared apart from VERS and WRAP; non-trivial = distinct (base, versions, wraps, case)")
    res.samples = [meta[0][0], repr(meta[0][2][1][1])] if meta else []
    res.histogram = hist
    return res


def replay(payload):
    bad, st = oracle(payload["text"], payload["c1"], payload["c2"], payload["rkw"])
    return bad is not None, bad or "ok"


def search(ctx, res):
    import random
    rng = random.Random(ctx.seed + 51)
    bases = [("corpus:" + n, t) for n, t in corpus_files.corpus()] + [("gen", corpus_files.generated(rng)) for _ in range(200)] + \
        [("mixed", mixed_case_base(rng)) for _ in range(50)]
    for _ in range(4):
        for name, text in bases:
            c1, c2 = configs(rng)
            rkw = {"mnemonic_case": rng.choice(["upper", "preserve", "lower"])}
            bad, st = oracle(text, c1, c2, rkw)
            if st == "ok" and bad:
                yield {"payload": {"text": text, "c1": c1, "c2": c2, "rkw": rkw}, "what": "%s: %s" % (name, bad)}
                return
