"""C13 — duplicate and blank mnemonics: unique session names, originals preserved."""
import io
import re

import lib
from props import items_common as ic

PROP = "C13"
MODEL_TARGETS = ["Model/Items.vo", "Model/ItemsObs.vo"]
THEOREMS = ["C13_inv_init", "C13_inv_step_partial", "C13_reachable_partial", "C13_reachable_from_partial",
            "C13_I1_refuted", "C13_I1_refuted_transforms", "C13_replace_refuted_prefix", "C13_resolves",
            "C13_blank_unknown", "C13_numbering_insert", "C13_numbering_append", "C13_numbering_order",
            "C13_orig_frame_append", "C13_orig_frame_insert", "C13_orig_frame_delete", "C13_orig_frame_replace",
            "C13_orig_frame_value", "C13_orig_frame", "C13_read_names", "C13_roundtrip_names",
            "C13_useful_current", "C13_compare_current",
            "C13_assign_current", "C13_append_current", "C13_insert_current", "C13_set_item_current", "C13_numbering_replace", "C13_numbering_delete", "C13_numbering_assign_all", "C13_numbering_assign_all_canon", "C13_keys_closed_form_partial", "C13_closed_form_insert", "C13_closed_form_keys"]
ASSUMPTIONS = [
    "known finding suffix-clash: I1 is proved under no_suffix_clash (no mnemonic in play is the useful form of "
    "another followed by ':<k>'); without it the statement is refuted (C13_I1_refuted: A, A, A:1 -> A:1, A:2, A:1)",
    "hand model of las_items.py (Model/Items.v) tied by correspondence: exhaustive operation sequences run on the "
    "real SectionItems and on the model inside Coq; compared after EVERY step: result/exception class, all fields "
    "of all items (session + original mnemonics included), and where s[k] / getattr(s, k) resolve for every "
    "session name k (object identity observed as position)",
    "str.upper() modelled as ASCII upper-casing; generated mnemonics are ASCII",
    "value semantics: every inserted item is a fresh object (one object is never in two places); renaming an item "
    "that sits in a section (item.mnemonic = ...) is not among the statement's operations and is not re-suffixed by lasio",
    "file level (read with mnemonic_case preserve/upper/lower, write, re-read) is checked by the direct oracle on "
    "the implementation only; the file-level model belongs to C03/C05/C11. Mnemonics containing ':' cannot be "
    "written into a LAS header line and read back as a mnemonic (header grammar, C04), so literal 'A:1' names are "
    "exercised through the API only.  write() emits ~V ~W ~C ~P ~O ~A only: for a custom section (~Tops) the read-side "
    "clauses are checked, the write / re-read clauses have nothing to look at.  The first line of the written ~Version is "
    "the item VERS that write() builds anew for the version it writes (C16's subject): after read(mnemonic_case='lower') "
    "it is spelled VERS, not vers; that one mnemonic is compared ignoring case, every other ~Version item exactly",
    "finding_of replays the history: a violation counts as the known finding suffix-clash only when the FIRST failing "
    "clause is distinct / resolves / resolves_attr about two items that share a session name because one is literally "
    "named u:<k> and the other is a u with the generated suffix :<k> (items_common.clash_pairs: compared as the section "
    "compares names, 'A:01' is no generated suffix); the names occurring in the history decide nothing",
    "bulk comparison of observation texts goes through a three-sum digest computed on both sides; a sample of "
    "cases is compared as full text",
]

INSERTING = ("a", "i", "r", "s", "x", "g", "h")
C13_CODES = ("a", "i", "d", "e", "r", "s", "v", "w", "g", "h", "x", "y")      # the statement's operations


# ---- direct oracle (from the statement) -----------------------------------------------------------
def norm(tr, k):
    return k.upper() if tr else k


def useful(name):
    return "UNKNOWN" if name.strip() == "" else name


def state_violations(s):
    """clauses that speak about one state -> [(clause, text, (p, q) | None)]: p < q are the positions of the two
    items the failure is about (two items under one session name; the item a lookup should and does resolve to)"""
    tr = s.mnemonic_transforms
    lst = list(list.__iter__(s))
    out = []
    seen = {}

    def pos(obj):
        return next((p for p, x in enumerate(lst) if x is obj), None)

    def pair(p, q):
        return None if p is None or q is None or p == q else (min(p, q), max(p, q))
    for j, it in enumerate(lst):
        k = norm(tr, it.mnemonic)
        if k in seen:
            out.append(("distinct", "session mnemonic %r at positions %d and %d" % (it.mnemonic, seen[k], j), pair(seen[k], j)))
        else:
            seen[k] = j
    for j, it in enumerate(lst):
        k = it.mnemonic
        try:
            got = s[k]
            if got is not it:
                out.append(("resolves", "s[%r] is not the item at position %d" % (k, j), pair(pos(got), j)))
        except Exception as e:      # noqa: BLE001
            out.append(("resolves", "s[%r] raised %s" % (k, ic.exc(e)), None))
        if k not in dir(s):
            try:
                got = getattr(s, k)
                if got is not it:
                    out.append(("resolves_attr", "getattr(s, %r) is not the item at position %d" % (k, j), pair(pos(got), j)))
            except Exception as e:      # noqa: BLE001
                out.append(("resolves_attr", "getattr(s, %r) raised %s" % (k, ic.exc(e)), None))
        if it.original_mnemonic.strip() == "" and not re.match(r"^UNKNOWN(:[0-9]+)?$", it.mnemonic):
            out.append(("blank", "blank original shows as %r" % (it.mnemonic,), None))
    return out


EXPLAINED_CLAUSES = ("distinct", "resolves", "resolves_attr")


def explained_by_clash(s, v):
    """Is the violation v = (clause, text, pair) of state s one the known finding suffix-clash explains?  Only a
    failure of `pairwise distinct` / `resolves to exactly its own item` about two items that carry the same session
    name BECAUSE one of them is literally named  u:<k>  and the other is a u with the generated suffix :<k>
    (ic.clash_pairs).  A wrong number, a renamed unique item, a changed original, a duplicate name without such a
    literal are NOT explained, whatever names occur in the history."""
    return v[0] in EXPLAINED_CLAUSES and v[2] is not None and v[2] in ic.clash_pairs(s)


def step_violations(sim, op, result, before):
    """clauses that relate the state after an operation to the state before it"""
    s = sim.s
    tr = s.mnemonic_transforms
    out = []
    lst = list(list.__iter__(s))
    old = {id(t[0]): t for t in before}
    # originals never altered
    for it in lst:
        if id(it) in old and old[id(it)][1] != it.original_mnemonic:
            out.append(("orig", "original %r became %r" % (old[id(it)][1], it.original_mnemonic), None))
    new = [it for it in lst if id(it) not in old]
    c = op[0]
    if c in INSERTING and result.startswith("ok") and new:
        name = {"a": 1, "i": 2, "r": 2, "s": 2, "x": 2, "g": 1, "h": 1}[c]
        if len(new) > 1:
            out.append(("insert", "more than one new item", None))
        for it in new:
            if it.original_mnemonic != op[name]:
                out.append(("orig", "new item's original is %r, not %r" % (it.original_mnemonic, op[name]), None))
            u = norm(tr, useful(it.original_mnemonic))
            group = [x for x in lst if norm(tr, useful(x.original_mnemonic)) == u]
            if len(group) > 1:
                for r, x in enumerate(group):
                    exp = useful(x.original_mnemonic) + ":%d" % (r + 1)
                    if x.mnemonic != exp:
                        out.append(("numbering", "group of %r: member %d is %r, expected %r" % (u, r + 1, x.mnemonic, exp), None))
            else:
                if it.mnemonic != useful(it.original_mnemonic):
                    out.append(("untouched", "unique name %r shows as %r" % (it.original_mnemonic, it.mnemonic), None))
            for x in lst:
                if x not in group and id(x) in old and old[id(x)][2] != x.mnemonic:
                    out.append(("untouched", "item outside the group renamed %r -> %r" % (old[id(x)][2], x.mnemonic), None))
    else:
        for x in lst:
            if id(x) in old and old[id(x)][2] != x.mnemonic:
                out.append(("untouched", "session mnemonic changed by a non-inserting operation: %r -> %r" % (old[id(x)][2], x.mnemonic), None))
        if new:
            out.append(("insert", "a non-inserting operation added an item", None))
    return out


def check_seq(tr, curve, ops, initial=None):
    """run the sequence on the implementation, oracle after every step -> [(clause, text, explained by the known
    finding?)] (the first failing clause of the first failing step; the history is not judged beyond it)"""
    viol = []
    sim = ic.Sim(tr, curve)
    if initial is not None:
        sim.s = initial
    for o in ops:
        snap = ic.snapshot(sim.s)
        r = sim.apply(o)
        bad = step_violations(sim, o, r, snap) + state_violations(sim.s)
        if bad:
            name, text = bad[0][:2]
            viol.append((name, "after %s (transforms=%s, keys %s): %s" % (o, tr, [i.mnemonic for i in list.__iter__(sim.s)], text),
                         explained_by_clash(sim.s, bad[0])))
            break
    return viol


# ---- file level -------------------------------------------------------------------------------------
FILE_NAMES = ["A", "a", "B", "b", "", "AB", "Ab", "UNKNOWN"]


def expected_sessions(origs, tr):
    us = [norm(tr, useful(o)) for o in origs]
    out = []
    for j, o in enumerate(origs):
        n = us.count(us[j])
        out.append(useful(o) if n == 1 else "%s:%d" % (useful(o), us[:j + 1].count(us[j])))
    return out


def make_file(wn, cn, pn, vn=(), xn=None):
    """vn: further ~Version items after VERS and WRAP; xn: items of a custom section ~Tops (None: no such section)"""
    lines = ["~Version", "VERS. 2.0 : v", "WRAP. NO : w"]
    lines += ["%s.U%d  v%d : version item %d" % (n, j, j, j) for j, n in enumerate(vn)]
    lines += ["~Well", "STRT.M 1.0 : start", "STOP.M 2.0 : stop", "STEP.M 1.0 : step", "NULL. -999.25 : null"]
    lines += ["%s.U%d  w%d : well item %d" % (n, j, j, j) for j, n in enumerate(wn)]
    lines += ["~Curves", "DEPT.M : depth"]
    lines += ["%s.U%d  : curve %d" % (n, j, j) for j, n in enumerate(cn)]
    lines += ["~Parameter"]
    lines += ["%s.U%d  p%d : param %d" % (n, j, j, j) for j, n in enumerate(pn)]
    if xn is not None:
        lines += ["~Tops"] + ["%s.U%d  x%d : custom item %d" % (n, j, j, j) for j, n in enumerate(xn)]
    lines += ["~A"]
    for r in (1.0, 2.0):
        lines.append(" ".join(["%.1f" % r] + ["%d" % (10 * r + j) for j in range(len(cn))]))
    return "\n".join(lines) + "\n"


def written_mnemonics(text):
    """section title letter -> list of mnemonic columns in the written text"""
    out, cur = {}, None
    for line in text.splitlines():
        if line.startswith("~"):
            cur = line[1].upper()
            out.setdefault(cur, [])
        elif cur in ("V", "W", "C", "P") and line.strip() and not line.lstrip().startswith("#"):
            out[cur].append(line.split(".", 1)[0].strip())
    return out


def check_file(wn, cn, pn, mc, vn=(), xn=None):
    import lasio
    vn = list(vn)
    txt = make_file(wn, cn, pn, vn, xn)
    try:
        las = lasio.read(txt, mnemonic_case=mc)
    except Exception as e:      # noqa: BLE001
        return "read raised %s" % ic.exc(e)
    tr = mc != "preserve"
    cm = (lambda x: x.upper()) if mc == "upper" else (lambda x: x.lower()) if mc == "lower" else (lambda x: x)
    exp_o = {"Well": [cm(x) for x in ["STRT", "STOP", "STEP", "NULL"] + wn], "Curves": [cm(x) for x in ["DEPT"] + cn],
             "Parameter": [cm(x) for x in pn], "Version": [cm(x) for x in ["VERS", "WRAP"] + vn]}
    if xn is not None:
        exp_o["Tops"] = [cm(x) for x in xn]
    for sec, origs in exp_o.items():
        if sec not in las.sections or not hasattr(las.sections[sec], "mnemonic_transforms"):
            return "section %s of the file is not a SectionItems of the LASFile" % sec
        s = las.sections[sec]
        if s.mnemonic_transforms != tr:
            return "%s: mnemonic_transforms is %s for mnemonic_case=%s" % (sec, s.mnemonic_transforms, mc)
        got_o = [i.original_mnemonic for i in s]
        if got_o != origs:
            return "%s: originals %r, file has %r" % (sec, got_o, origs)
        if s.keys() != expected_sessions(origs, tr):
            return "%s: session names %r, statement expects %r" % (sec, s.keys(), expected_sessions(origs, tr))
        bad = state_violations(s)
        if bad:
            return "%s: %s" % (sec, bad[0][1])
    for c in las.curves:
        if las[c.mnemonic] is not c.data:
            return "LASFile[%r] is not that curve's data" % (c.mnemonic,)
    out = io.StringIO()
    las.write(out, version=2.0)
    wm = written_mnemonics(out.getvalue())
    for sec, letter in (("Version", "V"), ("Well", "W"), ("Curves", "C"), ("Parameter", "P")):
        if sec == "Version" and wm.get("V") and wm["V"][0].upper() == "VERS":
            wm["V"][0] = exp_o[sec][0]      # write() always builds a new item VERS for the version it writes (C16's subject)
        if wm.get(letter, []) != exp_o[sec]:
            return "%s: write() emitted mnemonics %r, originals are %r" % (sec, wm.get(letter), exp_o[sec])
    try:
        las2 = lasio.read(out.getvalue(), mnemonic_case=mc)
    except Exception as e:      # noqa: BLE001
        return "re-read raised %s" % ic.exc(e)
    for sec in exp_o:
        if sec == "Tops":
            continue            # write() emits ~V ~W ~C ~P ~O ~A only: a custom section is not in the written text
        if las2.sections[sec].keys() != las.sections[sec].keys():
            return "%s: re-read session names %r differ from %r" % (sec, las2.sections[sec].keys(), las.sections[sec].keys())
        if [i.original_mnemonic for i in las2.sections[sec]] != [i.original_mnemonic for i in las.sections[sec]]:
            return "%s: re-read originals differ" % sec
    return None


def check_file_history(wn, cn, pn, mc, tmpl):
    """operations on the ~Parameter section of a file that was read"""
    import lasio
    las = lasio.read(make_file(wn, cn, pn), mnemonic_case=mc)
    ops = ic.instantiate(tmpl, False)
    return check_seq(mc != "preserve", False, ops, initial=las.params)


# ---- generation -------------------------------------------------------------------------------------
def c13_alphabet(alpha):
    return [t for t in alpha if t[0] in C13_CODES]


ALPHABETS = {"full": lambda: c13_alphabet(ic.full_alphabet()), "core": ic.core_alphabet, "micro": ic.micro_alphabet,
             "intlike": ic.intlike_alphabet, "gap": ic.gap_alphabet}


def families(ctx):
    """(family name, alphabet, length, tr, curve): ALL sequences of that length"""
    fams = []
    for tr in (False, True):
        fams += [("full=2", "full", 2, tr, False), ("core=4", "core", 4, tr, False), ("core=2(curves)", "core", 2, tr, True),
                 ("intlike=3", "intlike", 3, tr, False), ("gap=5", "gap", 5, tr, False)]
    if ctx.thorough:
        fams += [("core=5", "core", 5, None, False), ("micro=6", "micro", 6, None, False)]   # tr alternates
    return fams


def decode_input(inp):
    recs = inp.split(ic.RS)
    hd = recs[0].split(ic.FS)
    return hd[0] == "T", hd[1] == "T", [r.split(ic.FS) for r in recs[3:]]


SAMPLE_EVERY = 251


def run_one(tr, curve, ops, keep_text):
    """-> (input, digest, full text or None, first violation or None, visited states)"""
    first_bad = []
    states = set()

    def on_step(sim, o, r, snap):
        states.add((tuple((i.original_mnemonic, i.mnemonic) for i in list.__iter__(sim.s)), tr))
        if not first_bad:
            bad = step_violations(sim, o, r, snap) + state_violations(sim.s)
            if bad:
                first_bad.append((bad[0][0], "after %s (transforms=%s, keys %s): %s"
                                  % (o, tr, [i.mnemonic for i in list.__iter__(sim.s)], bad[0][1]),
                                  explained_by_clash(sim.s, bad[0])))
    inp, exp, sim = ic.run_sequence(tr, curve, ops, mode="i", on_step=on_step)
    return inp, ic.digest(exp), (exp if keep_text else None), (first_bad[0] if first_bad else None), states


def work_chunk(job):
    """one family restricted to a first operation; runs in a worker process"""
    fam, alpha_name, length, tr0, curve, first = job
    alpha = ALPHABETS[alpha_name]()
    import itertools
    out = {"fam": fam, "cases": [], "texts": [], "viol": [], "n_clash": 0, "states": set()}
    k = first
    for rest in itertools.product(alpha, repeat=length - 1):
        tm = [alpha[first]] + list(rest)
        tr = tr0 if tr0 is not None else (k % 2 == 1)
        k += 1
        ops = ic.instantiate(tm, curve)
        keep = (len(out["cases"]) % SAMPLE_EVERY == 0)
        inp, dig, text, bad, states = run_one(tr, curve, ops, keep)
        if keep:
            out["texts"].append((len(out["cases"]), text))
        out["cases"].append((inp, dig))
        out["states"] |= states
        if bad:
            if bad[2]:                      # a failure the known finding explains: counted, two per chunk are kept
                out["n_clash"] += 1
                if out["n_clash"] > 2:
                    continue
            if len(out["viol"]) < 30:
                out["viol"].append({"payload": seq_payload(tr, curve, ops, bad[0]), "what": "%s: %s" % (ops, bad[1])})
    return out


def seq_payload(tr, curve, ops, check):
    return {"kind": "seq", "tr": tr, "curve": curve, "ops": ops, "check": check}


def run(ctx):
    import multiprocessing
    res = lib.Result()
    cases, texts = [], {}
    hist = {}
    states = set()
    n_clash_viol = 0
    jobs = []
    for (fam, alpha_name, length, tr, curve) in families(ctx):
        for first in range(len(ALPHABETS[alpha_name]())):
            jobs.append((fam, alpha_name, length, tr, curve, first))
    import lasio  # noqa: F401  (imported before forking)
    with multiprocessing.get_context("fork").Pool(12) as pool:
        for out in pool.imap(work_chunk, jobs, chunksize=1):
            base = len(cases)
            cases += out["cases"]
            for (j, t) in out["texts"]:
                texts[base + j] = t
            hist[out["fam"]] = hist.get(out["fam"], 0) + len(out["cases"])
            states |= out["states"]
            n_clash_viol += out["n_clash"]
            res.oracle_violations += out["viol"]
    # random sequences (main process: one PRNG stream)
    n_rand = 5000 if ctx.thorough else 500
    for j in range(n_rand):
        tr = ctx.rng.random() < 0.5
        curve = ctx.rng.random() < 0.3
        tm = [t for t in ic.random_sequence(ctx.rng, 30, tr, curve) if t[0] in C13_CODES]
        if not tm:
            continue
        ops = ic.instantiate(tm, curve)
        inp, dig, text, bad, st = run_one(tr, curve, ops, j % 10 == 0)
        if text is not None:
            texts[len(cases)] = text
        cases.append((inp, dig))
        hist["random<=30"] = hist.get("random<=30", 0) + 1
        states |= st
        if bad:
            if bad[2]:
                n_clash_viol += 1
                if n_clash_viol > 40:
                    continue
            res.oracle_violations.append({"payload": seq_payload(tr, curve, ops, bad[0]), "what": "%s: %s" % (ops, bad[1])})
    n_seq = len(cases)
    # file level
    rng = ctx.rng
    n_files = 1500 if ctx.thorough else 150
    n_file_cases = 0
    for j in range(n_files):
        wn = [rng.choice(FILE_NAMES) for _ in range(rng.randint(0, 4))]
        cn = [rng.choice(FILE_NAMES) for _ in range(rng.randint(0, 5))]
        pn = [rng.choice(FILE_NAMES) for _ in range(rng.randint(0, 5))]
        # E: duplicated / blank / case-variant mnemonics in ~Version (after VERS, WRAP) and in a custom section too
        vn = [rng.choice(FILE_NAMES) for _ in range(rng.randint(0, 3))] if rng.random() < 0.5 else []
        xn = [rng.choice(FILE_NAMES) for _ in range(rng.randint(0, 4))] if rng.random() < 0.5 else None
        for mc in ("preserve", "upper", "lower"):
            n_file_cases += 1
            bad = check_file(wn, cn, pn, mc, vn, xn)
            if bad:
                res.oracle_violations.append({"payload": {"kind": "file", "w": wn, "c": cn, "p": pn, "mc": mc, "v": vn, "x": xn},
                                              "what": "file V=%r W=%r C=%r P=%r Tops=%r mnemonic_case=%s: %s" % (vn, wn, cn, pn, xn, mc, bad)})
        mc = rng.choice(["preserve", "upper", "lower"])
        tmpl = [t for t in ic.random_sequence(rng, 8, mc != "preserve", False) if t[0] in C13_CODES]
        n_file_cases += 1
        for (name, text, expl) in check_file_history(wn, cn, pn, mc, tmpl):
            if expl:
                n_clash_viol += 1
            res.oracle_violations.append({"payload": {"kind": "filehist", "w": wn, "c": cn, "p": pn, "mc": mc, "tmpl": [list(t) for t in tmpl],
                                                      "check": name},
                                          "what": "file P=%r mnemonic_case=%s then %s" % (pn, mc, text)})
    hist["files(read,write,re-read x3 cases + history)"] = n_file_cases
    res.oracle_violations.sort(key=lambda v: len(v["payload"].get("ops", [])) if v["payload"]["kind"] == "seq" else 99)
    res.cases = n_seq + n_file_cases
    if ctx.build.model_ok:
        mism, err = lib.run_coq_cases("c13", [], ic.RUN_DIGEST, cases, shard=2000, timeout=3000)
        res.corr_error = err
        # full text on the sample and on every digest mismatch (re-run to get the text)
        sample = sorted(texts)
        full = [(cases[i][0], texts[i]) for i in sample]
        for i in mism[:200]:
            if i not in texts:
                tr, curve, ops = decode_input(cases[i][0])
                full.append((cases[i][0], run_one(tr, curve, ops, True)[2]))
                sample.append(i)
        m2, err2 = lib.run_coq_cases("c13f", [], ic.RUN_CASE, full, shard=100)
        res.corr_error = res.corr_error or err2
        for i in sorted(set(mism) | {sample[i] for i in m2}):
            tr, curve, ops = decode_input(cases[i][0])
            res.mismatches.append({"tr": tr, "curve": curve, "ops": ops})
        res.extra["full_text_cases"] = len(full)
    else:
        res.corr_error = "model not built"
    res.extra["sequences_in_suffix_clash_class_violating"] = n_clash_viol
    res.distinct_nontrivial = len(states)
    res.rule = ("operation sequences (append, insert, delete by key/index, replace by key/index, value assignment, "
                "get(add=True), setattr) over names {A,a,B,'',' ',A:1} x positions {0,1,-1,99(end),-99}: ALL sequences of "
                "length 2 over the full alphabet (%d ops), ALL of length 4 over the core alphabet (%d ops)%s, random "
                "sequences up to length 30, x mnemonic_transforms on/off (prefixes are covered because every step is "
                "observed); plus generated LAS files with duplicated/blank/case-variant mnemonics in ~V/~W/~C/~P and a custom section read with "
                "mnemonic_case preserve/upper/lower, written and re-read. distinct_nontrivial = distinct section states "
                "(original/session name lists x flag) visited and checked by the direct oracle"
                % (len(c13_alphabet(ic.full_alphabet())), len(ic.core_alphabet()),
                   ", ALL of length 5 over core and ALL of length 6 over the micro alphabet (%d ops; flag alternating)"
                   % len(ic.micro_alphabet()) if ctx.thorough else ""))
    res.samples = [repr(decode_input(cases[i][0])[2]) for i in (0, n_seq // 3, n_seq // 2, n_seq - 1)]
    res.histogram = hist
    return res


def replay(payload):
    k = payload.get("kind")
    if k == "file":
        bad = check_file(payload["w"], payload["c"], payload["p"], payload["mc"], payload.get("v", ()), payload.get("x"))
        return (bad is not None), (bad or "file round trip keeps names")
    if k == "filehist":
        v = check_file_history(payload["w"], payload["c"], payload["p"], payload["mc"], [tuple(t) for t in payload["tmpl"]])
        return (bool(v)), (v[0][1] if v else "invariant holds along the history")
    v = check_seq(payload["tr"], payload["curve"], payload["ops"])
    if v:
        return True, v[0][1]
    return False, "all C13 clauses hold along %s" % (payload["ops"],)


def finding_of(payload):
    """suffix-clash: the history is replayed; the violation belongs to the known finding only when the FIRST failing
    clause is `distinct` / `resolves` / `resolves_attr` about two items that share a session name because one is
    literally named u:<k> and the other is a u carrying the generated suffix :<k> (explained_by_clash).  Which
    names occur in the history does not matter."""
    k = payload.get("kind")
    try:
        if k == "seq":
            v = check_seq(payload["tr"], payload["curve"], payload["ops"])
        elif k == "filehist":
            v = check_file_history(payload["w"], payload["c"], payload["p"], payload["mc"], [tuple(t) for t in payload["tmpl"]])
        else:
            return None
    except Exception:      # noqa: BLE001
        return None
    return "suffix-clash" if v and v[0][2] else None


def search(ctx, res):
    for m in res.mismatches:
        for (name, text, _e) in check_seq(m["tr"], m["curve"], m["ops"]):
            yield {"payload": seq_payload(m["tr"], m["curve"], m["ops"], name), "what": text}
    full = c13_alphabet(ic.full_alphabet())
    for n in (1, 2, 3):
        for tr in (False, True):
            for tm in ic.sequences(full, n):
                ops = ic.instantiate(tm, False)
                for (name, text, _e) in check_seq(tr, False, ops):
                    yield {"payload": seq_payload(tr, False, ops, name), "what": text}
