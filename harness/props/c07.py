"""C07 — curves are rectangular and bound to their own column."""
import math

import lib
import lasgen
import readmodel as rm

PROP = "C07"
MODEL_TARGETS = ["Corr/ReadShow.vo"]
THEOREMS = ["C07_reshape_rows", "C07_transpose_nth", "C07_bind_length", "C07_bind_declared_frame", "C07_bind_declared", "C07_bind_new_unnamed", "C07_data_columns", "C07_rectangular", "C07_normal_engine_binds", "C07_bind_current", "C07_n_columns_current",
            "C07_numpy_engine_rect", "C07_normal_engine_rect", "C07_engine_rect", "C07_read_rectangular", "C07_read_one_data_shape"]
ASSUMPTIONS = [
    "DLM COMMA: an empty field ('100,,102') is a cell of its own column (an empty text cell; the other cells of that column come back as "
    "the text of their number); DLM TAB has no empty fields (a run of tabs is one delimiter) and is not generated with them",
    "WRAP=YES is claimed for c = d (a depth step is d values spread over lines) and for whole-step lines with c >= d; "
    "a wrapped file with fewer values per step than declared curves is indistinguishable from a differently shaped file",
    "numpy.reshape / genfromtxt as modelled (Model/DataRead.v)",
]


def gen_case(rng):
    s = lasgen.Spec()
    s.version = rng.choice(["1.2", "2.0"])
    d = rng.choice([0, 1, 2, 3, 4, 7])
    wrapped = rng.random() < 0.35
    if wrapped:
        d = max(d, 1)
        c = d if rng.random() < 0.8 else d + rng.choice([1, 2])
    else:
        c = max(1, d + rng.choice([-2, -1, 0, 0, 0, 1, 2]))
    r = rng.choice([1, 1, 2, 3, 22])
    mixed = rng.random() < 0.4           # mixed-case mnemonics: mnemonic_case must map the name and nothing else
    s.curves = [(("Cv%d" if mixed else "C%d") % j if j else ("Dept" if mixed else "DEPT"), rng.choice(["M", "", "OHMM"]), "", "curve %d" % j)
                for j in range(d)]
    if d and rng.random() < 0.2:
        # duplicated / blank declared mnemonics
        k = rng.randrange(d)
        s.curves[k] = (rng.choice(["", s.curves[0][0]]), "", "", "dup or blank")
    s.null = "-999.25"
    s.rows = [[str(100 * (i + 1) + j) + rng.choice(["", ".0", ".5"]) for j in range(c)] for i in range(r)]
    s.wrap = "YES" if wrapped else "NO"
    if not wrapped and rng.random() < 0.2:
        s.wrap = None                 # no WRAP item at all in ~Version: the file is read unwrapped by sniffing
        if rng.random() < 0.6 and d >= 2:
            # more declared curves than columns, with r*c a multiple of d (a re-deal would go unnoticed by reshape)
            c = rng.choice([k for k in range(1, d)])
            r = rng.choice([m for m in (d, 2 * d, 3 * d, 1, 2, 3) if (m * c) % d == 0] or [d])
            s.rows = [[str(100 * (i + 1) + j) + rng.choice(["", ".0", ".5"]) for j in range(c)] for i in range(r)]
    # spellings that keep the coordinates: negative, signed, exponent
    if rng.random() < 0.5:
        def respell(t):
            v = float(t)
            k = rng.choice(["same", "same", "neg", "plus", "exp", "negexp", "Exp"])
            if k == "same":
                return t
            if k == "neg":
                return "-" + t
            if k == "plus":
                return "+" + t
            e = "%.5e" % v
            return {"exp": e, "negexp": "-" + e, "Exp": e.upper()}[k]
        s.rows = [[respell(t) for t in row] for row in s.rows]
    s._case = rng.choice(["preserve", "preserve", "upper", "lower"])
    # a text column (not the index) whose cells carry their coordinates
    if c >= 2 and rng.random() < 0.12:
        j = rng.randrange(1, c)
        for i, row in enumerate(s.rows):
            row[j] = "T%d" % (100 * (i + 1) + j)
    # DLM COMMA with empty fields: dropping an empty field would shift the later columns
    if not wrapped and s.wrap == "NO" and rng.random() < 0.2:
        s.dlm = "COMMA"
        s.data_pad = ("", "")
        if c >= 2 and rng.random() < 0.7:
            for row in s.rows:
                for j in range(1, c):
                    if rng.random() < 0.25:
                        row[j] = ""
            if all(t != "" for row in s.rows for t in row):
                s.rows[0][rng.randrange(1, c)] = ""
    s.eol = "\n"
    extra = {}
    if wrapped:
        # re-wrap each depth step at a fixed number of tokens per physical line
        if c == d:
            k = rng.choice([1, 2, 3, c, max(1, c // 2)])
        else:
            k = c           # whole step per line
        s._wrap_k = k
    else:
        s._wrap_k = None
    return s, d, c, r


def gen_multi(rng):
    """a file with two or three ~A sections of different heights and widths (narrower / wider than the curve list, first or
    last): every data section is read in turn and bound to the curve list as it stands, so after the read all curves have the
    row count of the LAST section, its columns bound in order, every other curve (declared, or created for a surplus column
    of an earlier section) NaN.  Cells carry (section, row, column).  -> (spec with rows = last section, d, c_last, r_last, n)"""
    s = lasgen.Spec()
    s.version = rng.choice(["1.2", "2.0"])
    d = rng.choice([0, 1, 2, 3, 4, 4, 6])
    k = rng.choice([2, 2, 3])
    heights = rng.sample([1, 2, 3, 5, 8], k)                       # pairwise different
    if rng.random() < 0.15:
        heights[-1] = heights[0]                                   # (sometimes equal: the plain case)
    widths = [max(1, d + rng.choice([-3, -2, -1, 0, 0, 1, 2])) for _ in range(k)]
    shape = rng.choice(["any", "last_narrow", "first_narrow", "last_wide", "first_wide"])
    if shape == "last_narrow" and d >= 2:
        widths[-1] = rng.randint(1, d - 1)
        widths[0] = max(widths[0], d)
    elif shape == "first_narrow" and d >= 2:
        widths[0] = rng.randint(1, d - 1)
    elif shape == "last_wide":
        widths[-1] = d + rng.choice([1, 2])
    elif shape == "first_wide":
        widths[0] = d + rng.choice([1, 2, 3])
    mixed = rng.random() < 0.3
    s.curves = [(("Cv%d" if mixed else "C%d") % j if j else ("Dept" if mixed else "DEPT"), rng.choice(["M", "", "OHMM"]), "", "curve %d" % j)
                for j in range(d)]
    s.null = "-999.25"
    s.wrap = rng.choice(["NO", "NO", "NO", None])
    s._sections = [[[str(1000 * (q + 1) + 100 * (i + 1) + j) + rng.choice(["", ".0", ".5"]) for j in range(widths[q])]
                    for i in range(heights[q])] for q in range(k)]
    s._titles = [rng.choice(["~A", "~ASCII", "~Ascii log data", "~A  DEPT  C1"]) for _ in range(k)]
    s.rows = s._sections[-1]
    s._case = rng.choice(["preserve", "preserve", "upper", "lower"])
    s._wrap_k = None
    s.eol = "\n"
    return s, d, widths[-1], heights[-1], max([d] + widths)


def render_multi(s):
    rows = s.rows
    try:
        s.rows = []
        text, _ = lasgen.render(s)
    finally:
        s.rows = rows
    lines = text.split("\n")
    assert lines[-1] == "" and lines[-2].startswith("~A"), lines[-3:]
    lines = lines[:-2]
    for title, sec in zip(s._titles, s._sections):
        lines.append(title)
        lines += [" " + "  ".join(row) for row in sec]
    return "\n".join(lines) + "\n"


def render(s):
    if getattr(s, "_sections", None):
        return render_multi(s)
    if s._wrap_k is None:
        return lasgen.render(s)[0]
    k = s._wrap_k
    rows = s.rows
    try:
        s.rows = []
        text, _ = lasgen.render(s)
    finally:
        s.rows = rows
    lines = []
    for row in rows:
        for a in range(0, len(row), k):
            lines.append(" " + " ".join(row[a:a + k]))
    assert text.endswith("\n")
    return text + "\n".join(lines) + "\n"


def is_number(t):
    try:
        float(t)
        return True
    except ValueError:
        return False


def oracle(s, d, c, r, text, engine, case="preserve", ncurves=None):
    import lasio
    try:
        las = lasio.read(text, engine=engine, mnemonic_case=case)
    except Exception as e:
        return "read raised %s: %s" % (type(e).__name__, str(e)[-100:])
    n = max(d, c) if ncurves is None else ncurves        # several ~A sections: c, r, s.rows are the LAST section's, n counts every column seen
    if len(las.curves) != n:
        return "%d curves, expected %d (d=%d, c=%d)" % (len(las.curves), n, d, c)
    import numpy as np
    shapes = [np.shape(cv.data) for cv in las.curves]
    if any(x != (r,) for x in shapes):
        return "curve data shapes %r, expected all (%d,): the curves are not one-dimensional arrays of one common length" % (shapes, r)
    for j, cv in enumerate(las.curves):
        if j < d:
            m, u, v, de = s.curves[j]
            m = {"preserve": m, "upper": m.upper(), "lower": m.lower()}[case]
            if (cv.original_mnemonic, cv.unit, cv.descr) != (m, u, de):
                return "declared curve %d metadata %r, expected %r" % (j, (cv.original_mnemonic, cv.unit, cv.descr), (m, u, de))
        else:
            if cv.original_mnemonic != "":
                return "surplus curve %d is named %r" % (j, cv.original_mnemonic)
        for i in range(r):
            g = cv.data[i]
            if j < c:
                tok = s.rows[i][j]
                text_col = any(not is_number(row[j]) for row in s.rows)
                if not is_number(tok):
                    # a text cell or an empty comma field stays in its own column
                    if not (isinstance(g, str) and g == tok):
                        return "cell (%d,%d) = %r, expected the text %r" % (i, j, g, tok)
                elif text_col:
                    if not (isinstance(g, str) and is_number(g) and float(g) == float(tok)):
                        return "cell (%d,%d) = %r, expected the text of %r (column with text / empty cells)" % (i, j, g, float(tok))
                else:
                    e = float(tok)
                    if not (isinstance(g, float) and g == e):
                        return "cell (%d,%d) = %r, expected %r" % (i, j, g, e)
            else:
                if not (isinstance(g, float) and math.isnan(g)):
                    return "curve %d has no column but sample %d = %r" % (j, i, g)
    return None


def run(ctx):
    res = lib.Result()
    rng = ctx.rng
    n = 6000 if ctx.thorough else 500
    cases, meta, shapes = [], [], set()
    hist = {"wrapped": 0, "c_lt_d": 0, "c_eq_d": 0, "c_gt_d": 0, "one_row": 0, "d_zero": 0, "blank_or_dup_mnemonic": 0}
    stream = [gen_case(rng) + (None,) for _ in range(n)] + [gen_multi(rng) for _ in range(n // 4)]
    for s, d, c, r, ncur in stream:
        text = render(s)
        for e in ("numpy", "normal"):
            bad = oracle(s, d, c, r, text, e, s._case, ncur)
            if bad:
                res.oracle_violations.append({"payload": {"text": text, "engine": e, "d": d, "c": c, "r": r, "case": s._case,
                                                          "curves": s.curves, "rows": s.rows, "n": ncur}, "what": bad})
            exp, las = rm.impl_read(text, engine=e, mnemonic_case=s._case)
            cases.append(rm.coq_case(text, exp, engine=e, mnemonic_case=s._case))
            meta.append((text, e))
        secs = getattr(s, "_sections", None)
        if secs:
            ws, hs = [len(q[0]) for q in secs], [len(q) for q in secs]
            hist["several_data_sections"] = hist.get("several_data_sections", 0) + 1
            hist["three_data_sections"] = hist.get("three_data_sections", 0) + (len(secs) == 3)
            hist["last_section_narrower_than_curves"] = hist.get("last_section_narrower_than_curves", 0) + (ws[-1] < ncur)
            hist["last_narrower_and_heights_differ"] = hist.get("last_narrower_and_heights_differ", 0) + (ws[-1] < ncur and hs[0] != hs[-1])
            hist["last_section_wider_than_declared"] = hist.get("last_section_wider_than_declared", 0) + (ws[-1] > d)
            hist["earlier_section_wider_than_last"] = hist.get("earlier_section_wider_than_last", 0) + (max(ws[:-1]) > ws[-1])
            shapes.add(("multi", d, tuple(ws), tuple(min(h, 3) for h in hs)))
            continue
        flat = [t for row in s.rows for t in row]
        hist["dlm_comma"] = hist.get("dlm_comma", 0) + (s.dlm == "COMMA")
        hist["empty_comma_field"] = hist.get("empty_comma_field", 0) + (s.dlm == "COMMA" and "" in flat)
        hist["text_column"] = hist.get("text_column", 0) + any(t.startswith("T") for t in flat)
        hist["negative_or_exponent"] = hist.get("negative_or_exponent", 0) + any(t[:1] in "-+" or "e" in t.lower() for t in flat if t[:1] != "T")
        hist["mnemonic_case_" + s._case] = hist.get("mnemonic_case_" + s._case, 0) + 1
        shapes.add((d, c, min(r, 3), s.wrap, s._wrap_k))
        hist["no_wrap_item"] = hist.get("no_wrap_item", 0) + (s.wrap is None)
        hist["wrapped"] += s.wrap == "YES"
        hist["c_lt_d"] += c < d
        hist["c_eq_d"] += c == d
        hist["c_gt_d"] += c > d
        hist["one_row"] += r == 1
        hist["d_zero"] += d == 0
        hist["blank_or_dup_mnemonic"] += len({x[0] for x in s.curves}) != len(s.curves) or any(x[0] == "" for x in s.curves)
    if ctx.build.model_ok:
        mism, err = lib.run_coq_cases("c07", [], rm.RUN_READ, cases, shard=100)
        res.corr_error = err
        for i in mism:
            res.mismatches.append({"text": meta[i][0], "engine": meta[i][1]})
    else:
        res.corr_error = "model not built"
    res.cases = len(cases)
    res.distinct_nontrivial = len(shapes)
    res.rule = ("files with d declared curves (0..7, blank/duplicate mnemonics included), c data columns (c <, =, > d), r rows "
                "(1,2,3,22), cells 100(i+1)+j carrying their coordinates (plain, negative, signed, exponent spellings; a text column; "
                "DLM COMMA with empty fields), unwrapped and WRAP=YES (steps re-wrapped at 1..c tokens per line), both engines, "
                "mnemonic_case preserve/upper/lower with mixed-case mnemonics; plus files with two or three ~A sections of different "
                "heights and widths (narrower / wider than the curve list, first or last; cells carry section, row, column): all curves "
                "have the LAST section's row count, its columns bound in order, the rest NaN; non-trivial = distinct (d, c, min(r,3), "
                "wrap, tokens per line) resp. (d, widths, heights capped at 3)")
    res.samples = [meta[0][0][-250:], meta[-1][0][-250:]]
    res.histogram = hist
    return res


def replay(payload):
    s = lasgen.Spec()
    s.curves = [tuple(x) for x in payload["curves"]]
    s.rows = payload["rows"]
    bad = oracle(s, payload["d"], payload["c"], payload["r"], payload["text"], payload["engine"], payload.get("case", "preserve"),
                 payload.get("n"))
    return bad is not None, bad or "ok"


def search(ctx, res):
    import random
    rng = random.Random(ctx.seed + 9)
    for it in range(30000):
        s, d, c, r, ncur = gen_multi(rng) if it % 4 == 3 else gen_case(rng) + (None,)
        text = render(s)
        for e in ("numpy", "normal"):
            bad = oracle(s, d, c, r, text, e, s._case, ncur)
            if bad:
                yield {"payload": {"text": text, "engine": e, "d": d, "c": c, "r": r, "case": s._case, "curves": s.curves, "rows": s.rows,
                                   "n": ncur},
                       "what": bad}
                return
