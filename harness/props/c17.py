"""C17 — pickle and deepcopy reproduce a LASFile exactly, duplicates included."""
import copy
import glob
import io
import os
import pickle

import numpy as np

import lib
from props import items_common as ic
from props import c13

PROP = "C17"
MODEL_TARGETS = ["Model/Items.vo", "Model/ItemsObs.vo"]
THEOREMS = ["C17_item", "C17_pickle_partial", "C17_deepcopy_partial", "C17_reachable_partial", "C17_lasfile_partial",
            "C17_write_partial", "C17_item_refuted_prefix", "C17_default_deepcopy_refuted"]
ASSUMPTIONS = [
    "oracle (partial by nature): pickle (protocols 0..5, C and pure-Python unpickler) and copy.deepcopy implement the "
    "__reduce__ protocol as CPython documents it: object.__reduce_ex__ calls the class's __reduce__; the result "
    "(cls, args, state) is rebuilt as cls(*args) followed by obj.__dict__.update(state) (neither class defines "
    "__setstate__); with SectionItems.__reduce__ = (cls, (list(self),), __dict__) no item is re-added through "
    "append()/extend(), so the suffix rule does not run.  Observed by experiment on CPython 3.12 for all protocols",
    "oracle: payload values (str, int, float, numpy arrays with dtype) and LASFile.__dict__ (dict of sections, "
    "index_unit, ...) are copied faithfully by pickle/copy; independence of the copy is value semantics in the model "
    "and is checked on the implementation by mutating the copy and re-observing the original",
    "item_ok: a CurveItem's data is an array, never None (CurveItem.__init__ guarantees it)",
    "dtypes: the observation text carries dtype and shape of every curve array (items_common.render_data; the model "
    "keeps the data text as an opaque payload).  Operation sequences that go to the model use the floating dtypes "
    "(float64, float32; 1-D, 2-D, empty) because get(add=True) on a curve section computes np.asarray(data) * nan, "
    "which keeps dtype and shape only for those (Items.nan_like); sequences with int32 / int64 / bool / datetime64 / "
    "object / text / empty-int arrays and every generated LASFile are judged by the direct oracle only",
    "a copier that fails in the same way on the bare list of the arrays (no lasio object) is not counted: CPython's "
    "pure-Python pickler asserts at protocol 5 on a second EMPTY out-of-band buffer (two empty arrays in one list)",
    "hand model of __reduce__/constructor/state restore (Model/Items.v) tied by correspondence: section states built "
    "by operation sequences (gaps and stale suffixes included), copied by pickle protocol p / deepcopy on the real "
    "objects and by the model inside Coq; compared: every field of every item of the original and of both copies",
    "write() equality of copy and original is checked on the implementation (byte-identical text); in the model it "
    "follows from equality of the states (C17_write_partial); the writer model itself belongs to C03/C11/C16",
    "typed header payloads: the model's item carries unit / value / descr as text (Items.item: it_unit it_value it_descr "
    ": str; ItemsObs.sh_item prints them as they are), so it cannot tell a value None from the text 'None', 0 from '0' "
    "or '' from None.  Items whose unit / value / descr are None, '', 0, 0.0, ints, floats, NaN, bools, numpy scalars "
    "(PAYLOAD_VALUES x PAYLOAD_UNITS x PAYLOAD_DESCRS, every combination; also set through s[key] = value) are "
    "therefore judged by the direct oracle only: every field of the copy is compared with the original as (type name, "
    "repr), at item, section (header and curve sections, operation sequences) and LASFile level (~Well, ~Params, a "
    "custom section; edits addh / setv of generated specs)",
]

COPIERS = [("pickle%d" % p, (lambda x, p=p: pickle.loads(pickle.dumps(x, protocol=p)))) for p in range(6)]
COPIERS.append(("deepcopy", copy.deepcopy))
COPIERS_EXTRA = [("pypickle%d" % p, (lambda x, p=p: pickle._loads(pickle._dumps(x, protocol=p)))) for p in (0, 2, 5)]
ALL_COPIERS = dict(COPIERS + COPIERS_EXTRA)

# ---- typed payloads (implementation side only: the model's fields are text) ---------------------------------------
PAYLOAD_VALUES = [None, "", 0, 0.0, 7, -2.5, "text", True, False, np.float64(1.5), np.int64(3), np.float32(0.5),
                  np.int32(0), np.bool_(False), float("nan"), "0", "None"]
PAYLOAD_UNITS = ["", None, "m"]
PAYLOAD_DESCRS = ["", "a description", None]
N_PAYLOADS = len(PAYLOAD_VALUES) * len(PAYLOAD_UNITS) * len(PAYLOAD_DESCRS)


def payload_of(tag):
    """(unit, value, descr) an item / a value carrying the tag  v<n> | p<n>  gets in a typed sequence: every
    combination of PAYLOAD_VALUES x PAYLOAD_UNITS x PAYLOAD_DESCRS as n runs through range(N_PAYLOADS)"""
    n = int(tag[1:]) if isinstance(tag, str) else int(tag)
    nv, nu = len(PAYLOAD_VALUES), len(PAYLOAD_UNITS)
    return (PAYLOAD_UNITS[(n // nv) % nu], PAYLOAD_VALUES[n % nv], PAYLOAD_DESCRS[(n // (nv * nu)) % len(PAYLOAD_DESCRS)])


class TypedSim(ic.Sim):
    """items_common.Sim whose items carry the typed payload of their tag instead of the texts u<tag> / <tag> / d<tag>;
    s[key] = value, s[int] = value and s.key = value set the typed value of the tag too"""

    def mk(self, name, val, dat):
        from lasio import CurveItem, HeaderItem
        u, v, d = payload_of(val)
        if self.curve:
            return CurveItem(name, unit=u, value=v, descr=d, data=ic.parse_data(dat))
        return HeaderItem(name, unit=u, value=v, descr=d)

    def apply(self, f):
        c, s = f[0], self.s
        if c not in ("v", "w", "y"):
            return ic.Sim.apply(self, f)
        val = payload_of(f[2])[1]
        try:
            if c == "v":
                s[f[1]] = val
            elif c == "w":
                s[int(f[1])] = val
            else:
                setattr(s, f[1], val)
                if f[1] in s.__dict__ and f[1] != "mnemonic_transforms":
                    del s.__dict__[f[1]]
        except Exception as e:      # noqa: BLE001
            return ic.exc(e)
        return "ok"


# ---- canonical content -------------------------------------------------------------------------------
def canon_value(v):
    if isinstance(v, float) and v != v:
        return ("float", "nan")
    return (type(v).__name__, repr(v))


def canon_data(d):
    if d is None:
        return None
    a = np.asarray(d)
    vals = []
    for x in a.ravel().tolist():
        vals.append("nan" if isinstance(x, float) and x != x else repr(x))
    return (str(a.dtype), a.shape, tuple(vals))


def canon_item(it):
    return (type(it).__name__, it.mnemonic, it.original_mnemonic, canon_value(it.unit), canon_value(it.value),
            canon_value(it.descr), canon_data(it.data))


def canon_section(s):
    from lasio import SectionItems
    if isinstance(s, SectionItems):
        return ("SectionItems", bool(s.mnemonic_transforms), tuple(canon_item(i) for i in list.__iter__(s)))
    return (type(s).__name__, repr(s))


def canon_las(las):
    return (tuple((k, canon_section(v)) for k, v in las.sections.items()), canon_value(las.index_unit),
            type(las).__name__)


def write_text(las):
    out = io.StringIO()
    try:
        las.write(out)
        return ("text", out.getvalue())
    except Exception as e:      # noqa: BLE001
        return ("raised", ic.exc(e))


def canon_any(x):
    import lasio
    if isinstance(x, lasio.LASFile):
        return canon_las(x)
    if isinstance(x, lasio.SectionItems):
        return canon_section(x)
    return canon_item(x)


# ---- direct oracle -----------------------------------------------------------------------------------
def mutate(obj, rng_k):
    """change the copy in several ways"""
    import lasio
    from lasio import HeaderItem, CurveItem, SectionItems
    if isinstance(obj, lasio.LASFile):
        for s in obj.sections.values():
            if isinstance(s, SectionItems):
                mutate(s, rng_k)
        obj.index_unit = "XX"
        obj.sections["Extra"] = SectionItems([HeaderItem("NEW")])
        return
    if isinstance(obj, SectionItems):
        for it in list(list.__iter__(obj)):
            mutate(it, rng_k)
        if len(obj):
            del obj[0]
        obj.append(HeaderItem("ADDED", value=1))
        obj.mnemonic_transforms = not obj.mnemonic_transforms
        return
    obj.unit = "mut"
    obj.value = "mutv"
    obj.descr = "mutd"
    if isinstance(obj, CurveItem) and obj.data is not None and np.asarray(obj.data).size:
        try:
            flat = obj.data.reshape(-1)             # a view: writes into the copy's own buffer
            flat[0] = flat[-1] if obj.data.dtype.kind in "USMb" else 123
        except Exception:      # noqa: BLE001
            pass
    obj.mnemonic = "RENAMED"


def check_copy(x, copier_name, with_write=False):
    """None if the copy made by the named copier is observably equal and independent, else text"""
    import lasio
    f = ALL_COPIERS[copier_name]
    before = canon_any(x)
    try:
        y = f(x)
    except Exception as e:      # noqa: BLE001
        try:
            f(bare_arrays(x))
        except Exception as e2:      # noqa: BLE001
            if type(e2) is type(e):
                # the copier fails in the same way on the bare list of the arrays, without any lasio object (CPython's
                # pure-Python pickler, protocol 5, asserts on a second empty out-of-band buffer): not lasio's doing
                SKIPPED.append(copier_name)
                return None
        return "%s raised %s: %s" % (copier_name, ic.exc(e), str(e)[:100])
    if type(y) is not type(x):
        return "%s returned a %s" % (copier_name, type(y).__name__)
    got = canon_any(y)
    if got != before:
        return "%s: copy differs from the original: %s" % (copier_name, first_diff(before, got))
    if canon_any(x) != before:
        return "%s: copying changed the original" % copier_name
    if with_write and isinstance(x, lasio.LASFile):
        wa, wb = write_text(x), write_text(y)
        if wa != wb:
            return "%s: write() of the copy differs from write() of the original: %s" % (copier_name, first_diff(wa, wb))
        before = canon_any(x)
    mutate(y, 0)
    if canon_any(x) != before:
        return "%s: mutating the copy changed the original" % copier_name
    return None


SKIPPED = []


def bare_arrays(x):
    """the curve arrays of a LASFile / section / item as a plain list (no lasio object involved)"""
    import lasio
    if isinstance(x, lasio.LASFile):
        return [a for s in x.sections.values() if isinstance(s, lasio.SectionItems) for a in bare_arrays(s)]
    if isinstance(x, lasio.SectionItems):
        return [it.data for it in list.__iter__(x) if it.data is not None]
    return [x.data] if x.data is not None else []


def first_diff(a, b, path=""):
    if type(a) is not type(b):
        return "%s: %r vs %r" % (path, a, b)
    if isinstance(a, tuple):
        if len(a) != len(b):
            return "%s: length %d vs %d" % (path, len(a), len(b))
        for j, (x, y) in enumerate(zip(a, b)):
            if x != y:
                return first_diff(x, y, path + "[%d]" % j)
        return path + ": equal"
    return "%s: %r vs %r" % (path, str(a)[:120], str(b)[:120])


def check_object_tree(las, copiers, with_write=True):
    """LASFile, each section, single items x copiers -> first failure text or None"""
    from lasio import SectionItems
    for cn in copiers:
        bad = check_copy(las, cn, with_write=with_write)
        if bad:
            return "LASFile: " + bad
        for name, s in las.sections.items():
            if not isinstance(s, SectionItems):
                continue
            bad = check_copy(s, cn)
            if bad:
                return "section %s: %s" % (name, bad)
            for j, it in enumerate(list(list.__iter__(s))[:6]):
                bad = check_copy(it, cn)
                if bad:
                    return "item %s[%d] (%s): %s" % (name, j, it.mnemonic, bad)
    return None


# ---- inputs --------------------------------------------------------------------------------------------
def corpus_files(thorough):
    root = os.path.join(lib.REPO, "tests", "examples")
    files = sorted(glob.glob(os.path.join(root, "*.las")) + glob.glob(os.path.join(root, "*", "*.las")))
    out = []
    for f in files:
        if os.path.getsize(f) > (2000000 if thorough else 60000):
            continue
        out.append(f)
    return out


def build_generated(spec):
    """spec: dict(w, c, p, mc, text_curve, edits) -> LASFile"""
    import lasio
    kw = {}
    if spec.get("dtypes"):
        kw["dtypes"] = [str if d == "str" else np.dtype(d).type for d in spec["dtypes"]]
    las = lasio.read(c13.make_file(spec["w"], spec["c"], spec["p"]), mnemonic_case=spec["mc"], **kw)
    if spec.get("text_curve"):
        las.append_curve("TXT", np.array(["a", "bb"]), unit="", descr="text curve")
        las.append_curve("TXT", np.array(["c", "dd"]), unit="", descr="text curve again")
    for e in spec.get("edits", []):
        try:
            if e[0] == "delc":
                las.delete_curve(ix=e[1])
            elif e[0] == "delp":
                del las.params[e[1]]
            elif e[0] == "delw":
                del las.well[e[1]]
            elif e[0] == "addp":
                las.params.append(lasio.HeaderItem(e[1], value=3))
            elif e[0] == "addc":
                las.append_curve(e[1], np.array([1.5, np.nan]))
            elif e[0] == "addd":
                las.append_curve(e[1], typed_array(e[2]), unit="u" + e[2], descr="curve of kind " + e[2])
            elif e[0] == "addh":
                # a header item with a typed payload (value None / 0 / numpy scalar ..., unit None, blank descr) in
                # ~Well, ~Params or a custom section
                u, v, d = payload_of(e[3])
                header_section(las, e[1]).append(lasio.HeaderItem(e[2], u, v, d))
            elif e[0] == "setv":
                sec = header_section(las, e[1])
                u, v, d = payload_of(e[3])
                sec[e[2]].value = v
                if e[4]:
                    sec[e[2]].unit, sec[e[2]].descr = u, d
            elif e[0] == "idx":
                # an in-place correction of one index sample (the last value, hence STOP, is kept when e[1] == 0)
                if len(las.curves) and las.curves[0].data.dtype.kind == "f" and len(las.curves[0].data) > e[1]:
                    las.curves[0].data[e[1]] = las.curves[0].data[e[1]] - 0.25
        except (IndexError, KeyError):
            pass
    return las


def header_section(las, which):
    """w ~Well, p ~Params, x a custom section (created when missing)"""
    import lasio
    if which == "w":
        return las.well
    if which == "p":
        return las.params
    if "Tools" not in las.sections:
        las.sections["Tools"] = lasio.SectionItems()
    return las.sections["Tools"]


ARRAY_KINDS = ["f4", "f2", "i4", "i8", "b1", "M8", "O", "2d", "2df4", "empty", "emptyi4", "U", "0d"]


def typed_array(kind):
    """two-sample curve arrays of the dtypes / shapes lasio accepts in a CurveItem (np.asarray of anything)"""
    if kind == "M8":
        return np.array(["2001-01-23T12:00:01", "2001-01-23T12:00:02"], dtype="datetime64[s]")
    if kind == "O":
        a = np.empty(2, dtype=object)
        a[:] = [1.5, "text"]
        return a
    if kind == "2d":
        return np.array([[1.0, 2.0], [3.0, np.nan]])
    if kind == "2df4":
        return np.array([[1.0, 2.0], [3.0, 4.0]], dtype="f4")
    if kind == "empty":
        return np.array([], dtype=float)
    if kind == "emptyi4":
        return np.array([], dtype="i4")
    if kind == "U":
        return np.array(["ab", "c"])
    if kind == "0d":
        return np.array(2.5)
    if kind == "b1":
        return np.array([True, False])
    return np.array([1, 2]).astype(kind)


READ_DTYPES = ["float64", "float64", "float32", "int32", "int64", "str"]


def gen_spec(rng):
    names = c13.FILE_NAMES
    spec = {"w": [rng.choice(names) for _ in range(rng.randint(0, 4))],
            "c": [rng.choice(names) for _ in range(rng.randint(0, 5))],
            "p": [rng.choice(names) for _ in range(rng.randint(0, 5))],
            "mc": rng.choice(["preserve", "upper", "lower"]),
            "text_curve": rng.random() < 0.3, "edits": []}
    if rng.random() < 0.4:          # the dtypes= read option, one entry per curve (DEPT included)
        spec["dtypes"] = [rng.choice(READ_DTYPES) for _ in range(1 + len(spec["c"]))]
    for _ in range(rng.randint(0, 3)):
        k = rng.choice(["delc", "delp", "delw", "addp", "addc", "idx", "addd", "addd", "addh", "addh", "setv"])
        if k == "addh":
            spec["edits"].append([k, rng.choice("wpx"), rng.choice(names + ["RUN"]), rng.randrange(N_PAYLOADS)])
        elif k == "setv":
            spec["edits"].append([k, rng.choice("wpx"), rng.choice([0, 1, -1]), rng.randrange(N_PAYLOADS), rng.random() < 0.5])
        elif k == "addd":
            spec["edits"].append([k, rng.choice(names + ["A:1"]), rng.choice(ARRAY_KINDS)])
        elif k == "idx":
            spec["edits"].append([k, rng.choice([0, 0, 1])])
        elif k in ("delc", "delp", "delw"):
            spec["edits"].append([k, rng.choice([0, 1, 2, -1, 4])])
        else:
            spec["edits"].append([k, rng.choice(names + ["A:1"])])
    return spec


def gen_sequences(ctx):
    full, core = ic.full_alphabet(), ic.core_alphabet()
    for tr in (False, True):
        for curve in (False, True):
            for tm in ic.sequences(full, 2 if (ctx.thorough or not curve) else 1, exact=False):
                yield tr, curve, tm, "full<=2"
        for tm in ic.sequences(core, 4 if ctx.thorough else 3):
            yield tr, True, tm, "core(curves)"
    for j in range(4000 if ctx.thorough else 400):
        tr = ctx.rng.random() < 0.5
        curve = ctx.rng.random() < 0.5
        yield tr, curve, ic.random_sequence(ctx.rng, 30, tr, curve), "random<=30"


def seq_observation(sim, copier_name):
    s = sim.s
    f = ALL_COPIERS[copier_name]
    items = list(list.__iter__(s))
    lines = [ic.render_state(s), ic.render_state(f(s)), ic.render_state(copy.deepcopy(s)),
             ",".join(ic.render_item(f(it) if j % 2 == 0 else copy.deepcopy(it)) for j, it in enumerate(items))]
    return "\n".join(lines)


def check_seq(tr, curve, ops, copiers, typed=False):
    """typed: the items carry the typed payload of their tag (TypedSim) instead of the texts the model knows"""
    sim = (TypedSim if typed else ic.Sim)(tr, curve)
    for o in ops:
        sim.apply(o)
    for cn in copiers:
        bad = check_copy(sim.s, cn)
        if bad:
            return "section after %s (transforms=%s%s): %s" % (ops, tr, typed_note(sim, typed), bad)
        for j, it in enumerate(list(list.__iter__(sim.s))):
            bad = check_copy(it, cn)
            if bad:
                return "item %d (%s) of the section after %s%s: %s" % (j, it.mnemonic, ops, typed_note(sim, typed), bad)
    return None


def typed_note(sim, typed):
    if not typed:
        return ""
    return "; typed payloads, items (mnemonic, unit, value, descr) = %r" % (
        [(i.original_mnemonic, i.unit, i.value, i.descr) for i in list.__iter__(sim.s)],)


def typed_sequences(ctx):
    """(tr, curve, ops, family): operation sequences whose items carry typed payloads.  EXHAUSTIVE: one item of every
    payload (N_PAYLOADS combinations of value x unit x descr) in a header and in a curve section, appended alone and
    after / before an item of another payload; SAMPLED: random sequences (s[key] = typed value included)"""
    for curve in (False, True):
        for n in range(N_PAYLOADS):
            yield n % 2 == 0, curve, ic.instantiate([("a", "A")], curve, start=n - 1), "typed payload, one item"
    for n in range(N_PAYLOADS):
        yield n % 2 == 1, False, ic.instantiate([("a", "A"), ("a", "A"), ("v", "A:1")], False, start=n - 1), "typed payload, a a v"
    for j in range(1500 if ctx.thorough else 200):
        tr = ctx.rng.random() < 0.5
        curve = ctx.rng.random() < 0.3
        tm = ic.random_sequence(ctx.rng, 10, tr, curve)
        yield tr, curve, ic.instantiate(tm, curve, start=ctx.rng.randrange(N_PAYLOADS)), "typed payload, random<=10"


def run(ctx):
    import lasio
    res = lib.Result()
    hist = {}
    del SKIPPED[:]
    names = [c for c, _ in COPIERS]
    names_all = names + [c for c, _ in COPIERS_EXTRA]
    nontrivial = set()
    # 1. section states from operation sequences: correspondence + oracle
    cases, full_text, meta = [], [], []
    seen = set()
    k = 0
    for tr, curve, tm, fam in gen_sequences(ctx):
        ops = ic.instantiate(tm, curve)
        sim = ic.Sim(tr, curve)
        for o in ops:
            sim.apply(o)
        cn = names[k % len(names)]
        k += 1
        inp = ic.RS.join([ic.FS.join([ic.tf(tr), ic.tf(curve)])] + [ic.FS.join(o) for o in ops])
        try:
            exp = seq_observation(sim, cn)
        except Exception as e:      # noqa: BLE001
            exp = "copier raised %s" % ic.exc(e)
        cases.append((inp, ic.digest(exp)))
        full_text.append((inp, exp))
        meta.append((tr, curve, ops, cn))
        hist[fam] = hist.get(fam, 0) + 1
        sig = (tuple((i.original_mnemonic, i.mnemonic) for i in list.__iter__(sim.s)), tr, curve)
        if sig not in seen:
            seen.add(sig)
            if any(i.original_mnemonic != i.mnemonic for i in list.__iter__(sim.s)):
                nontrivial.add(sig)
            bad = check_seq(tr, curve, ops, names_all)
            if bad:
                res.oracle_violations.append({"payload": {"kind": "seq", "tr": tr, "curve": curve, "ops": ops}, "what": bad})
    # 1b. curve sections holding arrays of EVERY dtype (int32, int64, bool, datetime64, object, text, empty int32 next
    # to the floating ones): np.asarray(data) * nan does not keep these dtypes, so the model's nan_like does not apply;
    # judged by the direct oracle only (canonical content incl. dtype and shape, independence)
    n_typed = 0
    for j in range(1500 if ctx.thorough else 150):
        tr = ctx.rng.random() < 0.5
        tm = ic.random_sequence(ctx.rng, 14, tr, True)
        ops = ic.instantiate(tm, True, all_dtypes=True, start=ctx.rng.randrange(12))
        n_typed += 1
        hist["random<=14 every dtype (oracle only)"] = hist.get("random<=14 every dtype (oracle only)", 0) + 1
        bad = check_seq(tr, True, ops, names_all if j % 3 == 0 else names)
        if bad:
            res.oracle_violations.append({"payload": {"kind": "seq", "tr": tr, "curve": True, "ops": ops}, "what": bad})
    # 1c. items with typed payloads (value / unit / descr None, '', 0, 0.0, ints, floats, bools, numpy scalars): the
    # model's fields are text, judged by the direct oracle only
    for j, (tr, curve, ops, fam) in enumerate(typed_sequences(ctx)):
        n_typed += 1
        hist[fam + " (oracle only)"] = hist.get(fam + " (oracle only)", 0) + 1
        bad = check_seq(tr, curve, ops, names_all if j % 3 == 0 else names, typed=True)
        if bad:
            res.oracle_violations.append({"payload": {"kind": "seqv", "tr": tr, "curve": curve, "ops": ops}, "what": bad})
    # 2. LASFiles: corpus and generated
    n_files = 0
    for path in corpus_files(ctx.thorough):
        try:
            las = lasio.read(path)
        except Exception:       # noqa: BLE001 - files that do not read are outside the statement
            continue
        n_files += 1
        hist["corpus files"] = hist.get("corpus files", 0) + 1
        bad = check_object_tree(las, names)
        if bad:
            res.oracle_violations.append({"payload": {"kind": "corpus", "path": os.path.relpath(path, lib.REPO)},
                                          "what": "%s: %s" % (os.path.basename(path), bad)})
    for j in range(1200 if ctx.thorough else 120):
        spec = gen_spec(ctx.rng)
        try:
            las = build_generated(spec)
        except Exception as e:  # noqa: BLE001
            continue
        n_files += 1
        hist["generated files"] = hist.get("generated files", 0) + 1
        if any(i.original_mnemonic != i.mnemonic for s in las.sections.values() if isinstance(s, lasio.SectionItems) for i in s):
            nontrivial.add(("gen", j))
        bad = check_object_tree(las, names_all if j % 4 == 0 else names)
        if bad:
            res.oracle_violations.append({"payload": {"kind": "gen", "spec": spec}, "what": "generated %r: %s" % (spec, bad)})
    res.oracle_violations.sort(key=lambda v: len(v["payload"].get("ops", [])) if v["payload"]["kind"] in ("seq", "seqv") else 99)
    res.cases = len(cases) + n_files + n_typed
    res.extra["copies_skipped_because_the_copier_fails_on_the_bare_arrays"] = len(SKIPPED)
    if ctx.build.model_ok:
        mism, err = lib.run_coq_cases("c17", [], ic.RUN_COPY_DIGEST, cases, shard=1000)
        res.corr_error = err
        step = max(1, len(cases) // 300)
        sample = sorted(set(list(range(0, len(cases), step)) + mism[:200]))
        m2, err2 = lib.run_coq_cases("c17f", [], ic.RUN_COPY, [full_text[i] for i in sample], shard=100)
        res.corr_error = res.corr_error or err2
        for i in sorted(set(mism) | {sample[i] for i in m2}):
            tr, curve, ops, cn = meta[i]
            res.mismatches.append({"tr": tr, "curve": curve, "ops": ops, "copier": cn, "impl": full_text[i][1][:1500]})
        res.extra["full_text_cases"] = len(sample)
    else:
        res.corr_error = "model not built"
    res.distinct_nontrivial = len(nontrivial)
    res.rule = ("objects copied by pickle protocols 0..5 and copy.deepcopy (plus the pure-Python unpickler on a quarter): "
                "section states built by every operation sequence of length <= 2 over the full alphabet (%d ops, incl. "
                "deletions -> gaps/stale suffixes, rename), core sequences on curve sections, random sequences up to "
                "length 30 (model correspondence + oracle); LASFiles from tests/examples that read, and generated "
                "LASFiles with duplicated/blank/case-variant mnemonics in ~W/~C/~P, string and float curves, the dtypes= read "
                "option (float32/int32/int64/str per curve), appended curves of kind float32/float16/int32/int64/bool/"
                "datetime64/object/text/2-D/empty/0-d, header items with typed payloads (value / unit / descr None, '', 0, "
                "0.0, ints, floats, NaN, bools, numpy scalars: %d combinations) appended to ~Well / ~Params / a custom section "
                "or set on an existing item, edited after "
                "reading (oracle: canonical content, byte-identical write(), independence after mutating the copy), each "
                "as LASFile, per section and per item. distinct_nontrivial = distinct copied section states / files in "
                "which at least one session mnemonic differs from its original.  Operation sequences with typed payloads "
                "(oracle only): every payload combination as a single header / curve item and in a a v, random sequences "
                "up to length 10" % (len(ic.full_alphabet()), N_PAYLOADS))
    res.samples = [repr(meta[i][2]) for i in (0, len(meta) // 3, len(meta) // 2, len(meta) - 1)]
    res.histogram = hist
    return res


def replay(payload):
    import lasio
    names = list(ALL_COPIERS)
    k = payload.get("kind")
    if k == "seq":
        bad = check_seq(payload["tr"], payload["curve"], payload["ops"], names)
    elif k == "seqv":
        bad = check_seq(payload["tr"], payload["curve"], payload["ops"], names, typed=True)
    elif k == "corpus":
        bad = check_object_tree(lasio.read(os.path.join(lib.REPO, payload["path"])), [c for c, _ in COPIERS])
    else:
        bad = check_object_tree(build_generated(payload["spec"]), names)
    return (bad is not None), (bad or "copies are observably equal and independent")


def search(ctx, res):
    names = list(ALL_COPIERS)
    for m in res.mismatches:
        bad = check_seq(m["tr"], m["curve"], m["ops"], names)
        if bad:
            yield {"payload": {"kind": "seq", "tr": m["tr"], "curve": m["curve"], "ops": m["ops"]}, "what": bad}
    for tr, curve, ops, _fam in typed_sequences(ctx):
        bad = check_seq(tr, curve, ops, names, typed=True)
        if bad:
            yield {"payload": {"kind": "seqv", "tr": tr, "curve": curve, "ops": ops}, "what": bad}
    for n in (1, 2, 3):
        for tr in (False, True):
            for tm in ic.sequences(ic.mid_alphabet(), n):
                ops = ic.instantiate(tm, True)
                bad = check_seq(tr, True, ops, names)
                if bad:
                    yield {"payload": {"kind": "seq", "tr": tr, "curve": True, "ops": ops}, "what": bad}
