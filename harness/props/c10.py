"""C10 — result is independent of input channel and encoding; reads are pure.

Two families of cases (DESIGN.md, section C10):

(1) channel / encoding tuples.  A generated LAS text (LF line ends, non-ASCII characters in
    header fields) is handed to lasio through every channel: the string itself, io.StringIO,
    an open text file, a path string, a pathlib.Path; for the three file channels the text is
    written (binary mode, temp directory that is removed) in one of the codecs
    {UTF-8 with BOM, utf-8, utf-16, latin-1, cp1252} with one of the line ends {LF, CRLF, CR}.
    DIRECT ORACLE: the canonical dump of the result equals the dump of lasio.read(text);
    las.encoding is None / the named codec / "utf-8-sig"; every non-ASCII character of the
    header fields is found in the result.  "decision" cases leave the property's quantifier
    (no encoding= and no BOM, wrong codec with errors="replace", autodetect_encoding variants):
    there the oracle is "file channel == string channel on bytes.decode(las.encoding, errors)".
    "dispatch" cases are arbitrary strings (one line, empty, exotic line breaks, Paths).
    CORRESPONDENCE: Model/Channels.v (dispatch + choose_encoding, evaluated inside Coq with the
    oracles instantiated by what this environment answered: file bytes, chardet's answer per
    prefix, the ad-hoc readline probes) must predict (channel kind, codec name | error class)
    as observed on the implementation (las.encoding / the exception class).

(2) histories: interleavings (<= 12 steps, 3 live LASFile objects) of read, mutation of earlier
    results, edits of the default items of a fresh LASFile(), write, re-read of written text.
    After every step: a read of a pool text equals the first read of that text in this
    process, a fresh LASFile() equals the first fresh LASFile(), and the objects the step did
    not touch are unchanged.
"""
import collections
import hashlib
import io
import json
import os
import pathlib
import random
import re
import tempfile

import numpy as np

import lib

PROP = "C10"
MODEL_TARGETS = ["Model/Channels.vo"]
THEOREMS = ["C10_channels", "C10_channels_parse", "C10_crlf_string_untranslated", "C10_encoding_choice",
            "C10_encoding_choice_detector", "C10_encoding_choice_adhoc", "C10_bom_detection",
            "C10_encoding_bom_overrides", "C10_encoding_explicit_wins", "C10_encoding_chardet",
            "C10_encoding_chardet_none", "C10_encoding_no_autodetect", "C10_dispatch", "C10_dispatch_empty",
            "C10_dispatch_filename", "C10_pure", "C10_open_with_codecs_current"]
ASSUMPTIONS = [
    "PARTIAL BY NATURE. Proved: open_file dispatch, open_with_codecs encoding choice, and that every channel delivers the same text (hence any function of the delivered text gives equal results).",
    "assumed (explicit hypotheses of C10_channels, never axioms): decode enc e (encode enc t) = t for encodable t (codec_ok, per named codec); decode 'utf-8-sig' (BOM ++ encode 'utf-8' t) = t; universal-newline translation maps a CR-free text written with LF/CRLF/CR line ends back to itself (proved for the concrete translation unl_impl)",
    "premise of the named-codec clause: the encoded bytes do not begin with EF BB BF (the BOM test comes first and overrides encoding=); true for every text whose first character is ASCII and for UTF-16 with BOM",
    "oracles exercised but not proved: the file system, Path.absolute, URL_REGEXP (URLs are out of scope), chardet's answer, the ad-hoc readline probe (CPython decodes a buffered chunk, not one line), the locale encoding, text-mode tell()/seek() cookies under multi-byte encodings (the reader's section addresses; exercised by the utf-16 and non-BMP cases)",
    "in-memory strings get no newline translation: equality of a CRLF string with the file channels needs the parser's LF<->CRLF invariance (property C09), a named premise of C10_channels_parse",
    "not expressible in the model: hidden shared mutable state in the Python heap (module globals, default arguments, default items shared between LASFile objects). C10_pure is congruence in a functional model and carries no weight; purity rests on the history correspondence only",
    "las.encoding is not part of 'the result': it records the channel by design",
    "path channels: absolute and relative (to the working directory) path strings, pathlib.Path absolute / relative / an "
    "instance of a user subclass of Path.  Other os.PathLike objects (pathlib.PurePath, a class with __fspath__, a bytes "
    "path) are not among the statement's channels (path string, pathlib.Path, file object, StringIO, string): lasio "
    "takes them for file objects (AttributeError: no attribute 'read'); observed, not judged",
    "histories: the results of reads are also edited IN PLACE (las.curves[k].data[i] = v, las.index[0] = v, las.index += c, "
    "edits of the arrays las.data / las.df() return); after every step every pool text must still read as in a fresh "
    "interpreter, untouched objects must be unchanged, and the arrays of a result never share memory "
    "(np.shares_memory) with those of the previous read of the same text or of a live LASFile",
]

# ---------------------------------------------------------------------------------------------
# alphabets
LATIN1 = "àáâãäåæçèéêëìíîïñòóôõöøùúûüýÿÀÁÂÃÄÅÆÇÈÉÊËÌÍÎÏÑÒÓÔÕÖØÙÚÛÜÝßµ°±²³¼½¾×÷£¥§©®«»¿¡"
CP1252_EXTRA = "€‚ƒ„…†‡ˆ‰Š‹ŒŽ‘’“”•–—˜™š›œžŸ"
CYRILLIC = "АБВГДЕЖЗИЙКЛМНОПРСТУФХЦЧШЩЪЫЬЭЮЯабвгдежзийклмнопрстуфхцчшщъыьэюяёЁ"
GREEK = "ΑΒΓΔΕΖΗΘΙΚΛΜΝΞΟΠΡΣΤΥΦΧΨΩαβγδεζηθικλμνξοπρστυφχψω"
SYMBOLS = "∆Ω∑√∞≈≠≤≥℃℉‰′″→←↑↓♠☺™€\U0001d6fc\U0001f600\U00010348"
ASCII_WORD = "abcdefghijklmnopqrstuvwxyzABCDEFGHIJKLMNOPQRSTUVWXYZ0123456789_-/()"
ALPHABETS = {
    "latin-1": [LATIN1],
    "cp1252": [LATIN1, CP1252_EXTRA],
    "any": [LATIN1, CP1252_EXTRA, CYRILLIC, GREEK, SYMBOLS],
    "ascii": [],
}
ENC_MODES = ["utf-8-sig-auto", "utf-8", "utf-16", "latin-1", "cp1252"]
NEWLINES = {"LF": "\n", "CRLF": "\r\n", "CR": "\r"}
CHANNELS = ["str_path", "Path", "fileobj", "StringIO", "string", "rel_path", "rel_Path", "PathSub"]
# a path string / pathlib.Path: absolute, relative to the working directory, an instance of a subclass of Path
PATH_CHANNELS = ("str_path", "Path", "rel_path", "rel_Path", "PathSub")
FILE_CHANNELS = PATH_CHANNELS + ("fileobj",)


class PathSub(type(pathlib.Path())):
    """a user subclass of pathlib.Path"""


def path_object(ch, p):
    """the object handed to lasio for the path channel ch and the absolute file name p"""
    if ch == "str_path":
        return p
    if ch == "Path":
        return pathlib.Path(p)
    if ch == "rel_path":
        return os.path.relpath(p)
    if ch == "rel_Path":
        return pathlib.Path(os.path.relpath(p))
    if ch == "PathSub":
        return PathSub(p)
    raise ValueError(ch)


def model_path_input(ch, p, data, kw, installed=True):
    """the model's view of a path channel: the string lasio dispatches on and the name the file system is asked for"""
    x = path_object(ch, p)
    if isinstance(x, str):
        return model_input("S", x, x, x, data, kw, installed)
    ab = str(x.absolute())
    return model_input("P", str(x), ab, ab, data, kw, installed)


def alphabet_of(enc_mode):
    if enc_mode == "latin-1":
        return "latin-1"
    if enc_mode == "cp1252":
        return "cp1252"
    return "any"


def file_codec(enc_mode):
    return "utf-8-sig" if enc_mode == "utf-8-sig-auto" else enc_mode


# ---------------------------------------------------------------------------------------------
# LAS text generator
def _word(rng, alpha, lo=1, hi=8, p_non=0.45):
    groups = ALPHABETS[alpha]
    n = rng.randint(lo, hi)
    out = []
    for _ in range(n):
        if groups and rng.random() < p_non:
            out.append(rng.choice(rng.choice(groups)))
        else:
            out.append(rng.choice(ASCII_WORD))
    w = "".join(out)
    if w[0] in "-(" or w[-1] in "-":
        w = "x" + w + "x"
    return w


def _words(rng, alpha, lo, hi):
    return " ".join(_word(rng, alpha) for _ in range(rng.randint(lo, hi)))


def _mnem(rng, alpha, used):
    groups = ALPHABETS[alpha]
    ups = [c for g in groups for c in g if c.isalpha() and c.upper() == c and c.lower() != c and len(c.lower()) == 1]
    while True:
        n = rng.randint(1, 5)
        m = "".join(rng.choice(ups) if ups and rng.random() < 0.25 else rng.choice("ABCDEFGHIJKLMNOPQRSTUVWXYZ")
                    for _ in range(n))
        if m not in used and m not in ("VERS", "WRAP", "DLM", "STRT", "STOP", "STEP", "NULL", "API", "UWI"):
            used.add(m)
            return m


def gen_las_text(rng, alpha):
    """Returns (text, fields_text): fields_text is the concatenation of every header field and
    ~Other line that was placed, i.e. the header text whose characters must be preserved."""
    used = set()
    fields = []
    L = []

    def item(mn, unit, value, descr):
        fields.extend([mn, unit, value, descr])
        L.append("%s.%s %s : %s" % (mn, unit, value, descr))

    def title(t):
        tail = ""
        if rng.random() < 0.2:
            tail = "  " + _words(rng, alpha, 1, 2)
        L.append(t + tail)

    title(rng.choice(["~Version Information", "~V", "~VERSION"]))
    item("VERS", "", "2.0", _words(rng, alpha, 0, 3))
    item("WRAP", "", "NO", _words(rng, alpha, 0, 3))
    title(rng.choice(["~Well Information", "~W", "~WELL"]))
    nrows = rng.randint(1, 5)
    step = rng.choice([0.5, 1.0, 0.25, 0.1524])
    start = rng.choice([0.0, 100.0, 1670.0, 12.5])
    unit = rng.choice(["M", "FT", "m", "ft"])
    item("STRT", unit, repr(start), _words(rng, alpha, 0, 2))
    item("STOP", unit, repr(start + step * (nrows - 1)), _words(rng, alpha, 0, 2))
    item("STEP", unit, repr(step), _words(rng, alpha, 0, 2))
    item("NULL", "", "-999.25", _words(rng, alpha, 0, 2))
    for mn in rng.sample(["COMP", "WELL", "FLD", "LOC", "PROV", "SRVC", "DATE", "CTRY"], rng.randint(1, 4)):
        used.add(mn)
        item(mn, "", _words(rng, alpha, 1, 3), _words(rng, alpha, 0, 3))
    for _ in range(rng.randint(0, 2)):
        item(_mnem(rng, alpha, used), _word(rng, alpha, 1, 4) if rng.random() < 0.5 else "",
             _words(rng, alpha, 0, 2), _words(rng, alpha, 0, 3))
    title(rng.choice(["~Curve Information", "~C", "~CURVES"]))
    ncurves = rng.randint(1, 3)
    item("DEPT", unit, "", _words(rng, alpha, 0, 2))
    for _ in range(ncurves):
        item(_mnem(rng, alpha, used), _word(rng, alpha, 1, 4) if rng.random() < 0.8 else "",
             _words(rng, alpha, 0, 1), _words(rng, alpha, 0, 3))
    if rng.random() < 0.8:
        title(rng.choice(["~Parameter Information", "~P", "~PARAMETER"]))
        for _ in range(rng.randint(0, 3)):
            item(_mnem(rng, alpha, used), _word(rng, alpha, 1, 4) if rng.random() < 0.5 else "",
                 _words(rng, alpha, 1, 2), _words(rng, alpha, 0, 3))
    if rng.random() < 0.7:
        title(rng.choice(["~Other", "~O", "~OTHER"]))
        for _ in range(rng.randint(1, 3)):
            ln = _words(rng, alpha, 1, 5)
            fields.append(ln)
            L.append(ln)
    title(rng.choice(["~ASCII", "~A", "~A  DEPT  CURVES"]))
    for r in range(nrows):
        row = [repr(start + step * r)]
        for c in range(ncurves):
            row.append(rng.choice(["-999.25", "%.3f" % rng.uniform(-50, 5000), "%d" % rng.randint(-5, 900)]))
        L.append(" ".join(row))
    text = "\n".join(L) + ("\n" if rng.random() < 0.85 else "")
    return text, "".join(fields)


MINIMAL_TEXTS = [
    "~A\n1 2",
    "~A\n1 2\n",
    "~V\nVERS. 2.0 : été",
    "~W\nCOMP. Жук : Ωµ",
    "~C\nDEPT.M : dépth\n",
]


def minimal_fields(text):
    """header text of the minimal texts = everything outside title lines that is non-ASCII"""
    return "".join(l for l in text.split("\n") if not l.startswith("~"))


# ---------------------------------------------------------------------------------------------
# canonical observation of a LASFile
def _v(v):
    if isinstance(v, (bool, np.bool_)):
        return "b:%r" % bool(v)
    if isinstance(v, (int, np.integer)):
        return "i:%d" % int(v)
    if isinstance(v, (float, np.floating)):
        return "f:" + float(v).hex()
    if isinstance(v, str):
        return "s:" + v
    return "o:" + repr(v)


def dump(las):
    secs = []
    for k, sec in las.sections.items():
        if isinstance(sec, str):
            secs.append([k, sec])
        else:
            secs.append([k, [[it.original_mnemonic, it.mnemonic, it.unit, _v(it.value), it.descr] for it in sec]])
    data = []
    for c in las.curves:
        data.append([c.mnemonic, [_v(x) for x in np.asarray(c.data).tolist()]])
    return json.dumps({"sections": secs, "data": data, "index_unit": las.index_unit}, ensure_ascii=False)


def observe(fn):
    """canonical observation of a read: the dump, or the exception class"""
    try:
        las = fn()
    except Exception as e:
        return "EXC:" + exc_class(e), None
    return dump(las), las


def exc_class(e):
    if isinstance(e, OSError) and not isinstance(e, (UnicodeError,)):
        return "OSError"
    if isinstance(e, ImportError):
        return "ImportError"
    return type(e).__name__


def non_ascii_counter(s):
    return collections.Counter(ch for ch in s if ord(ch) > 127)


def first_diff(a, b):
    n = min(len(a), len(b))
    for i in range(n):
        if a[i] != b[i]:
            return "at %d: %r vs %r" % (i, a[max(0, i - 30):i + 30], b[max(0, i - 30):i + 30])
    return "lengths %d vs %d: ...%r vs ...%r" % (len(a), len(b), a[n - 20:n + 40], b[n - 20:n + 40])


def universal_newlines(t):
    return t.replace("\r\n", "\n").replace("\r", "\n")


# ---------------------------------------------------------------------------------------------
# one channel tuple
def kwargs_of(payload):
    kw = {}
    for k, v in payload.get("kwargs", {}).items():
        kw[k] = v
    return kw


def write_case_file(payload, tmpdir, name="f.las"):
    data = payload["text"].replace("\n", NEWLINES[payload["newline"]]).encode(file_codec(payload["enc_mode"]))
    p = os.path.join(tmpdir, name)
    with open(p, "wb") as f:
        f.write(data)
    return p, data


def expected_encoding(payload):
    if payload["channel"] not in PATH_CHANNELS:
        return None
    if payload["enc_mode"] == "utf-8-sig-auto":
        return "utf-8-sig"
    return payload["kwargs"]["encoding"]


def read_through(payload, tmpdir):
    """Run lasio on one (text, channel, encoding, newline, kwargs) tuple.
    Returns (dump-or-EXC, las-or-None, path-or-None, data-or-None)."""
    import lasio
    ch = payload["channel"]
    kw = kwargs_of(payload)
    text = payload["text"]
    if ch == "string":
        o, las = observe(lambda: lasio.read(text))
        return o, las, None, None
    if ch == "StringIO":
        o, las = observe(lambda: lasio.read(io.StringIO(text)))
        return o, las, None, None
    p, data = write_case_file(payload, tmpdir)
    try:
        if ch in PATH_CHANNELS:
            o, las = observe(lambda: lasio.read(path_object(ch, p), **kw))
        else:
            with open(p, encoding=file_codec(payload["enc_mode"])) as f:
                o, las = observe(lambda: lasio.read(f))
    finally:
        pass
    return o, las, p, data


def oracle_channel(payload, tmpdir):
    """Direct oracle for a tuple inside the property's quantifier.  Returns list of texts."""
    import lasio
    bad = []
    text = payload["text"]
    base, _ = observe(lambda: lasio.read(text))
    if base.startswith("EXC:"):
        alt, _ = observe(lambda: lasio.read(io.StringIO(text)))
        if alt.startswith("EXC:"):
            return ["generator error: base text not readable: %s / %s" % (base, alt)], None, None, None
        return ["multi-line string (%d lines) is not read as content: lasio.read(text) raises %s, lasio.read(StringIO(text)) succeeds"
                % (len(text.splitlines()), base[4:])], None, None, None
    got, las, p, data = read_through(payload, tmpdir)
    tag = "%s/%s/%s kwargs=%r" % (payload["channel"], payload["enc_mode"], payload["newline"], payload.get("kwargs", {}))
    if got != base:
        if got.startswith("EXC:"):
            bad.append("%s: read raised %s but lasio.read(text) succeeds" % (tag, got[4:]))
        else:
            bad.append("%s: result differs from lasio.read(text): %s" % (tag, first_diff(got, base)))
    if las is not None:
        exp_enc = expected_encoding(payload)
        if las.encoding != exp_enc:
            bad.append("%s: las.encoding = %r, expected %r" % (tag, las.encoding, exp_enc))
        want = non_ascii_counter(payload["fields_text"])
        have = non_ascii_counter(got)
        missing = want - have
        if missing:
            bad.append("%s: non-ASCII header characters lost: %r" % (tag, "".join(sorted(missing.elements()))[:40]))
    return bad, las, p, data


# ---------------------------------------------------------------------------------------------
# observation of the dispatch / codec decision, and the model input for the same case
def open_observation(x, kw):
    """(canonical string, las)  — 'C' content, 'P' pass-through, 'F=<enc>' / 'F-' file name,
    'E:<class>' if open_file itself raised.  Inferred from LASFile.encoding and the exception;
    nothing in lasio is patched."""
    import lasio
    las = lasio.LASFile()
    exc = None
    try:
        las.read(x, **kw)
    except Exception as e:
        exc = e
    if hasattr(las, "encoding"):
        enc = las.encoding
        if isinstance(x, (str, pathlib.Path)):
            return ("C" if enc is None else "F=" + enc), las, exc
        return "P", las, exc
    return "E:" + exc_class(exc), las, exc


def adhoc_flags(p):
    out = ""
    for e in ["ascii", "windows-1252", "latin-1"]:
        try:
            with io.open(p, mode="r", encoding=e) as f:
                f.readline()
            out += "T"
        except UnicodeDecodeError:
            out += "F"
    return out


_CHARDET_CACHE = {}


def chardet_answer(raw):
    try:
        import chardet
    except ImportError:
        return None
    h = hashlib.sha1(raw).digest()
    if h not in _CHARDET_CACHE:
        _CHARDET_CACHE[h] = chardet.detect(raw)["encoding"]
    return _CHARDET_CACHE[h]


def chardet_installed():
    try:
        import chardet  # noqa: F401
        return True
    except ImportError:
        return False


def opt(s):
    return "-" if s is None else "=" + s


def model_input(kind, s, ab, path, data, kw, installed=True):
    """Abstract description of one call for Model/Channels.v (fields joined by lib.FS)."""
    enc = kw.get("encoding", None)
    auto = kw.get("autodetect_encoding", True)
    nch = kw.get("autodetect_encoding_chars", 4000)
    if auto is True:
        a = "T"
    elif auto is False:
        a = "F"
    else:
        a = "S" + auto
    n = "N" if nch is None else str(int(nch))
    recs = []
    flags = "FFF"
    btxt = ""
    if data is not None:
        lens = {len(data)}
        if nch:
            lens.add(min(int(nch), len(data)))
        need_chardet = (not enc) and bool(auto) and not data.startswith(b"\xef\xbb\xbf")
        for ln in sorted(lens):
            ans = chardet_answer(data[:ln]) if need_chardet else "unused"
            recs.append("%d:%s" % (ln, opt(ans)))
        flags = adhoc_flags(path)
        btxt = data.decode("latin-1")
    return lib.fields(kind, s, ab, path or "", btxt, opt(enc), a, n, lib.RS.join(recs), flags,
                      "T" if (installed and chardet_installed()) else "F")


RUN_DEF = """
Require Import Channels.
Open Scope N_scope.
Fixpoint to_N (s : list N) (acc : N) : N :=
  match s with [] => acc | c :: s' => to_N s' (10 * acc + (c - 48)) end.
Definition p_opt (s : list N) : option (list N) := match s with 61 :: r => Some r | _ => None end.
Definition p_auto (s : list N) : autoval :=
  match s with 84 :: _ => AutoTrue | 83 :: r => AutoStr r | _ => AutoFalse end.
Definition p_nchars (s : list N) : option N := match s with 78 :: _ => None | _ => Some (to_N s 0) end.
Fixpoint tbl (recs : list (list N)) (n : N) : option (list N) :=
  match recs with
  | [] => Some [63]
  | r :: recs' =>
      match split_char 58 r with
      | ln :: ans :: _ => if to_N ln 0 =? n then p_opt ans else tbl recs' n
      | _ => tbl recs' n
      end
  end.
Definition flag (n : nat) (s : list N) : bool := match nth n s 70 with 84 => true | _ => false end.
Definition rl_ok (flags e : list N) (_ : list N) : bool :=
  if str_eqb e (s2l "ascii") then flag 0 flags
  else if str_eqb e (s2l "windows-1252") then flag 1 flags
  else if str_eqb e (s2l "latin-1") then flag 2 flags else false.
Definition err_name (e : cerr) : list N :=
  s2l match e with
      | EIndexError => "IndexError" | EOSError => "OSError" | EDecodeError => "DecodeError"
      | EUnboundLocalError => "UnboundLocalError" | EAttributeError => "AttributeError"
      | EImportError => "ImportError" | ELidar => "Lidar" | EUrlOutOfScope => "URL"
      end.
Definition show (r : cres (list N * option (list N))) (d : channel) : list N :=
  match r with
  | CErr e => 69 :: 58 :: err_name e
  | COk (_, enc) =>
      match d with
      | ChContent _ => [67]
      | ChPassthrough _ => [80]
      | ChFilename _ => match enc with Some e => 70 :: 61 :: e | None => [70; 45] end
      | _ => [63]
      end
  end.
Definition run (i : list N) : list N :=
  match fields i with
  | kind :: s :: ab :: path :: bytes :: enc :: auto :: nch :: recs :: flags :: inst :: _ =>
      let fs := fun p : list N => match path with [] => None | _ => if str_eqb p path then Some bytes else None end in
      let absolute := fun _ : list N => ab in
      let is_url := fun _ : list N => false in
      let r := match kind with 83 :: _ => RStr s | 80 :: _ => RPath s | _ => RObj [] end in
      let k := {| kw_encoding := p_opt enc; kw_errors := s2l "replace"; kw_auto := p_auto auto; kw_nchars := p_nchars nch |} in
      show (open_file fs absolute is_url (fun _ _ b => Some b) (flag 0 inst)
                      (fun raw => tbl (records recs) (N.of_nat (List.length raw)))
                      (rl_ok flags) (s2l "locale") (fun t => t) r k)
           (dispatch absolute is_url r)
  | _ => [33]
  end.
"""


def url_like(s):
    from lasio.reader import URL_REGEXP
    lines = s.splitlines()
    return bool(lines) and bool(URL_REGEXP.match(lines[0]))


def model_ok_string(s):
    return (lib.FS not in s and lib.RS not in s and "\x00" not in s
            and not any(0xd800 <= ord(c) < 0xe000 for c in s))


# ---------------------------------------------------------------------------------------------
# case generation
def gen_tuple(rng, i):
    """The i-th tuple: cycles through channel x enc_mode x newline, random text and kwargs."""
    ch = CHANNELS[i % len(CHANNELS)]
    enc_mode = ENC_MODES[(i // len(CHANNELS)) % len(ENC_MODES)]
    nl = list(NEWLINES)[(i // (len(CHANNELS) * len(ENC_MODES))) % 3]
    if rng.random() < 0.25:
        ch, enc_mode, nl = rng.choice(CHANNELS), rng.choice(ENC_MODES), rng.choice(list(NEWLINES))
    if ch not in FILE_CHANNELS:
        enc_mode, nl = "-", "-"
    alpha = alphabet_of(enc_mode)
    if rng.random() < 0.08:
        cands = [t for t in MINIMAL_TEXTS if enc_mode in ("-", "utf-8-sig-auto", "utf-8", "utf-16") or _encodable(t, enc_mode)]
        text = rng.choice(cands)
        ftxt = minimal_fields(text)
    else:
        text, ftxt = gen_las_text(rng, alpha)
    kw = {}
    if ch in PATH_CHANNELS:
        if enc_mode == "utf-8-sig-auto":
            r = rng.random()
            if r < 0.5:
                pass
            elif r < 0.65:
                kw["autodetect_encoding"] = False
            elif r < 0.75:
                kw["autodetect_encoding"] = "chardet"
            elif r < 0.9:
                kw["encoding"] = rng.choice(["utf-8", "utf-8-sig", "latin-1"])   # the BOM overrides it
            else:
                kw["autodetect_encoding_chars"] = rng.choice([None, 0, 20, 100])
        else:
            kw["encoding"] = enc_mode
            r = rng.random()
            if r < 0.2:
                kw["autodetect_encoding"] = False
            elif r < 0.3:
                kw["autodetect_encoding"] = "chardet"
            elif r < 0.4:
                kw["autodetect_encoding"] = True
            if rng.random() < 0.15:
                kw["encoding_errors"] = rng.choice(["strict", "replace", "ignore"])
    return {"kind": "channel", "text": text, "fields_text": ftxt, "channel": ch, "enc_mode": enc_mode,
            "newline": nl, "kwargs": kw}


def _encodable(t, enc):
    try:
        t.encode(enc)
        return True
    except UnicodeEncodeError:
        return False


DECISION_AUTOS = [True, True, True, False, False, "chardet", "CharDet", "CHARDET", "bogus", ""]


def gen_decision(rng):
    """File read through a path with the codec decision left (partly) to lasio, or a wrong codec."""
    kind = rng.random()
    alpha = rng.choice(["ascii", "latin-1", "cp1252", "any"])
    text, ftxt = gen_las_text(rng, alpha)
    codecs_ok = [c for c in ["utf-8", "utf-8-sig", "latin-1", "cp1252", "utf-16", "cp1251", "koi8-r", "iso8859-7"]
                 if _encodable(text, c)]
    written = rng.choice(codecs_ok)
    kw = {}
    if kind < 0.6:
        kw["autodetect_encoding"] = rng.choice(DECISION_AUTOS)
        if rng.random() < 0.3:
            kw["autodetect_encoding_chars"] = rng.choice([None, 0, 10, 50, 200, 4000, 100000])
        if rng.random() < 0.1:
            kw["encoding"] = ""
    else:
        # wrong (or right) named codec, default errors="replace" unless stated
        kw["encoding"] = rng.choice(["ascii", "latin-1", "cp1252", "utf-8", "cp1251"])
        if rng.random() < 0.3:
            kw["encoding_errors"] = rng.choice(["replace", "ignore"])
        if rng.random() < 0.3:
            kw["autodetect_encoding"] = rng.choice([True, False, "chardet"])
    if "autodetect_encoding" in kw and kw["autodetect_encoding"] is True and rng.random() < 0.5:
        del kw["autodetect_encoding"]
    return {"kind": "decision", "text": text, "fields_text": ftxt, "written": written,
            "newline": rng.choice(list(NEWLINES)), "channel": rng.choice(PATH_CHANNELS), "kwargs": kw,
            "no_chardet": rng.random() < 0.12}


JUNK_ALPHA = "ab~.\n\r\x0b\x0c\x1c\x1d\x1e\x85\u2028\u2029 \t\u00e9\u0416/"


def gen_dispatch(rng):
    r = rng.random()
    if r < 0.08:
        s = ""
    elif r < 0.3:
        s = "".join(rng.choice(JUNK_ALPHA) for _ in range(rng.randint(1, 6)))
    elif r < 0.5:
        s = "no_such_dir_c10/" + _word(rng, "any") + rng.choice(["", "\n", "\r\n", "\x0c", "\u2028"])
    elif r < 0.7:
        s = _word(rng, "any") + rng.choice(["\n", "\r", "\x0b", "\x0c", "\x1c", "\x1d", "\x1e", "\x85", "\u2028", "\u2029", "\r\n"]) + _word(rng, "any")
    elif r < 0.85:
        return {"kind": "dispatch", "how": "existing+eol", "eol": rng.choice(["\n", "\r\n", "\r", "\x0c", "\u2028"]),
                "text": gen_las_text(rng, "any")[0], "as_path": rng.random() < 0.4}
    else:
        return {"kind": "dispatch", "how": "path_with_linebreak", "brk": rng.choice(["\n", "\r", "\x0c", "\x85", "\u2028"]),
                "text": gen_las_text(rng, "any")[0]}
    return {"kind": "dispatch", "how": "string", "s": s, "as_path": rng.random() < 0.2 and s != ""}


# ---------------------------------------------------------------------------------------------
# evaluation of one case: direct oracle + (model input, observation)
def eval_decision(payload, tmpdir):
    import lasio
    text = payload["text"]
    data = text.replace("\n", NEWLINES[payload["newline"]]).encode(payload["written"])
    p = os.path.join(tmpdir, "d.las")
    with open(p, "wb") as f:
        f.write(data)
    kw = kwargs_of(payload)
    x = path_object(payload["channel"], p)
    hide = bool(payload.get("no_chardet"))
    minp = model_path_input(payload["channel"], p, data, kw, installed=not hide)
    if hide:
        # `import chardet` raises ImportError while the entry is None (nothing in lasio is touched)
        import sys
        saved = sys.modules.get("chardet", "absent")
        sys.modules["chardet"] = None
        try:
            obs, las, exc = open_observation(x, kw)
        finally:
            if saved == "absent":
                del sys.modules["chardet"]
            else:
                sys.modules["chardet"] = saved
    else:
        obs, las, exc = open_observation(x, kw)
    bad = []
    corr = None
    if not (isinstance(exc, (UnicodeError, LookupError)) and not hasattr(las, "encoding")):
        corr = (minp, obs)
    if obs.startswith("F="):
        enc = las.encoding
        errors = kw.get("encoding_errors", "replace")
        try:
            decoded = universal_newlines(data.decode(enc, errors))
        except (UnicodeError, LookupError):
            decoded = None
        if decoded is not None and len(decoded.splitlines()) > 1 and not url_like(decoded):
            want, _ = observe(lambda: lasio.read(decoded))
            got = ("EXC:" + exc_class(exc)) if exc is not None else dump(las)
            if want != got:
                bad.append("file written as %s (%s) read with %r -> las.encoding=%r: result differs from lasio.read(bytes.decode(%r, %r)): %s"
                           % (payload["written"], payload["newline"], kw, enc, enc, errors, first_diff(got, want)))
        # the codec that lasio reports must be the one the statement allows
        if data.startswith(b"\xef\xbb\xbf") and enc != "utf-8-sig":
            bad.append("file starts with the UTF-8 BOM but las.encoding=%r (kwargs %r)" % (enc, kw))
        elif not data.startswith(b"\xef\xbb\xbf") and kw.get("encoding") and enc != kw["encoding"]:
            bad.append("encoding=%r was named but las.encoding=%r (kwargs %r)" % (kw["encoding"], enc, kw))
    return bad, corr


def eval_dispatch(payload, tmpdir):
    import lasio
    bad = []
    how = payload["how"]
    if how == "string":
        s = payload["s"]
        if not model_ok_string(s) or url_like(s):
            return bad, None
        lines = s.splitlines()
        if lines and os.path.exists(lines[0]):
            return bad, None
        if payload.get("as_path"):
            x = pathlib.Path(s)
            ab = str(x.absolute())
            if not model_ok_string(ab) or url_like(ab) or os.path.exists(ab.splitlines()[0]):
                return bad, None
            obs, las, exc = open_observation(x, {})
            return bad, (model_input("P", s, ab, None, None, {}), obs)
        obs, las, exc = open_observation(s, {})
        # direct oracle: a multi-line string is content, i.e. behaves as StringIO(s)
        if len(lines) > 1:
            a, _ = observe(lambda: lasio.read(s))
            b, _ = observe(lambda: lasio.read(io.StringIO(s)))
            if a != b:
                bad.append("multi-line string %r: lasio.read(s) -> %s but lasio.read(StringIO(s)) -> %s" % (s, a[:80], b[:80]))
        return bad, (model_input("S", s, "", None, None, {}), obs)
    text = payload["text"]
    if how == "existing+eol":
        p = os.path.join(tmpdir, "e.las")
        data = text.encode("utf-8-sig")
        with open(p, "wb") as f:
            f.write(data)
        s = p + payload["eol"]
        if payload.get("as_path"):
            x = pathlib.Path(s)
            obs, las, exc = open_observation(x, {})
            return bad, (model_input("P", s, str(x.absolute()), p, data, {}), obs)
        obs, las, exc = open_observation(s, {})
        return bad, (model_input("S", s, "", p, data, {}), obs)
    if how == "path_with_linebreak":
        name = "a" + payload["brk"] + "b.las"
        p = os.path.join(tmpdir, name)
        data = text.encode("utf-8-sig")
        try:
            with open(p, "wb") as f:
                f.write(data)
        except (OSError, ValueError):
            return bad, None
        try:
            x = pathlib.Path(p)
            obs, las, exc = open_observation(x, {})
        finally:
            os.remove(p)
        # known-finding candidate: a Path whose name contains a line-break character is taken for
        # LAS content (Path -> str -> splitlines).  The model predicts exactly that, so the tie
        # holds; it is reported as a violation only when the payload asks for it ("strict"), which
        # is what the replay file corpus/C10_path_linebreak.json does.
        if payload.get("strict") and obs != "F=utf-8-sig":
            bad.append("pathlib.Path %r names a readable LAS file but is not opened as a file (observed %s): "
                       "a Path whose name contains a line-break character is treated as LAS content" % (name, obs))
        return bad, (model_input("P", p, str(x.absolute()), None, None, {}), obs)
    raise ValueError(how)


UNREADABLE = []


def eval_channel(payload, tmpdir):
    bad, las, p, data = oracle_channel(payload, tmpdir)
    ch = payload["channel"]
    kw = kwargs_of(payload)
    if bad and bad[0].startswith("generator error"):
        # unreadable through the string AND the StringIO channel: C10 says nothing about such a
        # text (it is some other property's failure); counted, and a run with many of them is
        # reported as a broken tie rather than passing vacuously
        UNREADABLE.append(bad[0])
        return [], None
    if bad and las is None and p is None and ch not in ("string", "StringIO"):
        return bad, None
    # observation for the model tie
    if ch == "string":
        obs, corr_in = ("C" if las is not None and las.encoding is None else "?"), model_input("S", payload["text"], "", None, None, {})
        if las is None:
            return bad, None
    elif ch in ("StringIO", "fileobj"):
        if las is None:
            return bad, None
        obs, corr_in = "P", model_input("O", "", "", None, None, {})
    else:
        if las is None:
            o2, l2, e2 = open_observation(path_object(ch, p), kw)
            if isinstance(e2, (UnicodeError, LookupError)) and not hasattr(l2, "encoding"):
                return bad, None
            obs = o2
        else:
            obs = "F=" + las.encoding if las.encoding is not None else "C"
        corr_in = model_path_input(ch, p, data, kw)
    return bad, (corr_in, obs)


def eval_case(payload, tmpdir):
    k = payload["kind"]
    if k == "channel":
        return eval_channel(payload, tmpdir)
    if k == "decision":
        return eval_decision(payload, tmpdir)
    if k == "dispatch":
        return eval_dispatch(payload, tmpdir)
    raise ValueError(k)


# ---------------------------------------------------------------------------------------------
# histories
FIRST = {}          # text/channel key -> first dump seen in this process
DEFAULT0 = [None]   # dump of the first fresh LASFile() of this process

MUT_OPS = ("rename_curve", "delete_curve", "set_strt", "set_null", "append_curve", "set_unit", "set_other",
           "fresh_edit", "del_item", "add_param", "data_inplace", "index_inplace", "lasdata_edit", "df_inplace")
# in-place writes into the arrays a read returned: las.curves[k].data[i] = v, las.index[0] = v / las.index += c, edits of
# the matrix las.data returns and of the DataFrame las.df() returns
INPLACE_OPS = ("data_inplace", "index_inplace", "lasdata_edit", "df_inplace")

POOL_FIXED = [
    "~A\n1 2\n3 4\n",
    "~C\nDEPT.M : d\nGR.gAPI : g\n~A\n1 2\n2 3\n",
    "~V\nVERS. 2.0 : v\nWRAP. NO : w\n~A\n1 2 3\n",
    "~V\nVERS. 1.2 : v\nWRAP. NO : w\n~W\nSTRT.M 1.0 : s\nSTOP.M 2.0 : s\nSTEP.M 1.0 : s\nNULL. -9 : n\n~C\nDEPT.M : d\nA.µs : Ж\n~A\n1 -9\n2 5\n",
]


# read options vary between the reads of one history: a read must not depend on what an earlier read with
# OTHER options left behind (caches keyed by the line only, module-level state, ...)
KW_VARIANTS = [{}, {}, {"mnemonic_case": "preserve"}, {"mnemonic_case": "lower"}, {"engine": "normal"},
               {"ignore_header_errors": True}, {"null_policy": "none"}, {"mnemonic_case": "preserve", "engine": "normal"}]
POOL_MIXED_CASE = [
    "~V\nVERS. 2.0 : v\nWRAP. NO : w\n~W\nStrt.M 1.0 : s\nStop.M 2.0 : e\nStep.M 1.0 : st\nNull. -9 : n\nComp. Acme : c\n~C\nDept.M : d\nGamma.gAPI : g\n~P\nBht.degC 80 : b\n~A\n1 -9\n2 5\n",
    "~Version\nVers. 1.2 : v\nWrap. NO : w\n~Well\nWell. name : My Well\nFld. f : Field\n~Curve\nDepth.FT : d\nRes.ohmm : r\n~A\n1 2\n3 4\n",
]
GEN_TEXTS = []


def gen_history(rng):
    pool = []
    if not GEN_TEXTS:
        for _ in range(16):
            GEN_TEXTS.append(gen_las_text(rng, "any")[0])
    for _ in range(rng.randint(2, 4)):
        r = rng.random()
        if r < 0.35:
            pool.append({"text": rng.choice(POOL_FIXED), "via": "string", "kw": rng.choice(KW_VARIANTS)})
        elif r < 0.6:
            pool.append({"text": rng.choice(POOL_MIXED_CASE), "via": rng.choice(["string", "StringIO", "path:utf-8"]),
                         "kw": rng.choice(KW_VARIANTS)})
        else:
            via = rng.choice(["string", "string", "string", "path:utf-8", "path:bom", "path:utf-16", "StringIO"])
            pool.append({"text": rng.choice(GEN_TEXTS), "via": via, "kw": rng.choice(KW_VARIANTS)})
    steps = []
    n = rng.randint(3, 12)
    for _ in range(n):
        r = rng.random()
        slot = rng.randrange(3)
        if r < 0.3:
            op = ["read", slot, rng.randrange(len(pool))]
        elif r < 0.36:
            op = ["write", slot, rng.choice(["1.2", "2.0", None])]
        elif r < 0.42:
            op = ["reread", slot, rng.randrange(3)]
        elif r < 0.5:
            op = ["fresh_edit", slot, rng.randrange(9)]
        elif rng.random() < 0.3:
            k = rng.choice(["data_inplace", "data_inplace", "index_inplace", "index_inplace", "lasdata_edit", "df_inplace"])
            v = rng.choice([99.0, -999.25, 12345.5, -9999.0, 0.0])
            if k == "data_inplace":
                op = [k, slot, rng.randrange(4), rng.choice([0, 0, 1, -1]), v]
            elif k == "index_inplace":
                op = [k, slot, rng.choice(["set", "set", "add", "mul"]), v]
            else:
                op = [k, slot, v]
        elif r < 0.58:
            op = ["rename_curve", slot, rng.randrange(3), rng.choice(["ZZ", "DEPT", "Ж", "GR"])]
        elif r < 0.65:
            op = ["delete_curve", slot, rng.randrange(3)]
        elif r < 0.72:
            op = ["set_strt", slot, rng.choice([12345, -1.5, "text", 0])]
        elif r < 0.79:
            op = ["set_null", slot, rng.choice([-1, -9999, 1e30, "NaN"])]
        elif r < 0.85:
            op = ["append_curve", slot, rng.choice(["NEW", "Ω", "DEPT"]), rng.choice(["", "µs", "m"])]
        elif r < 0.9:
            op = ["set_unit", slot, rng.choice(["Well", "Curves", "Version", "Parameter"]), rng.randrange(4), rng.choice(["QQ", "°C", ""])]
        elif r < 0.93:
            op = ["set_other", slot, rng.choice(["", "changed é", "x\ny"])]
        elif r < 0.97:
            op = ["del_item", slot, rng.choice(["Well", "Version", "Parameter", "Curves"]), rng.randrange(4)]
        else:
            op = ["add_param", slot, rng.choice(["PX", "BHT"]), rng.choice(["1", "Ж"])]
        steps.append({"op": op, "probe": rng.randrange(len(pool))})
    return {"kind": "history", "pool": pool, "steps": steps}


def history_is_nontrivial(h):
    seen_mut = False
    for st in h["steps"]:
        if st["op"][0] in MUT_OPS:
            seen_mut = True
        elif st["op"][0] in ("read", "reread") and seen_mut:
            return True
    # the probe read after a mutation step is a re-read too
    return seen_mut


def pool_key(entry):
    return ("pool", entry["via"], entry["text"], json.dumps(entry.get("kw", {}), sort_keys=True))


def pool_read(entry, idx, tmpdir):
    import lasio
    via = entry["via"]
    text = entry["text"]
    kw = dict(entry.get("kw", {}))
    if via == "string":
        return lasio.read(text, **kw)
    if via == "StringIO":
        return lasio.read(io.StringIO(text), **kw)
    if via == "path:bytes":
        # the entry's text is the hex of the file's bytes; no encoding is named: lasio decides from the bytes
        p = os.path.join(tmpdir, entry.get("fname") or "bytes_%s.las" % hashlib.sha1(text.encode()).hexdigest()[:10])
        with open(p, "wb") as f:
            f.write(bytes.fromhex(text))
        return lasio.read(p, **kw)
    codec = {"path:utf-8": "utf-8", "path:bom": "utf-8-sig", "path:utf-16": "utf-16"}[via]
    p = os.path.join(tmpdir, "pool%d_%s.las" % (idx, hashlib.sha1((via + text).encode("utf-8", "replace")).hexdigest()[:8]))
    if not os.path.exists(p):
        with open(p, "wb") as f:
            f.write(text.encode(codec))
    if via == "path:bom":
        return lasio.read(p, **kw)
    return lasio.read(p, encoding=codec, **kw)


def fresh_baselines(entries):
    """What each (text, channel, options) reads as in a FRESH interpreter (nothing read before):
    the reference every read of a history is compared with."""
    import concurrent.futures
    import subprocess
    todo = {}
    for e in entries:
        k = pool_key(e)
        if k not in FIRST and k not in todo:
            todo[k] = e
    if not todo:
        return
    script = os.path.join(os.path.dirname(os.path.dirname(os.path.abspath(__file__))), "fresh_read.py")

    def one(item):
        k, e = item
        try:
            p = subprocess.run([lib.PY, script], input=json.dumps(e), capture_output=True, text=True, timeout=120,
                               env=dict(os.environ, PYTHONPATH=lib.REPO))
            if p.returncode == 0 and p.stdout.startswith("OK "):
                return k, json.loads(p.stdout[3:])
        except Exception:
            pass
        return k, None

    with concurrent.futures.ThreadPoolExecutor(max_workers=16) as ex:
        for k, v in ex.map(one, list(todo.items())):
            if v is not None:
                FIRST[k] = v


def apply_mutation(las, op):
    """Mutations of an existing LASFile; exceptions from the mutation itself are not C10's business."""
    from lasio import HeaderItem
    name = op[0]
    try:
        if name == "rename_curve":
            if len(las.curves):
                las.curves[op[2] % len(las.curves)].mnemonic = op[3]
        elif name == "delete_curve":
            if len(las.curves) > 1:
                las.delete_curve(ix=op[2] % len(las.curves))
        elif name == "set_strt":
            las.well["STRT"].value = op[2]
        elif name == "set_null":
            las.well["NULL"].value = op[2]
        elif name == "append_curve":
            n = len(las.curves[0].data) if len(las.curves) else 3
            las.append_curve(op[2], np.arange(n, dtype=float) * 1.5, unit=op[3], descr="added д")
        elif name == "set_unit":
            sec = las.sections[op[2]]
            if len(sec):
                sec[op[3] % len(sec)].unit = op[4]
        elif name == "set_other":
            las.other = op[2]
        elif name == "del_item":
            sec = las.sections[op[2]]
            if len(sec):
                del sec[op[3] % len(sec)]
        elif name == "add_param":
            las.params[op[2]] = HeaderItem(op[2], "", op[3], "added")
        elif name == "data_inplace":
            if len(las.curves):
                d = las.curves[op[2] % len(las.curves)].data
                if d.size:
                    d[op[3] % len(d)] = op[4]
        elif name == "index_inplace":
            if len(las.curves) and las.index.size:
                ix = las.index
                if op[2] == "set":
                    ix[0] = op[3]
                elif op[2] == "add":
                    ix += op[3]
                else:
                    ix *= 2.0
        elif name == "lasdata_edit":
            d = las.data
            if d.size:
                d[0, 0] = op[2]
                d[-1, -1] = op[2]
        elif name == "df_inplace":
            df = las.df()
            if df.shape[0] and df.shape[1]:
                df.iloc[0, 0] = op[2]
            v = df.values
            if v.size and v.flags.writeable:
                v[-1, -1] = op[2]
    except Exception:
        pass


def fresh_edit(variant):
    import lasio
    from lasio import HeaderItem
    las = lasio.LASFile()
    try:
        if variant == 0:
            las.well["STRT"].unit = "QQ"
        elif variant == 1:
            las.well["NULL"].value = -1
        elif variant == 2:
            las.version["VERS"].value = 1.2
        elif variant == 3:
            las.well.append(HeaderItem("EXTRA", "u", "v", "d"))
        elif variant == 4:
            del las.well["COMP"]
        elif variant == 5:
            las.other = "junk é"
        elif variant == 6:
            las.params["PX"] = HeaderItem("PX", "", 1, "p")
        elif variant == 7:
            las.append_curve("DEPT", np.array([1.0, 2.0]), unit="m")
        else:
            las.well["COMP"].descr = "CHANGED"
            las.version["WRAP"].value = "YES"
            las.well["STRT"].mnemonic = "START"
    except Exception:
        pass
    return las


def init_default():
    """the first fresh LASFile() of this process, taken before anything else is read"""
    import lasio
    if DEFAULT0[0] is None:
        DEFAULT0[0] = dump(lasio.LASFile())


REPLACE_WORDS = ["Soci\u00e9t\u00e9 G\u00e9n\u00e9rale", "M\u00fcnchen-1", "\u00c5sgard", "temp\u00e9rature", "\u00b0C", "\u00b5S/m", "plain", "d\u00e9but"]
REPLACE_CODECS = ["cp1252", "utf-8", "utf-8-sig", "utf-16", "latin-1"]


def gen_replace(rng):
    """One path, two successive contents of EQUAL size in (usually) different encodings: each read must give what
    a fresh interpreter reads from those bytes (a read is a function of the bytes and the options, not of what the
    path held before)."""
    def text():
        w = [rng.choice(REPLACE_WORDS) for _ in range(4)]
        return ("~Version\n VERS. 2.0 : v\n WRAP. NO : w\n#PAD\n~Well\n STRT.M 100.0 : %s\n STOP.M 101.0 : s\n STEP.M 0.5 : s\n"
                " NULL. -999.25 : n\n COMP. %s : COMPANY\n~Curve\n DEPT.M : d\n TEMP.%s : %s\n~ASCII\n 100.0 %d.5\n 100.5 20.6\n 101.0 20.7\n"
                % (w[0], w[1], rng.choice(["\u00b0C", "degC", "\u00b5S/m"]), w[2], rng.randint(1, 99)))
    ta, tb = text(), (text() if rng.random() < 0.6 else None)
    ca, cb = rng.choice(REPLACE_CODECS), rng.choice(REPLACE_CODECS)
    if tb is None:
        tb = ta
    for n in range(max(len(ta.encode(ca)), len(tb.encode(cb))), 4000):
        out = []
        for t, c in ((ta, ca), (tb, cb)):
            per = 2 if c == "utf-16" else 1
            d = n - len(t.encode(c))
            if d < 0 or d % per:
                break
            out.append(t.replace("#PAD\n", "#PAD" + "." * (d // per) + "\n").encode(c))
        if len(out) == 2:
            break
    assert len(out[0]) == len(out[1])
    return {"kind": "replace", "codecs": [ca, cb], "hex": [out[0].hex(), out[1].hex()], "kw": rng.choice(KW_VARIANTS),
            "rounds": rng.choice([1, 1, 2])}


def run_replace(p, tmpdir):
    """-> None or the text of the violation"""
    entries = [{"text": h, "via": "path:bytes", "kw": p["kw"]} for h in p["hex"]]
    fresh_baselines(entries)
    fname = "shared_%s.las" % hashlib.sha1("".join(p["hex"]).encode()).hexdigest()[:10]
    for r in range(p["rounds"]):
        for i, e in enumerate(entries):
            k = pool_key(e)
            if k not in FIRST:
                continue
            o, _ = observe(lambda: pool_read(dict(e, fname=fname), 0, tmpdir))
            if o != FIRST[k]:
                return ("round %d: the path was rewritten with %d bytes in %s (before: %s, same size) and read(path, %r) does not give "
                        "what a fresh interpreter reads from these bytes: %s"
                        % (r, len(e["text"]) // 2, p["codecs"][i], p["codecs"][1 - i] if (r or i) else "nothing", p["kw"],
                           first_diff(o, FIRST[k])))
    return None


def arrays_of(las):
    out = []
    for j, c in enumerate(las.curves):
        if isinstance(c.data, np.ndarray):
            out.append((j, c.data))
    return out


def shared_arrays(a, b):
    """None, or (i, j): curve i of LASFile a and curve j of LASFile b overlap in memory"""
    for i, x in arrays_of(a):
        for j, y in arrays_of(b):
            if x.size and y.size and np.shares_memory(x, y):
                return i, j
    return None


def run_history(h, tmpdir):
    """Returns None or the text of the first purity violation."""
    import lasio
    pool = h["pool"]
    slots = [None, None, None]
    written = [None, None, None]
    last_read = {}          # key -> the LASFile the previous read of that text returned (kept alive on purpose)

    def check_read(key, fn, what):
        o, las = observe(fn)
        if key not in FIRST:
            FIRST[key] = o
        elif FIRST[key] != o:
            return None, "%s: differs from the first read of the same text: %s" % (what, first_diff(o, FIRST[key]))
        if las is not None:
            # two results never share array memory: with the previous read of the same text, with the live objects
            for other, name in [(last_read.get(key), "the previous read of the same text")] + \
                               [(slots[j], "the LASFile in slot %d" % j) for j in range(3)]:
                if other is not None and other is not las:
                    sh = shared_arrays(las, other)
                    if sh:
                        return None, ("%s: curve %d of the result shares array memory (np.shares_memory) with curve %d of %s: "
                                      "an in-place edit of one result changes the other" % (what, sh[0], sh[1], name))
            last_read[key] = las
        return las, None

    init_default()
    fresh_baselines(pool)
    for si, st in enumerate(h["steps"]):
        op = st["op"]
        name, slot = op[0], op[1]
        others = [(j, dump(slots[j])) for j in range(3) if j != slot and slots[j] is not None]
        if name == "read":
            e = pool[op[2]]
            las, bad = check_read(pool_key(e), lambda: pool_read(e, op[2], tmpdir),
                                  "step %d read(pool[%d] via %s, %r)" % (si, op[2], e["via"], e.get("kw", {})))
            if bad:
                return bad
            if las is not None:
                slots[slot] = las
        elif name == "write":
            if slots[slot] is not None:
                buf = io.StringIO()
                try:
                    if op[2] is None:
                        slots[slot].write(buf)
                    else:
                        slots[slot].write(buf, version=float(op[2]))
                    written[slot] = buf.getvalue()
                except Exception:
                    pass
        elif name == "reread":
            src = op[2]
            t = written[src]
            if t is not None and len(t.splitlines()) > 1:
                las, bad = check_read(("text", t), lambda: lasio.read(t), "step %d re-read of text written from slot %d" % (si, src))
                if bad:
                    return bad
                if las is not None:
                    others = [(j, d) for j, d in others if j != slot]
                    slots[slot] = las
        elif name == "fresh_edit":
            slots[slot] = fresh_edit(op[2])
        else:
            if slots[slot] is not None:
                apply_mutation(slots[slot], op)
        # (i) objects the step did not touch are unchanged
        for j, d in others:
            if dump(slots[j]) != d:
                return "step %d %r changed the LASFile in slot %d: %s" % (si, op, j, first_diff(dump(slots[j]), d))
        # (ii) a fresh LASFile() is what it was at the start
        d0 = dump(lasio.LASFile())
        if d0 != DEFAULT0[0]:
            return "after step %d %r a fresh LASFile() differs from the first one: %s" % (si, op, first_diff(d0, DEFAULT0[0]))
        # (iii) reading a pool text gives what its first read gave
        e = pool[st["probe"]]
        _, bad = check_read(pool_key(e), lambda: pool_read(e, st["probe"], tmpdir),
                            "after step %d %r: read(pool[%d] via %s, %r)" % (si, op, st["probe"], e["via"], e.get("kw", {})))
        if bad:
            return bad
    return None


# ---------------------------------------------------------------------------------------------
def tuple_key(p):
    return (hashlib.sha1(p["text"].encode("utf-8", "surrogatepass")).hexdigest()[:12], p.get("channel"),
            p.get("enc_mode", p.get("written")), p["newline"], json.dumps(p.get("kwargs", {}), sort_keys=True))


CORPUS_TEXT = ("~V\nVERS. 2.0 : v\nWRAP. NO : w\n~W\nNULL. -999.25 : n\nSTRT.m 1 : start\n"
               "COMP. Soci\u00e9t\u00e9 G\u00e9n\u00e9rale \u00f1 : compa\u00f1\u00eda \u00abx\u00bb\n~C\nDEPT.m : depth\n"
               "A.\u00b5s : \u00c5ngstr\u00f6m\n~P\nX. 1 : px\n~O\nfree t\u00e9xt \u00fc\n~A\n1 2\n3 -999.25\n")


def corpus_tuples():
    """recon/p10.py's text through every (channel, encoding, newline) combination, default kwargs"""
    out = []
    for ch in CHANNELS:
        if ch not in FILE_CHANNELS:
            out.append({"kind": "channel", "text": CORPUS_TEXT, "fields_text": minimal_fields(CORPUS_TEXT),
                        "channel": ch, "enc_mode": "-", "newline": "-", "kwargs": {}})
            continue
        for em in ENC_MODES:
            for nl in NEWLINES:
                kw = {} if em == "utf-8-sig-auto" or ch == "fileobj" else {"encoding": em}
                out.append({"kind": "channel", "text": CORPUS_TEXT, "fields_text": minimal_fields(CORPUS_TEXT),
                            "channel": ch, "enc_mode": em, "newline": nl, "kwargs": kw})
    return out


def default_changed():
    """None, or how a fresh LASFile() now differs from the first one of this process"""
    import lasio
    d0 = dump(lasio.LASFile())
    if d0 != DEFAULT0[0]:
        return first_diff(d0, DEFAULT0[0])
    return None


def stream(rng, n_tuples, n_decisions, n_dispatch, n_hist, tmpdir, n_replace=0):
    """Yields (payload, violations, corr) for every generated case, in a fixed order."""
    def single_cases():
        for p in corpus_tuples():
            yield p
        for i in range(n_tuples):
            yield gen_tuple(rng, i)
        for _ in range(n_decisions):
            yield gen_decision(rng)
        for _ in range(n_dispatch):
            yield gen_dispatch(rng)

    for p in single_cases():
        bad, corr = eval_case(p, tmpdir)
        yield p, bad, corr
        ch = default_changed()
        if ch:
            # self-contained: fresh LASFile(), this one call, fresh LASFile() again
            yield ({"kind": "purity", "case": p},
                   ["after this single %s call a fresh LASFile() differs from the one created before it: %s" % (p["kind"], ch)], None)
            return       # the process state is polluted from here on
    for k in range(n_hist):
        h = gen_history(rng)
        with tempfile.TemporaryDirectory(prefix="c10h_", dir=tmpdir) as hd:
            bad = run_history(h, hd)
        yield h, ([bad] if bad else []), None
        if bad:
            return       # the process state may be polluted from here on
    rrng = random.Random(rng.random())
    for k in range(n_replace):
        p = gen_replace(rrng)
        with tempfile.TemporaryDirectory(prefix="c10p_", dir=tmpdir) as hd:
            bad = run_replace(p, hd)
        yield p, ([bad] if bad else []), None
        if bad:
            return


def run(ctx):
    res = lib.Result()
    rng = ctx.rng
    if ctx.thorough:
        n_t, n_d, n_j, n_h, n_r = 4000, 1500, 800, 3000, 400
    else:
        n_t, n_d, n_j, n_h, n_r = 300, 150, 120, 200, 40
    cases = []
    payloads = []
    nontrivial = set()
    combos = set()
    hist = collections.Counter()
    n_steps = 0
    samples = []
    init_default()
    del UNREADABLE[:]
    with tempfile.TemporaryDirectory(prefix="c10_") as tmpdir:
        for p, bad, corr in stream(rng, n_t, n_d, n_j, n_h, tmpdir, n_r):
            kind = p["kind"]
            hist[kind] += 1
            for b in bad:
                res.oracle_violations.append({"payload": p, "what": b})
            if kind == "purity":
                continue
            if kind == "replace":
                n_steps += 2 * p["rounds"]
                if p["codecs"][0] != p["codecs"][1]:
                    nontrivial.add(("P", hashlib.sha1("".join(p["hex"]).encode()).hexdigest()))
                continue
            if kind == "history":
                n_steps += len(p["steps"])
                for st in p["steps"]:
                    hist["op:" + st["op"][0]] += 1
                if history_is_nontrivial(p):
                    nontrivial.add(("H", hashlib.sha1(json.dumps(p, sort_keys=True).encode()).hexdigest()))
                continue
            res.cases += 1
            if kind == "channel":
                combos.add((p["channel"], p["enc_mode"], p["newline"]))
                hist["%s/%s/%s" % (p["channel"], p["enc_mode"], p["newline"])] += 1
                if non_ascii_counter(p["fields_text"]):
                    nontrivial.add(("T",) + tuple_key(p))
                if len(samples) < 6 and p["channel"] in FILE_CHANNELS and len(p["text"]) < 400 and p["text"] != CORPUS_TEXT:
                    samples.append("%s/%s/%s %r :: %r" % (p["channel"], p["enc_mode"], p["newline"], p["kwargs"], p["text"][:160]))
            if corr is not None:
                cases.append(corr)
                payloads.append(p)
    # a purity break makes later channel cases fail in ways that do not replay in a fresh
    # process; a history is self-contained, so history violations are reported first
    res.oracle_violations.sort(key=lambda v: 0 if v["payload"]["kind"] in ("history", "purity", "replace") else 1)
    if ctx.build.model_ok:
        mism, err = lib.run_coq_cases("c10", [], RUN_DEF, cases, shard=100)
        res.corr_error = err
        for i in mism:
            res.mismatches.append({"payload": payloads[i], "impl": cases[i][1]})
    else:
        res.corr_error = "model not built"
    hist["unreadable_text_skipped"] = len(UNREADABLE)
    if len(UNREADABLE) * 20 > max(1, hist["channel"]) and not res.oracle_violations:
        res.corr_error = (res.corr_error or "") + "\n%d generated texts are unreadable through every channel, e.g. %s" % (
            len(UNREADABLE), UNREADABLE[0])
    res.cases += n_steps
    res.distinct_nontrivial = len(nontrivial)
    res.rule = ("cases = channel/decision/dispatch calls + history steps. non-trivial = distinct (text, channel, encoding, newline, "
                "kwargs) tuples inside the property's quantifier whose header fields contain at least one non-ASCII character, "
                "plus distinct histories that contain at least one mutation before a later (probe) read, plus distinct "
                "same-path/same-size replacements of a file by one in another encoding; "
                "%d of the %d possible (channel, encoding, newline) combinations were covered" % (len(combos), len(FILE_CHANNELS) * 5 * 3 + 2))
    res.samples = samples
    res.histogram = dict(hist)
    res.extra = {"channel_encoding_newline_combinations": len(combos), "model_tie_cases": len(cases),
                 "history_steps": n_steps}
    return res


def replay(payload):
    init_default()
    with tempfile.TemporaryDirectory(prefix="c10r_") as tmpdir:
        if payload["kind"] == "history":
            bad = run_history(payload, tmpdir)
            return (bad is not None), (bad or "history replays without a purity violation")
        if payload["kind"] == "replace":
            bad = run_replace(payload, tmpdir)
            return (bad is not None), (bad or "both contents of the path read as in a fresh interpreter")
        if payload["kind"] == "purity":
            eval_case(payload["case"], tmpdir)
            ch = default_changed()
            return (ch is not None), ("after the call a fresh LASFile() differs from the one created before it: %s" % ch
                                      if ch else "fresh LASFile() unchanged by the call")
        bad, _ = eval_case(payload, tmpdir)
        return bool(bad), ("; ".join(bad) if bad else "ok")


def finding_of(payload):
    if payload.get("kind") == "dispatch" and payload.get("how") == "path_with_linebreak":
        return "path-linebreak"
    return None


def search(ctx, res):
    """A proof or the tie broke: re-check the mismatching cases, then a wider stream."""
    init_default()
    with tempfile.TemporaryDirectory(prefix="c10s_") as tmpdir:
        for m in res.mismatches:
            bad, _ = eval_case(m["payload"], tmpdir)
            for b in bad:
                yield {"payload": m["payload"], "what": b}
        rng = random.Random(ctx.seed + 1)
        for p, bad, _ in stream(rng, 1500, 600, 300, 800, tmpdir, 300):
            for b in bad:
                yield {"payload": p, "what": b}
